package c04

import (
	"strings"
	"context"
	"net"
	"net/http"
	"runtime/debug"
	"sync/atomic"
	"os"
	"bytes"
	"fmt"
	"sync"
	"testing"

	"verifharness/bed"
	"verifharness/vkit"
)

type traceConn struct {
	net.Conn
	reading int32
	mu      sync.Mutex
	closeBy []byte
}

func (c *traceConn) Read(p []byte) (int, error) {
	atomic.AddInt32(&c.reading, 1)
	n, err := c.Conn.Read(p)
	atomic.AddInt32(&c.reading, -1)
	if err != nil && strings.Contains(err.Error(), "use of closed") {
		c.mu.Lock()
		cb := c.closeBy
		c.mu.Unlock()
		once.Do(func() { fmt.Printf("READ AFTER CLOSE %v; closed by:\n%s\n", c.Conn.LocalAddr(), cb) })
	}
	return n, err
}

var once sync.Once

func (c *traceConn) Close() error {
	c.mu.Lock()
	c.closeBy = debug.Stack()
	c.mu.Unlock()
	return c.Conn.Close()
}

func TestDbg(t *testing.T) {
	vkit.SilenceKlog()
	http.DefaultTransport.(*http.Transport).DialContext = func(ctx context.Context, network, addr string) (net.Conn, error) {
		c, err := (&net.Dialer{}).DialContext(ctx, network, addr)
		if err != nil {
			return nil, err
		}
		return &traceConn{Conn: c}, nil
	}
	var wg sync.WaitGroup
	for w := 0; w < nworkers(); w++ {
		wg.Add(1)
		go func(w int) {
			defer wg.Done()
			tb, err := newTestbed(w, false)
			defer tb.close()
			if err != nil {
				t.Error(err)
				return
			}
			g := vkit.NewRand(uint64(w))
			for i := 0; i < 1500; i++ {
				id := fmt.Sprint("u", w, "-", i)
				body := g.Bytes(g.Range(100000, 1000000))
				rep := &bed.RawReply{Status: 500, Headers: []bed.RawHeader{{"Content-Type", "application/x"}}, Body: body, Framing: g.Pick([]string{"chunked", "close", "cl"})}
				x := &bed.RawRequest{Method: g.Pick([]string{"OPTIONS", "GET", "POST"}), Target: "/apis/x/v1/y", Host: tb.hFwd, Headers: []bed.RawHeader{{"Authorization", "Bearer " + tb.token}, {bed.IDHeader, id}}, Body: g.Bytes(g.Range(0, reqMax())), SendCL: true}
				for _, s := range tb.fwd {
					s.Script(id, rep)
				}
				resp := bed.RawDo(tb.gw.Addr(), x, watchdog)
				for _, s := range tb.fwd {
					s.Forget(id)
				}
				if !bytes.Equal(resp.Body, body) {
					fmt.Printf("MISMATCH w=%d i=%d %s reqbody=%d framing=%s sent=%d got=%d err=%v tail=%q\n", w, i, x.Method, len(x.Body), rep.Framing, len(body), len(resp.Body), resp.Err, resp.Body[max0(len(resp.Body)-260):])
				}
			}
		}(w)
	}
	wg.Wait()
}

func nworkers() int { n := 8; fmt.Sscan(os.Getenv("DBG_W"), &n); return n }
func reqMax() int   { n := 50000; fmt.Sscan(os.Getenv("DBG_REQ"), &n); return n }
