package c04

// oracle.go: wire-level comparison of what the client sent with what the stub upstream received, and of what the stub
// answered with what the client received. Every allowance is an RFC 7230 hop behaviour or a net/http normalisation in the
// gateway process (DESIGN.md C04) and is named where it is applied.

import (
	"bytes"
	"fmt"
	"net/url"
	"strings"

	"verifharness/bed"
)

var hopByHop = map[string]bool{"connection": true, "proxy-connection": true, "keep-alive": true, "proxy-authenticate": true, "proxy-authorization": true,
	"te": true, "trailer": true, "transfer-encoding": true, "upgrade": true}

type diff struct {
	sig  string // signature tail
	what string
}

// ---- query ----

type qpair struct {
	K, V string
	Raw  bool // could not be percent-decoded; kept verbatim
}

// parseQuery reads a raw query the way the wire defines it: pairs separated by '&' only, key and value
// percent-decoded ('+' = blank); a pair that cannot be decoded is kept verbatim instead of being dropped, so that the
// harness' own parser cannot hide a lost parameter (url.ParseQuery silently drops such pairs and pairs containing ';').
func parseQuery(raw string) []qpair {
	var out []qpair
	for _, p := range strings.Split(raw, "&") {
		if p == "" {
			continue
		}
		k, v := p, ""
		if i := strings.IndexByte(p, '='); i >= 0 {
			k, v = p[:i], p[i+1:]
		}
		dk, err1 := url.QueryUnescape(k)
		dv, err2 := url.QueryUnescape(v)
		if err1 != nil || err2 != nil {
			out = append(out, qpair{K: k, V: v, Raw: true})
			continue
		}
		out = append(out, qpair{K: dk, V: dv})
	}
	return out
}

func multimap(ps []qpair) (map[string][]string, []string) {
	m := map[string][]string{}
	var keys []string
	for _, p := range ps {
		k := p.K
		if p.Raw {
			k = "raw:" + k
		}
		if _, ok := m[k]; !ok {
			keys = append(keys, k)
		}
		m[k] = append(m[k], p.V)
	}
	return m, keys
}

// compareQuery: equal as a multimap with the order of values per key preserved (order across keys is not part of the statement).
func compareQuery(clientRaw, stubRaw, hostile string) []diff {
	cm, ckeys := multimap(parseQuery(clientRaw))
	sm, skeys := multimap(parseQuery(stubRaw))
	feat := "plain"
	if hostile != "" {
		feat = hostile
	}
	var out []diff
	for _, k := range ckeys {
		cv, sv := cm[k], sm[k]
		switch {
		case len(sv) == 0:
			f := feat
			if feat != "plain" && !(strings.HasPrefix(k, "raw:") || strings.Contains(strings.Join(cv, ""), ";")) {
				f = "plain-next-to-" + feat
			}
			out = append(out, diff{"query/parameter-dropped/" + f, fmt.Sprintf("query parameter %q=%q of %q did not reach the upstream (it received %q)", k, cv, clientRaw, stubRaw)})
		case len(sv) < len(cv) && feat != "plain":
			out = append(out, diff{"query/parameter-dropped/" + feat, fmt.Sprintf("query parameter %q: client sent %q, upstream received only %q (%q -> %q)", k, cv, sv, clientRaw, stubRaw)})
		case len(sv) != len(cv):
			out = append(out, diff{"query/value-count-changed/" + feat, fmt.Sprintf("query parameter %q: client sent %q, upstream received %q", k, cv, sv)})
		default:
			for i := range cv {
				if cv[i] != sv[i] {
					out = append(out, diff{"query/value-changed/" + feat, fmt.Sprintf("query parameter %q: client sent %q, upstream received %q (raw %q -> %q)", k, cv, sv, clientRaw, stubRaw)})
					break
				}
			}
		}
	}
	for _, k := range skeys {
		if _, ok := cm[k]; !ok {
			out = append(out, diff{"query/parameter-added/" + feat, fmt.Sprintf("upstream received query parameter %q=%q which the client did not send (%q -> %q)", k, sm[k], clientRaw, stubRaw)})
		}
	}
	return out
}

// ---- path ----

func splitTarget(t string) (rawPath, rawQuery string) {
	if i := strings.IndexByte(t, '?'); i >= 0 {
		return t[:i], t[i+1:]
	}
	return t, ""
}

type pathObs struct {
	canonical bool
	pct2f     bool
}

func comparePath(clientRaw, stubRaw string) ([]diff, pathObs) {
	var obs pathObs
	cd, err1 := url.PathUnescape(clientRaw)
	sd, err2 := url.PathUnescape(stubRaw)
	if err1 != nil || err2 != nil {
		return []diff{{"path/undecodable", fmt.Sprintf("path %q -> %q cannot be decoded", clientRaw, stubRaw)}}, obs
	}
	obs.pct2f = strings.Contains(strings.ToLower(clientRaw), "%2f")
	obs.canonical = (&url.URL{Path: cd}).EscapedPath() == clientRaw
	var out []diff
	if cd != sd {
		feat := "other"
		switch {
		case strings.TrimSuffix(cd, "/") == strings.TrimSuffix(sd, "/"):
			feat = "trailing-slash"
		case strings.Contains(cd, "//") || strings.Contains(cd, "/."):
			feat = "dot-or-empty-segment"
		case strings.Contains(clientRaw, "%"):
			feat = "escaped"
		}
		out = append(out, diff{"path/decoded-differs/" + feat, fmt.Sprintf("client path %q (decoded %q) reached the upstream as %q (decoded %q)", clientRaw, cd, stubRaw, sd)})
	} else if strings.Count(clientRaw, "/") != strings.Count(stubRaw, "/") {
		// Quantifier audit ("URL path (including escaped bytes)"): an escaped slash is data inside a segment; decoding it on
		// the way changes the segments the upstream sees (/a%2Fb -> /a/b), although both spellings decode to the same string.
		out = append(out, diff{"path/escaped-slash-decoded", fmt.Sprintf("client path %q reached the upstream as %q: %%2F was decoded into a segment separator", clientRaw, stubRaw)})
	} else if obs.canonical && clientRaw != stubRaw {
		out = append(out, diff{"path/canonical-encoding-rewritten", fmt.Sprintf("client path %q is in canonical encoding but reached the upstream as %q", clientRaw, stubRaw)})
	}
	return out, obs
}

// ---- headers ----

func lowerMap(hs []bed.RawHeader) (map[string][]string, []string) {
	m := map[string][]string{}
	var order []string
	for _, h := range hs {
		k := strings.ToLower(h.Name)
		if _, ok := m[k]; !ok {
			order = append(order, k)
		}
		m[k] = append(m[k], strings.Trim(h.Value, " \t"))
	}
	return m, order
}

func eq(a, b []string) bool {
	if len(a) != len(b) {
		return false
	}
	for i := range a {
		if a[i] != b[i] {
			return false
		}
	}
	return true
}

var namedClasses = map[string]bool{"x-forwarded-for": true, "user-agent": true, "accept-encoding": true, "te": true, "cookie": true, "content-type": true, "accept": true,
	"cache-control": true, "date": true, "set-cookie": true, "retry-after": true, "location": true, "content-encoding": true, "www-authenticate": true, "x-verif-id": true}

func nameClass(n string) string {
	if namedClasses[n] {
		return n
	}
	if strings.HasPrefix(n, "access-control-") {
		return "access-control-*"
	}
	return "other"
}

func hasToken(vals []string, tok string) bool {
	for _, v := range vals {
		for _, t := range strings.Split(v, ",") {
			if strings.EqualFold(strings.TrimSpace(t), tok) {
				return true
			}
		}
	}
	return false
}

// compareRequestHeaders: every end-to-end client header arrives with the same values in the same order; nothing is added
// beyond the allow-list.
func compareRequestHeaders(x *Exchange, got []bed.RawHeader, peerIP string, upgrade, h2 bool) []diff {
	cm, corder := lowerMap(x.Req.Headers)
	gm, gorder := lowerMap(got)
	var out []diff
	want := map[string][]string{}
	for _, n := range corder {
		switch {
		case upgrade && (n == "connection" || n == "upgrade"):
			// the upgrade path keeps the handshake headers
			want[n] = cm[n]
		case hopByHop[n], x.connNamed[n], n == "authorization", strings.HasPrefix(n, "impersonate-"), n == "content-length", n == "host":
			// hop-by-hop, nominated in Connection, credential, impersonation, framing: excepted by the statement
		case n == "x-forwarded-for":
		case h2 && n == "expect":
			// a net/http HTTP/2 server (the TLS+h2 stub) consumes Expect: 100-continue itself and deletes the field
		case n == "user-agent":
			// net/http writes a single User-Agent line (the first value); an empty one is replaced by the gateway's own
			if cm[n][0] != "" {
				want[n] = cm[n][:1]
			}
		default:
			want[n] = cm[n]
		}
	}
	xff := peerIP
	if prior := cm["x-forwarded-for"]; len(prior) > 0 && !x.connNamed["x-forwarded-for"] {
		xff = strings.Join(prior, ", ") + ", " + peerIP
	}
	want["x-forwarded-for"] = []string{xff}
	for n, wv := range want {
		gv := gm[n]
		if eq(wv, gv) {
			continue
		}
		if h2 && n == "cookie" {
			// RFC 7540 8.1.2.5: HTTP/2 splits Cookie into crumbs and the receiving net/http server joins them with "; "
			// (an empty crumb disappears); compared as the joined string
			var ne []string
			for _, v := range wv {
				if v != "" {
					ne = append(ne, v)
				}
			}
			if strings.Join(ne, "; ") == strings.Join(gv, "; ") {
				continue
			}
		}
		kind := "changed"
		if len(gv) == 0 {
			kind = "dropped"
		}
		feat := nameClass(n)
		if len(wv) > 1 {
			feat += "/multi-valued"
		}
		if n == "x-forwarded-for" {
			out = append(out, diff{"request-header/" + kind + "/" + feat, fmt.Sprintf("X-Forwarded-For: client sent %q from peer %s, so the upstream must receive %q; it received %q", cm[n], peerIP, wv, gv)})
			continue
		}
		out = append(out, diff{"request-header/" + kind + "/" + feat, fmt.Sprintf("request header %s: client sent %q, upstream received %q", n, wv, gv)})
	}
	for _, n := range gorder {
		if _, ok := want[n]; ok {
			continue
		}
		gv := gm[n]
		switch {
		case len(cm[n]) > 0 && (hopByHop[n] || x.connNamed[n]):
			// a hop-by-hop header the client sent and that travelled on anyway (upgrade path) is "excepted", not added
		case n == "authorization", strings.HasPrefix(n, "impersonate-"), n == "content-length", n == "transfer-encoding", n == "host", n == "trailer":
			// gateway credential + generated identity, re-framing
		case n == "accept-encoding" && !x.ClientAE && eq(gv, []string{"gzip"}):
			// net/http transport asks for gzip when the client did not negotiate
		case n == "user-agent":
			// set to the gateway's default when the client sent none / an empty one
		case n == "cache-control" && len(cm["pragma"]) > 0 && cm["pragma"][0] == "no-cache" && eq(gv, []string{"no-cache"}):
			// net/http (ReadRequest in the gateway's server) derives Cache-Control: no-cache from Pragma: no-cache (RFC 7234 5.4)
		case n == "te" && hasToken(cm["te"], "trailers") && eq(gv, []string{"trailers"}):
			// RFC 7230: TE is hop-by-hop; the proxy re-announces trailer support when the client did
		default:
			out = append(out, diff{"request-header/added/" + nameClass(n), fmt.Sprintf("upstream received header %s: %q which the client did not send", n, gv)})
		}
	}
	return out
}

// compareResponseHeaders: every end-to-end upstream header value reaches the client; additions only from the allow-list.
func compareResponseHeaders(x *Exchange, method string, got []bed.RawHeader, decoded bool) []diff {
	um, uorder := lowerMap(x.Reply.Headers)
	gm, gorder := lowerMap(got)
	named := map[string]bool{}
	for _, v := range um["connection"] {
		for _, t := range strings.Split(v, ",") {
			named[strings.ToLower(strings.TrimSpace(t))] = true
		}
	}
	var out []diff
	want := map[string][]string{}
	for _, n := range uorder {
		switch {
		case hopByHop[n], named[n], n == "content-length":
		case decoded && n == "content-encoding":
			// hop-negotiated compression was undone by the gateway's transport
		case x.Reply.Status == 304 && n == "content-type":
			// net/http drops Content-Type on 304
		default:
			want[n] = um[n]
		}
	}
	for n, wv := range want {
		gv := gm[n]
		if n == "cache-control" && len(gv) == len(wv)+1 && gv[0] == "no-cache, private" {
			gv = gv[1:] // prepended by the generic cache-control filter; upstream values still present
		}
		if eq(wv, gv) {
			continue
		}
		kind := "changed"
		if len(gv) == 0 {
			kind = "dropped"
		}
		feat := nameClass(n)
		if len(wv) > 1 {
			feat += "/multi-valued"
		}
		out = append(out, diff{"response-header/" + kind + "/" + feat, fmt.Sprintf("response header %s (status %d): upstream sent %q, client received %q", n, x.Reply.Status, wv, gm[n])})
	}
	for _, n := range gorder {
		if _, ok := want[n]; ok {
			continue
		}
		gv := gm[n]
		switch {
		case n == "cache-control" && eq(gv, []string{"no-cache, private"}):
		case n == "cache-control" && len(um["pragma"]) > 0 && um["pragma"][0] == "no-cache" && eq(gv, []string{"no-cache, private", "no-cache"}):
			// net/http (ReadResponse in the gateway's transport) derives Cache-Control: no-cache from Pragma: no-cache
		case n == "date", n == "content-length", n == "transfer-encoding", n == "connection", n == "trailer":
		case n == "content-type" && len(um["content-type"]) == 0:
			// sniffed by net/http when the upstream sent none
		case n == "content-type" && x.Reply.Status == 304:
		case hopByHop[n] || named[n]:
			// hop-by-hop upstream headers are not judged either way
		default:
			out = append(out, diff{"response-header/added/" + nameClass(n), fmt.Sprintf("client received header %s: %q which the upstream did not send (status %d)", n, gv, x.Reply.Status)})
		}
	}
	return out
}

func compareBody(what string, want, got []byte) []diff {
	if bytes.Equal(want, got) {
		return nil
	}
	feat := "content"
	switch {
	case abortedMidstream(want, got):
		// the relay stopped part-way and the gateway wrote its own error object into the running body
		feat = "aborted-midstream"
	case len(got) == 0:
		feat = "emptied"
	case len(got) < len(want) && bytes.Equal(want[:len(got)], got):
		feat = "truncated"
	case len(got) > len(want) && bytes.Equal(got[:len(want)], want):
		feat = "appended"
	}
	return []diff{{what + "/" + feat, fmt.Sprintf("%s differs: %d bytes sent, %d bytes received (first difference at %d)", what, len(want), len(got), firstDiff(want, got))}}
}

func firstDiff(a, b []byte) int {
	n := len(a)
	if len(b) < n {
		n = len(b)
	}
	for i := 0; i < n; i++ {
		if a[i] != b[i] {
			return i
		}
	}
	return n
}

// abortedMidstream: got = a proper prefix of want followed by a short gateway-generated error object (in whatever media
// type the client negotiated).
func abortedMidstream(want, got []byte) bool {
	l := firstDiff(want, got)
	if l >= len(want) && len(got) <= len(want) {
		return false
	}
	tail := got[l:]
	if i := bytes.Index(tail, []byte("KubeGatewayInternalError")); i < 0 || len(tail) > 2048 {
		// the error object may start with bytes that happen to continue the upstream's body: search a little earlier
		from := l - 256
		if from < 0 {
			from = 0
		}
		tail = got[from:]
		return len(tail) <= 2304 && bytes.Contains(tail, []byte("KubeGatewayInternalError"))
	}
	return true
}
