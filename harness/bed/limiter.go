package bed

import (
	"context"
	"sync"

	metav1 "k8s.io/apimachinery/pkg/apis/meta/v1"
	"k8s.io/client-go/tools/cache"

	proxyv1alpha1 "github.com/kubewharf/kubegateway/pkg/apis/proxy/v1alpha1"
	gatewayinformers "github.com/kubewharf/kubegateway/pkg/client/informers"
	gatewayclientset "github.com/kubewharf/kubegateway/pkg/client/kubernetes"
	gatewayfake "github.com/kubewharf/kubegateway/pkg/client/kubernetes/fake"
	proxylisters "github.com/kubewharf/kubegateway/pkg/client/listers/proxy/v1alpha1"
	"github.com/kubewharf/kubegateway/pkg/ratelimiter/limiter"
	"github.com/kubewharf/kubegateway/pkg/ratelimiter/limiter/elector"
	"github.com/kubewharf/kubegateway/pkg/ratelimiter/options"
)

// ScriptedElector is a leader elector whose leadership table is set by the harness.
type ScriptedElector struct {
	mu        sync.RWMutex
	Identity  string
	leaders   map[int]string
	callbacks elector.LeaderCallbacks
}

func NewScriptedElector(identity string) *ScriptedElector {
	return &ScriptedElector{Identity: identity, leaders: map[int]string{}}
}

func (e *ScriptedElector) Run(ctx context.Context) {}

func (e *ScriptedElector) IsLeader(shard int) bool {
	e.mu.RLock()
	defer e.mu.RUnlock()
	return e.leaders[shard] == e.Identity
}

func (e *ScriptedElector) GetLeaders() map[int]proxyv1alpha1.EndpointInfo {
	e.mu.RLock()
	defer e.mu.RUnlock()
	out := map[int]proxyv1alpha1.EndpointInfo{}
	for s, l := range e.leaders {
		out[s] = proxyv1alpha1.EndpointInfo{ShardID: int32(s), Leader: l, LastChange: metav1.Now()}
	}
	return out
}

func (e *ScriptedElector) SetCallbacks(cb elector.LeaderCallbacks) { e.callbacks = cb }

// SetLeader only edits the table (what the election would publish); no callback.
func (e *ScriptedElector) SetLeader(shard int, identity string) {
	e.mu.Lock()
	if identity == "" {
		delete(e.leaders, shard)
	} else {
		e.leaders[shard] = identity
	}
	e.mu.Unlock()
}

// Gain makes this server leader of shard and fires OnStartedLeading, as the real elector does.
func (e *ScriptedElector) Gain(shard int) {
	e.SetLeader(shard, e.Identity)
	if e.callbacks.OnStartedLeading != nil {
		e.callbacks.OnStartedLeading(shard)
	}
}

// Lose hands the shard to other (may be "") and fires OnStoppedLeading, as the real elector does.
func (e *ScriptedElector) Lose(shard int, other string) {
	e.SetLeader(shard, other)
	if e.callbacks.OnStoppedLeading != nil {
		e.callbacks.OnStoppedLeading(shard)
	}
}

// StubUpstreamController implements controller.UpstreamController over an indexer the harness edits.
type StubUpstreamController struct {
	Indexer cache.Indexer
	lister  proxylisters.UpstreamClusterLister
}

func NewStubUpstreamController() *StubUpstreamController {
	cs := gatewayfake.NewSimpleClientset()
	f := gatewayinformers.NewSharedInformerFactory(cs, 0)
	inf := f.Proxy().V1alpha1().UpstreamClusters()
	return &StubUpstreamController{Indexer: inf.Informer().GetIndexer(), lister: inf.Lister()}
}

func (c *StubUpstreamController) Run(stopCh <-chan struct{}) {}
func (c *StubUpstreamController) UpstreamClusterLister() proxylisters.UpstreamClusterLister {
	return c.lister
}
func (c *StubUpstreamController) Get(cluster string) (*proxyv1alpha1.UpstreamCluster, bool) {
	o, ok, _ := c.Indexer.GetByKey(cluster)
	if !ok {
		return nil, false
	}
	return o.(*proxyv1alpha1.UpstreamCluster), true
}

// LimiterServer is a real rate-limiter server (pkg/ratelimiter/limiter) with a scripted elector and lister.
type LimiterServer struct {
	Limiter  limiter.RateLimiter
	Handle   *limiter.VerifHandle
	Elector  *ScriptedElector
	Upstream *StubUpstreamController
	Shards   int
}

// LimiterOptions configures NewLimiterServer.
type LimiterOptions struct {
	Identity      string
	Shards        int
	Store         string // "local" (default) or "k8s"
	GatewayClient gatewayclientset.Interface
	LeadAll       bool // become leader of every shard right away
}

func NewLimiterServer(o LimiterOptions) *LimiterServer {
	if o.Identity == "" {
		o.Identity = "limiter-0"
	}
	if o.Shards == 0 {
		o.Shards = 1
	}
	if o.Store == "" {
		o.Store = "local"
	}
	if o.GatewayClient == nil {
		o.GatewayClient = gatewayfake.NewSimpleClientset()
	}
	el := NewScriptedElector(o.Identity)
	uc := NewStubUpstreamController()
	rl, h := limiter.VerifNewRateLimiter(o.GatewayClient, options.RateLimitOptions{
		ShardingCount: o.Shards, LimitStore: o.Store, Identity: o.Identity,
	}, el, uc)
	s := &LimiterServer{Limiter: rl, Handle: h, Elector: el, Upstream: uc, Shards: o.Shards}
	if o.LeadAll {
		for i := 0; i < o.Shards; i++ {
			el.Gain(i)
		}
	}
	return s
}

// ApplyUpstream makes the object the lister's current version and calls the server's cluster handler (what the
// server's upstream controller does for an add/update event).
func (s *LimiterServer) ApplyUpstream(obj *proxyv1alpha1.UpstreamCluster) error {
	o := obj.DeepCopy()
	if _, ok, _ := s.Upstream.Indexer.GetByKey(o.Name); ok {
		_ = s.Upstream.Indexer.Update(o)
	} else {
		_ = s.Upstream.Indexer.Add(o)
	}
	return s.Handle.UpstreamConditionHandler(o)
}

// DeleteUpstream removes the object from the lister and delivers the delete event.
func (s *LimiterServer) DeleteUpstream(name string) error {
	o, ok, _ := s.Upstream.Indexer.GetByKey(name)
	if !ok {
		return s.Handle.UpstreamConditionHandler(&proxyv1alpha1.UpstreamCluster{ObjectMeta: metav1.ObjectMeta{Name: name}})
	}
	_ = s.Upstream.Indexer.Delete(o)
	return s.Handle.UpstreamConditionHandler(o.(*proxyv1alpha1.UpstreamCluster))
}
