package bed

import (
	"sync"

	"k8s.io/apimachinery/pkg/labels"

	proxyv1alpha1 "github.com/kubewharf/kubegateway/pkg/apis/proxy/v1alpha1"
	proxylisters "github.com/kubewharf/kubegateway/pkg/client/listers/proxy/v1alpha1"
)

// hookLister is the stub controller's lister with a one-shot callback that runs INSIDE List(). The limiter server's
// unknown-condition pass lists the upstream clusters exactly between taking its snapshot of the known clients and listing
// the stored conditions, so the callback lets a harness place events (an instance joining) in that window - deterministically
// and without touching the code under test.
type hookLister struct {
	proxylisters.UpstreamClusterLister
	mu   sync.Mutex
	once func()
}

func (l *hookLister) List(selector labels.Selector) ([]*proxyv1alpha1.UpstreamCluster, error) {
	l.mu.Lock()
	fn := l.once
	l.once = nil
	l.mu.Unlock()
	if fn != nil {
		fn()
	}
	return l.UpstreamClusterLister.List(selector)
}

// InstallListHook wraps the lister once; call it before anything else uses the controller (the field is not synchronised).
func (c *StubUpstreamController) InstallListHook() {
	if _, ok := c.lister.(*hookLister); !ok {
		c.lister = &hookLister{UpstreamClusterLister: c.lister}
	}
}

// OnNextList arms the one-shot callback (InstallListHook must have been called); nil disarms it.
func (c *StubUpstreamController) OnNextList(fn func()) {
	if l, ok := c.lister.(*hookLister); ok {
		l.mu.Lock()
		l.once = fn
		l.mu.Unlock()
	}
}
