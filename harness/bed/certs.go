package bed

import (
	"crypto/ecdsa"
	"crypto/elliptic"
	"crypto/rand"
	"crypto/x509"
	"crypto/x509/pkix"
	"encoding/pem"
	"math/big"
	"sync/atomic"
	"time"
)

// KeyPair is a PEM certificate with its key.
type KeyPair struct {
	CertPEM, KeyPEM []byte
	DER             []byte
	Cert            *x509.Certificate
	key             *ecdsa.PrivateKey
}

var serial int64 = 1000

func pemEncodeCert(der []byte) []byte {
	return pem.EncodeToMemory(&pem.Block{Type: "CERTIFICATE", Bytes: der})
}

// NewCA makes a self-signed ECDSA P-256 CA with the given common name.
func NewCA(cn string) *KeyPair {
	key, err := ecdsa.GenerateKey(elliptic.P256(), rand.Reader)
	if err != nil {
		panic(err)
	}
	tpl := &x509.Certificate{
		SerialNumber:          big.NewInt(atomic.AddInt64(&serial, 1)),
		Subject:               pkix.Name{CommonName: cn},
		NotBefore:             time.Now().Add(-time.Hour),
		NotAfter:              time.Now().Add(24 * time.Hour),
		IsCA:                  true,
		KeyUsage:              x509.KeyUsageCertSign | x509.KeyUsageDigitalSignature,
		BasicConstraintsValid: true,
	}
	der, err := x509.CreateCertificate(rand.Reader, tpl, tpl, &key.PublicKey, key)
	if err != nil {
		panic(err)
	}
	return finish(der, key)
}

// NewServing makes a leaf certificate (server+client auth) for the DNS names, signed by ca (self-signed if ca is nil).
func NewServing(cn string, dns []string, ca *KeyPair) *KeyPair {
	key, err := ecdsa.GenerateKey(elliptic.P256(), rand.Reader)
	if err != nil {
		panic(err)
	}
	tpl := &x509.Certificate{
		SerialNumber: big.NewInt(atomic.AddInt64(&serial, 1)),
		Subject:      pkix.Name{CommonName: cn},
		NotBefore:    time.Now().Add(-time.Hour),
		NotAfter:     time.Now().Add(24 * time.Hour),
		KeyUsage:     x509.KeyUsageDigitalSignature,
		ExtKeyUsage:  []x509.ExtKeyUsage{x509.ExtKeyUsageServerAuth, x509.ExtKeyUsageClientAuth},
		DNSNames:     dns,
	}
	parent, signer := tpl, key
	if ca != nil {
		parent, signer = ca.Cert, ca.key
	}
	der, err := x509.CreateCertificate(rand.Reader, tpl, parent, &key.PublicKey, signer)
	if err != nil {
		panic(err)
	}
	return finish(der, key)
}

func finish(der []byte, key *ecdsa.PrivateKey) *KeyPair {
	c, err := x509.ParseCertificate(der)
	if err != nil {
		panic(err)
	}
	kb, err := x509.MarshalECPrivateKey(key)
	if err != nil {
		panic(err)
	}
	return &KeyPair{
		CertPEM: pemEncodeCert(der),
		KeyPEM:  pem.EncodeToMemory(&pem.Block{Type: "EC PRIVATE KEY", Bytes: kb}),
		DER:     der, Cert: c, key: key,
	}
}
