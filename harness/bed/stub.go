// Package bed is the in-process test bed shared by the HTTP- and controller-level checks: stub upstream API servers that
// record what they receive, a real gateway (real controller + real proxy handler chain) driven deterministically, and
// certificate helpers.
package bed

import (
	"crypto/sha256"
	"crypto/tls"
	"encoding/hex"
	"io"
	"net"
	"net/http"
	"net/http/httptest"
	"strings"
	"sync"
	"sync/atomic"
	"time"
)

var t0 = time.Now()

// Now is the single monotonic clock of the test bed (nanoseconds since process start).
func Now() int64 { return int64(time.Since(t0)) }

// IDHeader carries the unique request id that makes histories unambiguous.
const IDHeader = "X-Verif-Id"

// Seen is one request as received by a stub upstream.
type Seen struct {
	ID         string
	At         int64
	Method     string
	RequestURI string
	Path       string
	RawQuery   string
	Host       string
	Header     http.Header
	BodyLen    int64
	BodySHA    string
	Proto      string
	RemoteAddr string
	Trailer    http.Header
}

// HealthMode is how a stub answers /healthz.
type HealthMode int32

const (
	HealthOK HealthMode = iota
	Health500
	HealthClose
	HealthHang
)

// Stub is a stub upstream API server.
type Stub struct {
	Name   string
	Server *httptest.Server
	URL    string // scheme://host:port

	mu      sync.Mutex
	seen    []Seen
	probes  []int64
	pauth   []string // Authorization header of each probe (attributes a probe to the gateway cluster that sent it)
	byID    map[string]int
	health  int32
	handler atomic.Value // func(w http.ResponseWriter, r *http.Request, s *Seen)

	// OnRequest, when set, is called (after recording) instead of the default 200 responder.
	closed int32
}

// Responder scripts the stub's answer to a proxied (non-/healthz) request.
type Responder func(w http.ResponseWriter, r *http.Request, s *Seen)

// NewStub starts a plain-HTTP stub.
func NewStub(name string) *Stub { return newStub(name, false, false) }

// NewTLSStub starts a TLS stub (h2 enabled when http2 is true).
func NewTLSStub(name string, http2 bool) *Stub { return newStub(name, true, http2) }

func newStub(name string, useTLS, h2 bool) *Stub {
	s := &Stub{Name: name, byID: map[string]int{}}
	srv := &httptest.Server{Listener: ListenRetry(), Config: &http.Server{Handler: http.HandlerFunc(s.serve)}}
	if useTLS {
		srv.EnableHTTP2 = h2
		srv.StartTLS()
	} else {
		srv.Start()
	}
	s.Server = srv
	s.URL = srv.URL
	return s
}

func (s *Stub) Close() {
	if atomic.CompareAndSwapInt32(&s.closed, 0, 1) {
		s.Server.CloseClientConnections()
		s.Server.Close()
	}
}

// CertPEM returns the stub's TLS certificate (PEM) for use as CA data.
func (s *Stub) CertPEM() []byte {
	if s.Server.TLS == nil || len(s.Server.TLS.Certificates) == 0 {
		return nil
	}
	return pemEncodeCert(s.Server.TLS.Certificates[0].Certificate[0])
}

func (s *Stub) SetHealth(m HealthMode) { atomic.StoreInt32(&s.health, int32(m)) }

// SetResponder installs the scripted answer for proxied requests (nil = default 200 "ok <name>").
func (s *Stub) SetResponder(f Responder) {
	s.handler.Store(&f)
}

func (s *Stub) serve(w http.ResponseWriter, r *http.Request) {
	if r.URL.Path == "/healthz" && r.Header.Get(IDHeader) == "" {
		s.mu.Lock()
		s.probes = append(s.probes, Now())
		s.pauth = append(s.pauth, r.Header.Get("Authorization"))
		s.mu.Unlock()
		switch HealthMode(atomic.LoadInt32(&s.health)) {
		case HealthOK:
			w.WriteHeader(200)
			io.WriteString(w, "ok")
		case Health500:
			w.WriteHeader(500)
			io.WriteString(w, "unhealthy")
		case HealthClose:
			if hj, ok := w.(http.Hijacker); ok {
				c, _, err := hj.Hijack()
				if err == nil {
					c.Close()
					return
				}
			}
			panic(http.ErrAbortHandler)
		case HealthHang:
			select {
			case <-r.Context().Done():
			case <-time.After(30 * time.Second):
			}
		}
		return
	}
	seen := Seen{
		ID: r.Header.Get(IDHeader), At: Now(), Method: r.Method, RequestURI: r.RequestURI, Path: r.URL.Path, RawQuery: r.URL.RawQuery,
		Host: r.Host, Header: r.Header.Clone(), Proto: r.Proto, RemoteAddr: r.RemoteAddr,
	}
	// record at header time (a partially forwarded request must be visible), then complete with the body
	s.mu.Lock()
	idx := len(s.seen)
	s.seen = append(s.seen, seen)
	if seen.ID != "" {
		s.byID[seen.ID] = idx
	}
	s.mu.Unlock()

	var respond Responder
	if p, _ := s.handler.Load().(*Responder); p != nil && *p != nil {
		respond = *p
	}
	// read the body unless the responder wants to do so itself (upgrade / streaming request bodies)
	if r.Header.Get("X-Verif-NoRead") == "" {
		h := sha256.New()
		n, _ := io.Copy(h, r.Body)
		s.mu.Lock()
		s.seen[idx].BodyLen = n
		s.seen[idx].BodySHA = hex.EncodeToString(h.Sum(nil))
		s.seen[idx].Trailer = r.Trailer.Clone()
		seen = s.seen[idx]
		s.mu.Unlock()
	}
	if respond != nil {
		respond(w, r, &seen)
		return
	}
	w.Header().Set("Content-Type", "text/plain")
	w.Header().Set("X-Verif-Stub", s.Name)
	w.WriteHeader(200)
	io.WriteString(w, "ok "+s.Name)
}

// SeenAll returns a copy of all proxied requests received so far.
func (s *Stub) SeenAll() []Seen {
	s.mu.Lock()
	defer s.mu.Unlock()
	out := make([]Seen, len(s.seen))
	copy(out, s.seen)
	return out
}

// SeenCount returns the number of proxied requests received.
func (s *Stub) SeenCount() int {
	s.mu.Lock()
	defer s.mu.Unlock()
	return len(s.seen)
}

// Get returns the record of request id, if received.
func (s *Stub) Get(id string) (Seen, bool) {
	s.mu.Lock()
	defer s.mu.Unlock()
	i, ok := s.byID[id]
	if !ok {
		return Seen{}, false
	}
	return s.seen[i], true
}

// CountID returns how many times a request id was received.
func (s *Stub) CountID(id string) int {
	s.mu.Lock()
	defer s.mu.Unlock()
	n := 0
	for i := range s.seen {
		if s.seen[i].ID == id {
			n++
		}
	}
	return n
}

// Probes returns the timestamps of all /healthz probes received.
func (s *Stub) Probes() []int64 {
	s.mu.Lock()
	defer s.mu.Unlock()
	out := make([]int64, len(s.probes))
	copy(out, s.probes)
	return out
}

// ProbesFrom returns the timestamps of the /healthz probes that carried the given gateway credential
// ("Bearer <token of the cluster object>"). Stub listeners use ephemeral ports, and a port released by a closed stub of one
// history can be handed to a new stub of another history while a health checker of the first history is still probing the
// old address; attributing probes by the per-cluster credential keeps such stray probes out of a history's verdicts.
func (s *Stub) ProbesFrom(token string) []int64 {
	s.mu.Lock()
	defer s.mu.Unlock()
	want := "Bearer " + token
	var out []int64
	for i, a := range s.pauth {
		if a == want {
			out = append(out, s.probes[i])
		}
	}
	return out
}

// StrayProbeCount returns the number of probes that did NOT carry the given credential.
func (s *Stub) StrayProbeCount(token string) int {
	s.mu.Lock()
	defer s.mu.Unlock()
	want := "Bearer " + token
	n := 0
	for _, a := range s.pauth {
		if a != want {
			n++
		}
	}
	return n
}

func (s *Stub) ProbeCount() int {
	s.mu.Lock()
	defer s.mu.Unlock()
	return len(s.probes)
}

// Reset forgets the recorded requests (not the probes).
func (s *Stub) Reset() {
	s.mu.Lock()
	s.seen = nil
	s.byID = map[string]int{}
	s.mu.Unlock()
}

// HostPort returns host:port of the stub.
func (s *Stub) HostPort() string {
	return strings.TrimPrefix(strings.TrimPrefix(s.URL, "https://"), "http://")
}

// ListenRetry opens a loopback listener on an ephemeral port. The checks open tens of thousands of short-lived loopback
// connections; when the ephemeral range is crowded with TIME_WAIT sockets a bind can fail transiently, so it is retried
// for up to 60 s before panicking (httptest would panic at once).
func ListenRetry() net.Listener {
	var l net.Listener
	var err error
	for attempt := 0; attempt < 600; attempt++ {
		if l, err = net.Listen("tcp", "127.0.0.1:0"); err == nil {
			return l
		}
		time.Sleep(100 * time.Millisecond)
	}
	panic("bed: cannot open a loopback listener: " + err.Error())
}

// FreeAddr returns a 127.0.0.1:port that nothing listens on (for unreachable endpoints).
func FreeAddr() string {
	l, err := net.Listen("tcp", "127.0.0.1:0")
	if err != nil {
		return "127.0.0.1:1"
	}
	a := l.Addr().String()
	l.Close()
	return a
}

var _ = tls.VersionTLS12

// NewUnstartedServer is httptest.NewUnstartedServer with a listener that is retried while the loopback port range is crowded
// (httptest panics at once).
func NewUnstartedServer(h http.Handler) *httptest.Server {
	return &httptest.Server{Listener: ListenRetry(), Config: &http.Server{Handler: h}}
}

// NewServer is httptest.NewServer over ListenRetry.
func NewServer(h http.Handler) *httptest.Server {
	s := NewUnstartedServer(h)
	s.Start()
	return s
}
