package bed

import (
	"strings"
	"sync/atomic"

	"k8s.io/apimachinery/pkg/labels"
)

// Premise of every check that drives a LimiterServer of its own: the server's stores hold only what was put there through
// THIS server (every "<upstream>.state" condition in them is of an upstream cluster this server's lister knows) - each server has its own
// stores, and a shard that is regained starts from a new one. That a limiter server keeps no state across a loss of
// leadership and shares none with another server is property C13's statement, not the one of the checks that build on it.
// When the premise is found broken, it is remembered for the whole process (stores shared between servers mix the state of
// all concurrently running histories) and those checks give no verdict.
var premiseBroken int32

// PremiseBroken tells whether a store was found to hold foreign content earlier in this process.
func PremiseBroken() bool { return atomic.LoadInt32(&premiseBroken) != 0 }

// MarkPremiseBroken records a broken premise found by other means (e.g. a regained shard that was not empty).
func MarkPremiseBroken() { atomic.StoreInt32(&premiseBroken, 1) }

// StoreHasForeignUpstreams checks the premise for one server (and remembers a failure).
func StoreHasForeignUpstreams(s *LimiterServer) bool {
	if PremiseBroken() {
		return true
	}
	known := map[string]bool{}
	for _, k := range s.Upstream.Indexer.ListKeys() {
		known[k] = true
	}
	for _, sh := range s.Handle.Shards() {
		st := s.Handle.Store(sh)
		if st == nil {
			continue
		}
		for _, c := range st.List(labels.Everything()) {
			// judged on the "<upstream>.state" conditions only: they are written by the server's cluster handler, one per upstream
			// of the store, never from a request - an instance's condition with odd content may be the very defect a check is after
			if strings.HasSuffix(c.Name, ".state") && c.Name == c.Spec.UpstreamCluster+".state" && !known[c.Spec.UpstreamCluster] {
				MarkPremiseBroken()
				return true
			}
		}
	}
	return false
}
