package bed

// Extra front doors for the real handler chain (C02, C04): the listener bed.Gateway starts is plain HTTP/1.1 on 127.0.0.1;
// these add TLS + HTTP/2 and an IPv6 loopback listener in front of the same handler, and an HTTP/2 client that sends a
// RawRequest (h2 has no header casing, no chunking and no Connection header; everything else travels as written).

import (
	"bytes"
	"context"
	"crypto/tls"
	"fmt"
	"io"
	"net"
	"net/http"
	"net/http/httptest"
	"strings"
	"time"
)

// Front is an additional listener in front of a handler.
type Front struct {
	Server *httptest.Server
	Client *http.Client // for the TLS+h2 front: speaks HTTP/2, never adds Accept-Encoding, never follows redirects
	Addr   string
}

// NewH2Front serves handler over TLS with HTTP/2 enabled.
func NewH2Front(handler http.Handler) *Front {
	srv := NewUnstartedServer(handler)
	srv.Config.ErrorLog = nil
	srv.EnableHTTP2 = true
	srv.StartTLS()
	tr := &http.Transport{
		TLSClientConfig:     &tls.Config{InsecureSkipVerify: true, NextProtos: []string{"h2"}},
		ForceAttemptHTTP2:   true,
		DisableCompression:  true,
		MaxIdleConnsPerHost: 4,
	}
	return &Front{Server: srv, Addr: srv.Listener.Addr().String(),
		Client: &http.Client{Transport: tr, CheckRedirect: func(*http.Request, []*http.Request) error { return http.ErrUseLastResponse }}}
}

// NewIPv6Front serves handler over plain HTTP/1.1 on [::1] (nil when the sandbox has no IPv6 loopback).
func NewIPv6Front(handler http.Handler) *Front {
	ln, err := net.Listen("tcp6", "[::1]:0")
	if err != nil {
		return nil
	}
	srv := &httptest.Server{Listener: ln, Config: &http.Server{Handler: handler}}
	srv.Config.ErrorLog = nil
	srv.Start()
	return &Front{Server: srv, Addr: ln.Addr().String()}
}

func (f *Front) Close() {
	if f == nil {
		return
	}
	if f.Client != nil {
		f.Client.CloseIdleConnections()
	}
	f.Server.CloseClientConnections()
	f.Server.Close()
}

// H2Do sends q over HTTP/2 through the front. Header names are lower-cased by the protocol, Connection / Keep-Alive /
// Transfer-Encoding / Upgrade / Proxy-Connection lines are left out (illegal in HTTP/2), optional blanks around values are
// trimmed (not a notion of HTTP/2), the body is sent with its length. The answer comes back in RawResponse form.
func (f *Front) H2Do(q *RawRequest, watchdog time.Duration) (out RawResponse) {
	ctx, cancel := context.WithTimeout(context.Background(), watchdog)
	defer cancel()
	var body io.Reader
	if len(q.Body) > 0 || q.SendCL {
		body = bytes.NewReader(q.Body)
	}
	req, err := http.NewRequestWithContext(ctx, q.Method, "https://"+f.Addr+q.Target, body)
	if err != nil {
		out.Err = fmt.Errorf("building h2 request: %v", err)
		return
	}
	req.Host = q.Host
	req.Header = http.Header{}
	hasUA := false
	for _, h := range q.Headers {
		switch strings.ToLower(h.Name) {
		case "connection", "keep-alive", "transfer-encoding", "upgrade", "proxy-connection", "content-length", "host":
			continue
		case "user-agent":
			hasUA = true
		case "te":
			if strings.Trim(h.Value, " \t") != "trailers" {
				continue // HTTP/2 allows no other TE value
			}
		case "trailer", "expect":
			continue
		}
		k := http.CanonicalHeaderKey(h.Name)
		req.Header[k] = append(req.Header[k], strings.Trim(h.Value, " \t"))
	}
	if !hasUA {
		req.Header["User-Agent"] = []string{""} // suppress the client's default
	}
	resp, err := f.Client.Do(req)
	if err != nil {
		out.Err = fmt.Errorf("h2 round trip: %v", err)
		return
	}
	defer resp.Body.Close()
	out.Status = resp.StatusCode
	out.Proto = resp.Proto
	out.Header = resp.Header.Clone()
	for k, vs := range resp.Header {
		for _, v := range vs {
			out.RawHeaders = append(out.RawHeaders, RawHeader{Name: k, Value: v})
		}
	}
	out.Body, err = io.ReadAll(resp.Body)
	if err != nil {
		out.BodyErr = fmt.Errorf("reading h2 response body: %v", err)
	}
	out.Trailer = resp.Trailer
	return
}
