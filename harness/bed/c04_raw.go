package bed

// Raw-socket HTTP/1.1 endpoints (C02, C04). net/http clients and servers normalise what they send and receive
// (default User-Agent, Content-Type sniffing, header canonicalisation, 304/204 header suppression, Date), so a harness
// built on them would blame the gateway for its own rewriting. The client here writes a hand-built request byte for
// byte; the stub records the request head exactly as it arrived and answers with hand-built bytes.

import (
	"bufio"
	"bytes"
	"crypto/sha256"
	"encoding/hex"
	"fmt"
	"io"
	"net"
	"net/http"
	"strconv"
	"strings"
	"sync"
	"sync/atomic"
	"time"
)

// RawHeader is one header line, name and value exactly as written / received (value without surrounding blanks).
type RawHeader struct {
	Name  string `json:"n"`
	Value string `json:"v"`
}

// RawRequest is a hand-built HTTP/1.1 request.
type RawRequest struct {
	Method  string      `json:"method"`
	Target  string      `json:"target"` // request-target, written verbatim
	Host    string      `json:"host"`   // Host header (written first)
	Headers []RawHeader `json:"headers"`
	Body    []byte      `json:"-"`
	// Chunked sends the body with Transfer-Encoding: chunked in pieces of ChunkSize bytes (0 = one chunk) followed by
	// Trailers; otherwise a Content-Length header is written when SendCL is true or the body is not empty.
	Chunked   bool        `json:"chunked,omitempty"`
	ChunkSize int         `json:"chunkSize,omitempty"`
	Trailers  []RawHeader `json:"trailers,omitempty"`
	SendCL    bool        `json:"sendCL,omitempty"`
	// Upgrade: after a 101 answer, UpgradePayload is written and the same number of bytes is read back (echo protocol).
	UpgradePayload []byte `json:"-"`
	// Proto is the protocol version on the request line ("" = HTTP/1.1; "HTTP/1.0" is the other legal one).
	Proto string `json:"proto,omitempty"`
	// ExpectContinue: the head (which must carry Expect: 100-continue) is written first; the body follows only after an
	// interim 100 answer (not at all when a final answer comes instead).
	ExpectContinue bool `json:"expectContinue,omitempty"`
}

// Bytes renders the request head and body.
func (q *RawRequest) Bytes() []byte {
	var b bytes.Buffer
	proto := q.Proto
	if proto == "" {
		proto = "HTTP/1.1"
	}
	fmt.Fprintf(&b, "%s %s %s\r\n", q.Method, q.Target, proto)
	if q.Host != "" {
		fmt.Fprintf(&b, "Host: %s\r\n", q.Host)
	}
	for _, h := range q.Headers {
		b.WriteString(h.Name)
		b.WriteString(": ")
		b.WriteString(h.Value)
		b.WriteString("\r\n")
	}
	switch {
	case q.Chunked:
		b.WriteString("Transfer-Encoding: chunked\r\n")
		if len(q.Trailers) > 0 {
			var names []string
			for _, t := range q.Trailers {
				names = append(names, t.Name)
			}
			fmt.Fprintf(&b, "Trailer: %s\r\n", strings.Join(names, ", "))
		}
		b.WriteString("\r\n")
		writeChunked(&b, q.Body, q.ChunkSize, q.Trailers)
	case q.SendCL || len(q.Body) > 0:
		fmt.Fprintf(&b, "Content-Length: %d\r\n\r\n", len(q.Body))
		b.Write(q.Body)
	default:
		b.WriteString("\r\n")
	}
	return b.Bytes()
}

func writeChunked(b *bytes.Buffer, body []byte, size int, trailers []RawHeader) {
	if size <= 0 {
		size = len(body)
	}
	for off := 0; off < len(body); off += size {
		end := off + size
		if end > len(body) {
			end = len(body)
		}
		fmt.Fprintf(b, "%x\r\n", end-off)
		b.Write(body[off:end])
		b.WriteString("\r\n")
	}
	b.WriteString("0\r\n")
	for _, t := range trailers {
		fmt.Fprintf(b, "%s: %s\r\n", t.Name, t.Value)
	}
	b.WriteString("\r\n")
}

// RawResponse is what the raw client read.
type RawResponse struct {
	Err        error // no parsable response head (or watchdog)
	Interim    []int // interim 1xx answers that preceded the final one
	Close      bool  // the server announced it closes the connection after this response
	BodyErr    error // the head was read but the body ended early / was malformed (Body holds what arrived)
	Status     int
	Proto      string
	RawHeaders []RawHeader // as received, in order
	Header     http.Header // canonical view of RawHeaders
	Chunked    bool
	Body       []byte // after de-framing (chunked / content-length / until close)
	Trailer    http.Header
	Echo       []byte // upgrade echo read back
}

// parseHead splits a raw head (request or response) into its first line and header lines.
func parseHead(head []byte) (first string, hs []RawHeader) {
	lines := strings.Split(string(head), "\r\n")
	if len(lines) == 0 {
		return "", nil
	}
	first = lines[0]
	for _, l := range lines[1:] {
		if l == "" {
			continue
		}
		i := strings.IndexByte(l, ':')
		if i < 0 {
			hs = append(hs, RawHeader{Name: l})
			continue
		}
		hs = append(hs, RawHeader{Name: l[:i], Value: strings.Trim(l[i+1:], " \t")})
	}
	return first, hs
}

// CanonicalHeader folds raw header lines into an http.Header.
func CanonicalHeader(hs []RawHeader) http.Header {
	h := http.Header{}
	for _, x := range hs {
		k := http.CanonicalHeaderKey(x.Name)
		h[k] = append(h[k], x.Value)
	}
	return h
}

// recReader remembers everything that was read through it.
type recReader struct {
	r   io.Reader
	buf []byte
	on  bool
}

func (r *recReader) Read(p []byte) (int, error) {
	n, err := r.r.Read(p)
	if r.on && n > 0 {
		r.buf = append(r.buf, p[:n]...)
	}
	return n, err
}

// RawDo opens a connection to addr, writes the request, reads one response and closes. watchdog bounds the whole
// exchange (its expiry shows up as Err, which callers must treat as inconclusive).
func RawDo(addr string, q *RawRequest, watchdog time.Duration) (out RawResponse) {
	conn, err := net.DialTimeout("tcp", addr, watchdog)
	if err != nil {
		out.Err = err
		return
	}
	defer conn.Close()
	_ = conn.SetDeadline(time.Now().Add(watchdog))
	rec := &recReader{r: conn, on: true}
	br := bufio.NewReaderSize(rec, 64<<10)
	all := q.Bytes()
	if q.ExpectContinue {
		he := bytes.Index(all, []byte("\r\n\r\n")) + 4
		if _, err := conn.Write(all[:he]); err != nil {
			out.Err = err
			return
		}
		out = readRawResponse(conn, br, rec, q, all[he:])
		return
	}
	wrote := make(chan error, 1)
	go func() {
		_, err := conn.Write(all)
		wrote <- err
	}()
	out = readRawResponse(conn, br, rec, q, nil)
	select {
	case <-wrote:
	default:
		// the server answered without reading all of the request (legal for terminated requests); closing the
		// connection ends the writer
	}
	return
}

// readRawResponse reads one final response (interim 1xx answers other than 101 are skipped and counted; on 100 the
// pending body of an Expect: 100-continue request is written).
func readRawResponse(conn net.Conn, br *bufio.Reader, rec *recReader, q *RawRequest, pendingBody []byte) (out RawResponse) {
	var resp *http.Response
	for {
		rec.on = true
		rec.buf = rec.buf[:0]
		if n := br.Buffered(); n > 0 {
			b, _ := br.Peek(n)
			rec.buf = append(rec.buf, b...)
		}
		var err error
		resp, err = http.ReadResponse(br, &http.Request{Method: q.Method})
		if err != nil {
			out.Err = fmt.Errorf("reading response: %v", err)
			return
		}
		if resp.StatusCode >= 100 && resp.StatusCode < 200 && resp.StatusCode != http.StatusSwitchingProtocols {
			out.Interim = append(out.Interim, resp.StatusCode)
			if resp.StatusCode == 100 && pendingBody != nil {
				if _, err := conn.Write(pendingBody); err != nil {
					out.Err = err
					return
				}
				pendingBody = nil
			}
			continue
		}
		break
	}
	if i := bytes.Index(rec.buf, []byte("\r\n\r\n")); i >= 0 {
		_, out.RawHeaders = parseHead(rec.buf[:i])
	}
	rec.on = false
	rec.buf = rec.buf[:0]
	out.Status = resp.StatusCode
	out.Proto = resp.Proto
	out.Close = resp.Close
	out.Header = CanonicalHeader(out.RawHeaders)
	for _, te := range resp.TransferEncoding {
		if te == "chunked" {
			out.Chunked = true
		}
	}
	if resp.StatusCode == http.StatusSwitchingProtocols {
		if len(q.UpgradePayload) > 0 {
			if _, err := conn.Write(q.UpgradePayload); err != nil {
				out.Err = err
				return
			}
			out.Echo = make([]byte, len(q.UpgradePayload))
			if _, err := io.ReadFull(br, out.Echo); err != nil {
				out.Err = fmt.Errorf("reading upgrade echo: %v", err)
			}
		}
		return
	}
	var err error
	out.Body, err = io.ReadAll(resp.Body)
	if err != nil {
		out.BodyErr = fmt.Errorf("reading response body: %v", err)
	}
	out.Trailer = resp.Trailer
	return
}

// RawDoSeq sends several requests over ONE connection and reads one response for each, in order: either the next request
// is written after the previous response was read (keep-alive reuse) or all of them are written at once (pipelining).
// Responses after a failure (or after the server closed the connection) carry Err.
func RawDoSeq(addr string, qs []*RawRequest, pipelined bool, watchdog time.Duration) []RawResponse {
	out := make([]RawResponse, len(qs))
	conn, err := net.DialTimeout("tcp", addr, watchdog)
	if err != nil {
		for i := range out {
			out[i].Err = err
		}
		return out
	}
	defer conn.Close()
	_ = conn.SetDeadline(time.Now().Add(watchdog))
	rec := &recReader{r: conn, on: true}
	br := bufio.NewReaderSize(rec, 64<<10)
	if pipelined {
		var all []byte
		for _, q := range qs {
			all = append(all, q.Bytes()...)
		}
		go conn.Write(all)
	}
	for i, q := range qs {
		if !pipelined {
			b := q.Bytes()
			go conn.Write(b)
		}
		out[i] = readRawResponse(conn, br, rec, q, nil)
		if out[i].Err != nil || out[i].BodyErr != nil || out[i].Close {
			for j := i + 1; j < len(out); j++ {
				out[j].Err = fmt.Errorf("connection ended after response %d (close=%v err=%v)", i, out[i].Close, out[i].Err)
			}
			break
		}
	}
	return out
}

// ---- raw stub upstream ----

// RawSeen is one request as it arrived at a raw stub.
type RawSeen struct {
	ID         string
	At         int64
	Method     string
	Target     string // request-target as on the wire
	Proto      string
	Host       string
	RawHeaders []RawHeader
	Header     http.Header
	Chunked    bool
	BodyLen    int64
	BodySHA    string
	BodyErr    string
	Trailer    http.Header
	Complete   bool // body fully read
	Conn       int64
}

// RawReply is a scripted answer written byte for byte.
type RawReply struct {
	Status  int         `json:"status"`
	Reason  string      `json:"reason,omitempty"`
	Headers []RawHeader `json:"headers"`
	Body    []byte      `json:"-"`
	// Framing: "cl" (Content-Length), "chunked" (pieces of ChunkSize, then Trailers), "none" (no framing header and no
	// body bytes: 204/304/HEAD), "close" (no framing header, body delimited by closing the connection).
	Framing   string      `json:"framing"`
	ChunkSize int         `json:"chunkSize,omitempty"`
	Trailers  []RawHeader `json:"trailers,omitempty"`
	// NoBodyBytes: write the framing headers but no body (answer to HEAD).
	NoBodyBytes bool `json:"noBodyBytes,omitempty"`
	// Echo: after a 101 reply, echo everything received until the peer closes.
	Echo bool `json:"echo,omitempty"`
	// AbortTimes: the first AbortTimes arrivals of the request are answered by closing the connection without a byte
	// (a reused keep-alive connection dying; net/http transports retry idempotent requests once on that).
	AbortTimes int `json:"abortTimes,omitempty"`
	// Gate, when set, is waited for (after the request was recorded and read) before the reply is written.
	Gate chan struct{} `json:"-"`
}

// Bytes renders the reply.
func (p *RawReply) Bytes() []byte {
	var b bytes.Buffer
	reason := p.Reason
	if reason == "" {
		reason = http.StatusText(p.Status)
		if reason == "" {
			reason = "Status"
		}
	}
	fmt.Fprintf(&b, "HTTP/1.1 %d %s\r\n", p.Status, reason)
	for _, h := range p.Headers {
		fmt.Fprintf(&b, "%s: %s\r\n", h.Name, h.Value)
	}
	switch p.Framing {
	case "chunked":
		b.WriteString("Transfer-Encoding: chunked\r\n")
		if len(p.Trailers) > 0 {
			var names []string
			for _, t := range p.Trailers {
				names = append(names, t.Name)
			}
			fmt.Fprintf(&b, "Trailer: %s\r\n", strings.Join(names, ", "))
		}
		b.WriteString("\r\n")
		if !p.NoBodyBytes {
			writeChunked(&b, p.Body, p.ChunkSize, p.Trailers)
		}
	case "none":
		b.WriteString("\r\n")
	case "close":
		b.WriteString("Connection: close\r\n\r\n")
		if !p.NoBodyBytes {
			b.Write(p.Body)
		}
	default: // "cl"
		fmt.Fprintf(&b, "Content-Length: %d\r\n\r\n", len(p.Body))
		if !p.NoBodyBytes {
			b.Write(p.Body)
		}
	}
	return b.Bytes()
}

// RawStub is a raw-socket stub upstream.
type RawStub struct {
	Name string
	URL  string
	ln   net.Listener

	mu       sync.Mutex
	seen     []RawSeen
	byID     map[string][]int
	scripts  map[string]*RawReply
	aborted  map[string]int
	done     chan struct{}
	partial  [][]byte // bytes of request heads that never completed
	conns    map[net.Conn]struct{}
	probes   int64
	health   int32
	connSeq  int64
	inHead   int64 // connections that have received some but not all bytes of a head
	closed   int32
	wg       sync.WaitGroup
	fallback atomic.Value // *RawReply
}

// NewRawStub starts a raw stub on 127.0.0.1.
func NewRawStub(name string) *RawStub {
	ln := ListenRetry()
	s := &RawStub{Name: name, ln: ln, URL: "http://" + ln.Addr().String(), byID: map[string][]int{}, scripts: map[string]*RawReply{}, aborted: map[string]int{}, done: make(chan struct{}), conns: map[net.Conn]struct{}{}}
	s.wg.Add(1)
	go s.accept()
	return s
}

func (s *RawStub) accept() {
	defer s.wg.Done()
	for {
		c, err := s.ln.Accept()
		if err != nil {
			return
		}
		s.mu.Lock()
		if atomic.LoadInt32(&s.closed) == 1 {
			s.mu.Unlock()
			c.Close()
			return
		}
		s.conns[c] = struct{}{}
		s.mu.Unlock()
		s.wg.Add(1)
		go s.serveConn(c, atomic.AddInt64(&s.connSeq, 1))
	}
}

func (s *RawStub) Close() {
	if !atomic.CompareAndSwapInt32(&s.closed, 0, 1) {
		return
	}
	s.ln.Close()
	close(s.done)
	s.mu.Lock()
	for c := range s.conns {
		c.Close()
	}
	s.mu.Unlock()
	s.wg.Wait()
}

// SetHealth scripts /healthz (HealthOK or Health500).
func (s *RawStub) SetHealth(m HealthMode) { atomic.StoreInt32(&s.health, int32(m)) }

// Script sets the reply for the request carrying id.
func (s *RawStub) Script(id string, p *RawReply) {
	s.mu.Lock()
	s.scripts[id] = p
	s.mu.Unlock()
}

// SetDefault sets the reply for requests without a script (nil = 200 text/plain "ok <name>").
func (s *RawStub) SetDefault(p *RawReply) { s.fallback.Store(p) }

func (s *RawStub) serveConn(c net.Conn, connID int64) {
	defer s.wg.Done()
	defer func() {
		c.Close()
		s.mu.Lock()
		delete(s.conns, c)
		s.mu.Unlock()
	}()
	rec := &recReader{r: c, on: true}
	br := bufio.NewReaderSize(rec, 64<<10)
	for {
		// everything buffered but not yet consumed belongs to the next head
		pending := br.Buffered()
		if pending > 0 {
			b, _ := br.Peek(pending)
			rec.buf = append(rec.buf[:0], b...)
		} else {
			rec.buf = rec.buf[:0]
		}
		rec.on = true
		req, err := http.ReadRequest(br)
		if err != nil {
			if len(rec.buf) > 0 {
				s.mu.Lock()
				s.partial = append(s.partial, append([]byte(nil), rec.buf...))
				s.mu.Unlock()
			}
			return
		}
		rec.on = false
		head := rec.buf
		if i := bytes.Index(head, []byte("\r\n\r\n")); i >= 0 {
			head = head[:i]
		}
		first, hs := parseHead(head)
		parts := strings.SplitN(first, " ", 3)
		seen := RawSeen{At: Now(), Method: req.Method, Proto: req.Proto, Host: req.Host, RawHeaders: hs, Header: CanonicalHeader(hs), Conn: connID}
		if len(parts) >= 2 {
			seen.Target = parts[1]
		}
		seen.ID = seen.Header.Get(IDHeader)
		for _, te := range req.TransferEncoding {
			if te == "chunked" {
				seen.Chunked = true
			}
		}
		if req.URL.Path == "/healthz" && seen.ID == "" {
			atomic.AddInt64(&s.probes, 1)
			io.Copy(io.Discard, req.Body)
			if HealthMode(atomic.LoadInt32(&s.health)) == HealthOK {
				io.WriteString(c, "HTTP/1.1 200 OK\r\nContent-Type: text/plain\r\nContent-Length: 2\r\n\r\nok")
			} else {
				io.WriteString(c, "HTTP/1.1 500 Internal Server Error\r\nContent-Type: text/plain\r\nContent-Length: 9\r\n\r\nunhealthy")
			}
			continue
		}
		// record at head time: a partially forwarded request must be visible
		s.mu.Lock()
		idx := len(s.seen)
		s.seen = append(s.seen, seen)
		s.byID[seen.ID] = append(s.byID[seen.ID], idx)
		reply := s.scripts[seen.ID]
		s.mu.Unlock()
		if reply == nil {
			reply, _ = s.fallback.Load().(*RawReply)
		}
		if reply == nil {
			reply = &RawReply{Status: 200, Headers: []RawHeader{{"Content-Type", "text/plain"}, {"X-Verif-Stub", s.Name}}, Body: []byte("ok " + s.Name), Framing: "cl"}
		}
		isUpgrade := strings.EqualFold(seen.Header.Get("Connection"), "upgrade") && seen.Header.Get("Upgrade") != ""
		{
			// the body is read per its framing on the upgrade handshake as well (a proxy may send an empty chunked body)
			h := sha256.New()
			n, berr := io.Copy(h, req.Body)
			s.mu.Lock()
			s.seen[idx].BodyLen = n
			s.seen[idx].BodySHA = hex.EncodeToString(h.Sum(nil))
			s.seen[idx].Trailer = req.Trailer.Clone()
			if berr != nil {
				s.seen[idx].BodyErr = berr.Error()
			} else {
				s.seen[idx].Complete = true
			}
			s.mu.Unlock()
			if berr != nil {
				return
			}
		}
		if reply.AbortTimes > 0 {
			s.mu.Lock()
			n := s.aborted[seen.ID]
			s.aborted[seen.ID] = n + 1
			s.mu.Unlock()
			if n < reply.AbortTimes {
				return
			}
		}
		if reply.Gate != nil {
			select {
			case <-reply.Gate:
			case <-s.done:
				return
			}
		}
		out := reply.Bytes()
		if req.Method == "HEAD" && !reply.NoBodyBytes {
			cp := *reply
			cp.NoBodyBytes = true
			out = cp.Bytes()
		}
		if _, err := c.Write(out); err != nil {
			return
		}
		if reply.Status == http.StatusSwitchingProtocols {
			if reply.Echo {
				io.Copy(c, br)
			}
			return
		}
		if reply.Framing == "close" || isUpgrade {
			return
		}
	}
}

// Get returns the records of request id.
func (s *RawStub) Get(id string) []RawSeen {
	s.mu.Lock()
	defer s.mu.Unlock()
	var out []RawSeen
	for _, i := range s.byID[id] {
		out = append(out, s.seen[i])
	}
	return out
}

// Activity returns the number of proxied request heads received and the number of incomplete heads (closed
// connections that had delivered some bytes of a head, excluding health probes).
func (s *RawStub) Activity() (requests int, partial int) {
	s.mu.Lock()
	defer s.mu.Unlock()
	return len(s.seen), len(s.partial)
}

// SeenAll returns a copy of everything recorded.
func (s *RawStub) SeenAll() []RawSeen {
	s.mu.Lock()
	defer s.mu.Unlock()
	return append([]RawSeen(nil), s.seen...)
}

// Partials returns the incomplete heads.
func (s *RawStub) Partials() [][]byte {
	s.mu.Lock()
	defer s.mu.Unlock()
	return append([][]byte(nil), s.partial...)
}

func (s *RawStub) ProbeCount() int { return int(atomic.LoadInt64(&s.probes)) }

// Forget drops the records and scripts of an id (keeps memory flat in long runs).
func (s *RawStub) Forget(id string) {
	s.mu.Lock()
	delete(s.scripts, id)
	delete(s.aborted, id)
	for _, i := range s.byID[id] {
		s.seen[i] = RawSeen{ID: id}
	}
	delete(s.byID, id)
	s.mu.Unlock()
}

// HostPort returns host:port of the stub.
func (s *RawStub) HostPort() string { return strings.TrimPrefix(s.URL, "http://") }

var _ = strconv.Itoa
