package bed

import (
	"context"
	"fmt"
	"io"
	"net"
	"net/http"
	"net/http/httptest"
	"sync"
	"sync/atomic"
	"time"

	metav1 "k8s.io/apimachinery/pkg/apis/meta/v1"
	"k8s.io/apiserver/pkg/authentication/authenticator"
	"k8s.io/apiserver/pkg/authentication/request/bearertoken"
	"k8s.io/apiserver/pkg/authentication/user"
	"k8s.io/apiserver/pkg/authorization/authorizer"
	"k8s.io/client-go/tools/cache"

	"github.com/kubewharf/kubegateway/cmd/kube-gateway/app"
	proxyv1alpha1 "github.com/kubewharf/kubegateway/pkg/apis/proxy/v1alpha1"
	gatewayinformers "github.com/kubewharf/kubegateway/pkg/client/informers"
	gatewayfake "github.com/kubewharf/kubegateway/pkg/client/kubernetes/fake"
	"github.com/kubewharf/kubegateway/pkg/clusters"
	"github.com/kubewharf/kubegateway/pkg/gateway/controllers"
	"github.com/kubewharf/kubegateway/pkg/ratelimiter/clientsets"
	"github.com/kubewharf/kubegateway/pkg/syncqueue"
)

// TokenTable is a bearer-token authenticator backed by a mutable table.
type TokenTable struct {
	mu sync.RWMutex
	m  map[string]user.Info
	n  int64
}

func NewTokenTable() *TokenTable { return &TokenTable{m: map[string]user.Info{}} }

// Add registers a user and returns its token.
func (t *TokenTable) Add(u user.Info) string {
	tok := fmt.Sprintf("tok-%d-%s", atomic.AddInt64(&t.n, 1), "x")
	t.mu.Lock()
	t.m[tok] = u
	t.mu.Unlock()
	return tok
}

func (t *TokenTable) Set(tok string, u user.Info) {
	t.mu.Lock()
	t.m[tok] = u
	t.mu.Unlock()
}

func (t *TokenTable) AuthenticateToken(ctx context.Context, token string) (*authenticator.Response, bool, error) {
	t.mu.RLock()
	u, ok := t.m[token]
	t.mu.RUnlock()
	if !ok {
		return nil, false, nil
	}
	return &authenticator.Response{User: u}, true, nil
}

// AuthzFunc adapts a function to authorizer.Authorizer.
type AuthzFunc func(ctx context.Context, a authorizer.Attributes) (authorizer.Decision, string, error)

func (f AuthzFunc) Authorize(ctx context.Context, a authorizer.Attributes) (authorizer.Decision, string, error) {
	return f(ctx, a)
}

// AllowAll is an authorizer that allows everything.
var AllowAll = AuthzFunc(func(context.Context, authorizer.Attributes) (authorizer.Decision, string, error) {
	return authorizer.DecisionAllow, "", nil
})

// GatewayOptions configures NewGateway.
type GatewayOptions struct {
	RateLimiter string               // "" / "local" / "remote"
	ClientSets  clientsets.ClientSets // limiter client sets (nil = none)
	Authn       authenticator.Request // nil = bearer tokens from Tokens
	Authz       authorizer.Authorizer // nil = allow all
	AccessLog   bool
}

// Gateway is a real kube-gateway data plane: the real UpstreamClusterController (driven through VerifSync over an
// informer that is never started; the harness edits the indexer = what the lister sees) and the real proxy handler chain.
type Gateway struct {
	Ctrl    *controllers.UpstreamClusterController
	Indexer cache.Indexer
	Handler http.Handler
	Tokens  *TokenTable

	srvOnce sync.Once
	Server  *httptest.Server
	Client  *http.Client
	rv      int64
}

func NewGateway(o GatewayOptions) *Gateway {
	cs := gatewayfake.NewSimpleClientset()
	factory := gatewayinformers.NewSharedInformerFactory(cs, 0)
	inf := factory.Proxy().V1alpha1().UpstreamClusters()
	g := &Gateway{Indexer: inf.Informer().GetIndexer(), Tokens: NewTokenTable()}
	g.Ctrl = controllers.VerifNewUpstreamClusterController(inf, o.RateLimiter, o.ClientSets)
	authn := o.Authn
	if authn == nil {
		authn = bearertoken.New(g.Tokens)
	}
	var authz authorizer.Authorizer = AllowAll
	if o.Authz != nil {
		authz = o.Authz
	}
	g.Handler = app.VerifBuildProxyHandler(g.Ctrl, authn, authz, o.AccessLog)
	return g
}

// Start starts an HTTP/1.1 listener in front of the handler chain (idempotent).
func (g *Gateway) Start() *Gateway {
	g.srvOnce.Do(func() {
		g.Server = &httptest.Server{Listener: ListenRetry(), Config: &http.Server{Handler: g.Handler}}
		g.Server.Start()
		tr := &http.Transport{
			MaxIdleConnsPerHost: 64,
			DisableCompression:  true,
			DialContext: func(ctx context.Context, network, addr string) (net.Conn, error) {
				return (&net.Dialer{}).DialContext(ctx, network, g.Server.Listener.Addr().String())
			},
		}
		g.Client = &http.Client{Transport: tr, CheckRedirect: func(*http.Request, []*http.Request) error { return http.ErrUseLastResponse }}
	})
	return g
}

// Addr is the listener address (after Start).
func (g *Gateway) Addr() string { return g.Server.Listener.Addr().String() }

func (g *Gateway) Close() {
	if g.Server != nil {
		g.Server.CloseClientConnections()
		g.Server.Close()
	}
	g.Ctrl.DeleteAll()
	// stops the sync queue's goroutines and cancels the controller context (thousands of gateways are built per run)
	g.Ctrl.VerifShutdown()
}

// SyncResult is what one delivery to the controller returned.
type SyncResult struct {
	Result  syncqueue.Result
	Err     error
	Panic   interface{}
	Requeue bool
}

// Deliver calls the controller's sync handler with obj (the event's object), recovering panics.
func (g *Gateway) Deliver(obj *proxyv1alpha1.UpstreamCluster) (sr SyncResult) {
	defer func() {
		if p := recover(); p != nil {
			sr.Panic = p
		}
	}()
	res, err := g.Ctrl.VerifSync(obj)
	sr.Result, sr.Err = res, err
	sr.Requeue = res.Requeue || res.RequeueAfter > 0
	return sr
}

// Apply makes obj the lister's current version (create or update) and delivers the event.
func (g *Gateway) Apply(obj *proxyv1alpha1.UpstreamCluster) SyncResult {
	o := obj.DeepCopy()
	o.ResourceVersion = fmt.Sprint(atomic.AddInt64(&g.rv, 1))
	if _, exists, _ := g.Indexer.GetByKey(o.Name); exists {
		_ = g.Indexer.Update(o)
	} else {
		_ = g.Indexer.Add(o)
	}
	return g.Deliver(o)
}

// SetLister changes what the lister returns without delivering an event.
func (g *Gateway) SetLister(obj *proxyv1alpha1.UpstreamCluster) *proxyv1alpha1.UpstreamCluster {
	o := obj.DeepCopy()
	o.ResourceVersion = fmt.Sprint(atomic.AddInt64(&g.rv, 1))
	if _, exists, _ := g.Indexer.GetByKey(o.Name); exists {
		_ = g.Indexer.Update(o)
	} else {
		_ = g.Indexer.Add(o)
	}
	return o
}

// Delete removes the object from the lister and delivers the delete event.
func (g *Gateway) Delete(name string) SyncResult {
	item, exists, _ := g.Indexer.GetByKey(name)
	if !exists {
		return g.Deliver(&proxyv1alpha1.UpstreamCluster{ObjectMeta: metav1.ObjectMeta{Name: name}})
	}
	_ = g.Indexer.Delete(item)
	return g.Deliver(item.(*proxyv1alpha1.UpstreamCluster))
}

// RemoveFromLister removes the object from the lister without delivering an event; returns the removed object.
func (g *Gateway) RemoveFromLister(name string) *proxyv1alpha1.UpstreamCluster {
	item, exists, _ := g.Indexer.GetByKey(name)
	if !exists {
		return nil
	}
	_ = g.Indexer.Delete(item)
	return item.(*proxyv1alpha1.UpstreamCluster)
}

// Cluster returns the live ClusterInfo a host resolves to.
func (g *Gateway) Cluster(host string) (*clusters.ClusterInfo, bool) { return g.Ctrl.Get(host) }

// WaitReady waits until the endpoint of the cluster reports ready == want (health checks are asynchronous).
func (g *Gateway) WaitReady(host, endpoint string, want bool, d time.Duration) bool {
	deadline := time.Now().Add(d)
	for {
		if ci, ok := g.Ctrl.Get(host); ok {
			if ep, ok := ci.Endpoints.Load(endpoint); ok && ep.IsReady() == want {
				return true
			}
		}
		if time.Now().After(deadline) {
			return false
		}
		time.Sleep(300 * time.Microsecond)
	}
}

// WaitAllReady waits until every enabled endpoint in the object is ready.
func (g *Gateway) WaitAllReady(obj *proxyv1alpha1.UpstreamCluster, d time.Duration) bool {
	for _, s := range obj.Spec.Servers {
		if s.Disabled != nil && *s.Disabled {
			continue
		}
		if !g.WaitReady(obj.Name, s.Endpoint, true, d) {
			return false
		}
	}
	return true
}

// Response is a fully read client-side response.
type Response struct {
	Status  int
	Header  http.Header
	Body    []byte
	Err     error
	Trailer http.Header
}

// Do sends a request through the listener (Start is called if needed); host selects the tenant.
func (g *Gateway) Do(req *http.Request) Response {
	g.Start()
	if req.URL.Host == "" {
		req.URL.Host = g.Addr()
		req.URL.Scheme = "http"
	}
	resp, err := g.Client.Do(req)
	if err != nil {
		return Response{Err: err}
	}
	defer resp.Body.Close()
	b, err := io.ReadAll(resp.Body)
	return Response{Status: resp.StatusCode, Header: resp.Header, Body: b, Err: err, Trailer: resp.Trailer}
}

// Serve runs the request through the handler chain in-process with a recorder (no sockets on the client side).
func (g *Gateway) Serve(req *http.Request) *httptest.ResponseRecorder {
	rec := httptest.NewRecorder()
	g.Handler.ServeHTTP(rec, req)
	return rec
}

// NewRequest builds a client request for host with a bearer token and a request id.
func NewRequest(method, host, pathAndQuery, token, id string, body io.Reader) *http.Request {
	req, err := http.NewRequest(method, "http://"+host+pathAndQuery, body)
	if err != nil {
		panic(err)
	}
	req.Host = host
	req.URL.Host = ""
	if token != "" {
		req.Header.Set("Authorization", "Bearer "+token)
	}
	if id != "" {
		req.Header.Set(IDHeader, id)
	}
	return req
}

// ---- UpstreamCluster builders ----

// ClusterSpec describes a cluster object to build.
type ClusterSpec struct {
	Name     string
	Servers  []string // endpoints (URLs)
	Disabled map[string]bool
	Token    string // gateway's own credential for this cluster
	Policies []proxyv1alpha1.DispatchPolicy
	Schemas  []proxyv1alpha1.FlowControlSchema
}

// CatchAllPolicy routes everything (optionally to a subset, with a flow-control schema).
func CatchAllPolicy(subset []string, schema string) proxyv1alpha1.DispatchPolicy {
	return proxyv1alpha1.DispatchPolicy{
		Strategy:              proxyv1alpha1.RoundRobin,
		UpstreamSubset:        subset,
		FlowControlSchemaName: schema,
		Rules: []proxyv1alpha1.DispatchPolicyRule{
			{Verbs: []string{"*"}, APIGroups: []string{"*"}, Resources: []string{"*"}, NonResourceURLs: []string{"*"}},
		},
	}
}

// BuildCluster builds an UpstreamCluster object.
func BuildCluster(s ClusterSpec) *proxyv1alpha1.UpstreamCluster {
	c := &proxyv1alpha1.UpstreamCluster{ObjectMeta: metav1.ObjectMeta{Name: s.Name}}
	for _, e := range s.Servers {
		srv := proxyv1alpha1.UpstreamClusterServer{Endpoint: e}
		if s.Disabled[e] {
			t := true
			srv.Disabled = &t
		}
		c.Spec.Servers = append(c.Spec.Servers, srv)
	}
	tok := s.Token
	if tok == "" {
		tok = "gw-token-" + s.Name
	}
	c.Spec.ClientConfig.BearerToken = []byte(tok)
	c.Spec.ClientConfig.Insecure = true
	c.Spec.DispatchPolicies = s.Policies
	if len(c.Spec.DispatchPolicies) == 0 {
		c.Spec.DispatchPolicies = []proxyv1alpha1.DispatchPolicy{CatchAllPolicy(nil, "")}
	}
	c.Spec.FlowControl.Schemas = s.Schemas
	return c
}
