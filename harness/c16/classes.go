package c16

import (
	"crypto/tls"
	"fmt"
	"net/url"
	"strings"
	"time"

	"k8s.io/apiserver/pkg/authentication/user"
	"k8s.io/apiserver/pkg/authorization/authorizer"
	certutil "k8s.io/client-go/util/cert"

	proxyv1alpha1 "github.com/kubewharf/kubegateway/pkg/apis/proxy/v1alpha1"
	"github.com/kubewharf/kubegateway/pkg/clusters/features"

	"verifharness/bed"
)

// A breaking class is one entry of the statement's list of "objects that would break them". It is judged (every generated
// member must be rejected) only after demo() has shown, against the real consumers and on a hand-made instance that is
// well-formed in every other respect, that a member really breaks a consumer: error / requeue / panic when applied, or a
// limiter that does not enforce what the object says.
type class struct {
	name     string
	match    func(o *proxyv1alpha1.UpstreamCluster) bool
	handmade func(m *material) *proxyv1alpha1.UpstreamCluster
	demo     func(o *proxyv1alpha1.UpstreamCluster) (broken bool, how string) // nil = applyDemo
	// named: the statement itself names the class among the objects that "are rejected" (quoted words). Such a class is
	// judged even when no consumer can be shown to break at apply time (the demonstration is still run and recorded).
	named string
}

func base(m *material, scheme string) *proxyv1alpha1.UpstreamCluster {
	o := bed.BuildCluster(bed.ClusterSpec{Name: "c16.demo", Servers: []string{scheme + "://127.0.0.1:1", scheme + "://127.0.0.1:2"}})
	return o
}

func withSchema(o *proxyv1alpha1.UpstreamCluster, s proxyv1alpha1.FlowControlSchema) *proxyv1alpha1.UpstreamCluster {
	s.Name = "s0"
	o.Spec.FlowControl.Schemas = []proxyv1alpha1.FlowControlSchema{s}
	o.Spec.DispatchPolicies[0].FlowControlSchemaName = "s0"
	return o
}

func isHTTPx(e string) bool {
	return strings.HasPrefix(e, "http://") || strings.HasPrefix(e, "https://")
}

func httpsFirst(o *proxyv1alpha1.UpstreamCluster) bool {
	return len(o.Spec.Servers) > 0 && strings.HasPrefix(o.Spec.Servers[0].Endpoint, "https://")
}

// effective local limiter member, as flowcontrol.GuessFlowControlSchemaType orders them
func effective(s *proxyv1alpha1.FlowControlSchema) string {
	switch {
	case s.Exempt != nil:
		return "exempt"
	case s.MaxRequestsInflight != nil, s.GlobalMaxRequestsInflight != nil:
		return "max"
	case s.TokenBucket != nil, s.GlobalTokenBucket != nil:
		return "tb"
	}
	return "none"
}

func anySchema(o *proxyv1alpha1.UpstreamCluster, f func(s *proxyv1alpha1.FlowControlSchema) bool) bool {
	for i := range o.Spec.FlowControl.Schemas {
		if f(&o.Spec.FlowControl.Schemas[i]) {
			return true
		}
	}
	return false
}

// applyDemo: the instance breaks a consumer when applied (gateway create path or limiter create path + honest reports).
func applyDemo(o *proxyv1alpha1.UpstreamCluster) (bool, string) {
	g, _ := applyGateway(o, nil)
	if !g.clean() {
		return true, fmt.Sprintf("%s: %s %s", g.Consumer, g.Kind, g.Detail)
	}
	ls, _, _ := applyLimiter(o, nil)
	for _, x := range ls {
		if !x.clean() && x.judgeable() {
			return true, fmt.Sprintf("%s: %s %s", x.Consumer, x.Kind, x.Detail)
		}
	}
	return false, "applies cleanly to the gateway and the limiter"
}

var anyRequest = &authorizer.AttributesRecord{User: &user.DefaultInfo{Name: "u"}, Verb: "get", APIGroup: "", Resource: "pods", ResourceRequest: true, Path: "/api/v1/pods"}

// limiterDemo applies the object and hands the live limiter the catch-all policy resolves to to probe().
func limiterDemo(o *proxyv1alpha1.UpstreamCluster, probe func(acquire func() bool, release func(), typ proxyv1alpha1.FlowControlSchemaType) (bool, string)) (bool, string) {
	gw := lightGateway()
	defer closeGateway(gw, o)
	if out := syncOutcome("gateway-create", gw.Apply(o)); !out.clean() {
		return true, fmt.Sprintf("%s: %s %s", out.Consumer, out.Kind, out.Detail)
	}
	ci, ok := gw.Cluster(o.Name)
	if !ok {
		return false, "cluster not registered"
	}
	picker, err := ci.MatchAttributes(anyRequest)
	if err != nil {
		return false, "no policy matched the probe request: " + err.Error()
	}
	fc := picker.FlowControl()
	return probe(fc.TryAcquire, fc.Release, fc.Type())
}

var classes = []class{
	{
		name: "endpoint-unparseable",
		match: func(o *proxyv1alpha1.UpstreamCluster) bool {
			for _, s := range o.Spec.Servers {
				if isHTTPx(s.Endpoint) {
					if _, err := url.Parse(s.Endpoint); err != nil {
						return true
					}
				}
			}
			return false
		},
		handmade: func(m *material) *proxyv1alpha1.UpstreamCluster {
			o := base(m, "https")
			o.Spec.Servers[0].Endpoint = "https://%zz"
			return o
		},
	},
	{
		name: "endpoint-empty-host",
		match: func(o *proxyv1alpha1.UpstreamCluster) bool {
			for _, s := range o.Spec.Servers {
				if isHTTPx(s.Endpoint) {
					if u, err := url.Parse(s.Endpoint); err == nil && u.Host == "" {
						return true
					}
				}
			}
			return false
		},
		handmade: func(m *material) *proxyv1alpha1.UpstreamCluster {
			o := base(m, "https")
			o.Spec.Servers[1].Endpoint = "https://"
			return o
		},
	},
	{
		name: "mixed-schemes",
		match: func(o *proxyv1alpha1.UpstreamCluster) bool {
			h, hs := false, false
			for _, s := range o.Spec.Servers {
				h = h || strings.HasPrefix(s.Endpoint, "http://")
				hs = hs || strings.HasPrefix(s.Endpoint, "https://")
			}
			return h && hs
		},
		handmade: func(m *material) *proxyv1alpha1.UpstreamCluster { return nil }, // built inside the demo (needs live stubs)
		demo:     mixedSchemesDemo,
	},
	{
		name: "insecure-with-ca",
		match: func(o *proxyv1alpha1.UpstreamCluster) bool {
			return httpsFirst(o) && o.Spec.ClientConfig.Insecure && len(o.Spec.ClientConfig.CAData) > 0
		},
		handmade: func(m *material) *proxyv1alpha1.UpstreamCluster {
			o := base(m, "https")
			o.Spec.ClientConfig.Insecure = true
			o.Spec.ClientConfig.CAData = m.ca
			return o
		},
	},
	{
		name: "client-keypair-unusable",
		match: func(o *proxyv1alpha1.UpstreamCluster) bool {
			cc := &o.Spec.ClientConfig
			if !httpsFirst(o) || len(cc.CertData) == 0 || len(cc.KeyData) == 0 {
				return false
			}
			_, err := tls.X509KeyPair(cc.CertData, cc.KeyData)
			return err != nil
		},
		handmade: func(m *material) *proxyv1alpha1.UpstreamCluster {
			o := base(m, "https")
			o.Spec.ClientConfig.CertData, o.Spec.ClientConfig.KeyData = m.certA, m.keyB
			return o
		},
	},
	{
		name:  "client-ca-unusable",
		named: "unusable key/certificate/CA data",
		match: func(o *proxyv1alpha1.UpstreamCluster) bool {
			cc := &o.Spec.ClientConfig
			if !httpsFirst(o) || len(cc.CAData) == 0 {
				return false
			}
			_, err := certutil.ParseCertsPEM(cc.CAData)
			return err != nil
		},
		handmade: func(m *material) *proxyv1alpha1.UpstreamCluster {
			o := base(m, "https")
			o.Spec.ClientConfig.Insecure = false
			o.Spec.ClientConfig.CAData = m.garbage
			return o
		},
	},
	{
		name: "serving-keypair-unusable",
		match: func(o *proxyv1alpha1.UpstreamCluster) bool {
			ss := &o.Spec.SecureServing
			if len(ss.CertData) == 0 || len(ss.KeyData) == 0 {
				return false
			}
			_, err := tls.X509KeyPair(ss.CertData, ss.KeyData)
			return err != nil
		},
		handmade: func(m *material) *proxyv1alpha1.UpstreamCluster {
			o := base(m, "https")
			o.Spec.SecureServing.CertData, o.Spec.SecureServing.KeyData = m.certA, m.keyB
			return o
		},
	},
	{
		name: "serving-clientca-unusable",
		match: func(o *proxyv1alpha1.UpstreamCluster) bool {
			if len(o.Spec.SecureServing.ClientCAData) == 0 {
				return false
			}
			_, err := certutil.ParseCertsPEM(o.Spec.SecureServing.ClientCAData)
			return err != nil
		},
		handmade: func(m *material) *proxyv1alpha1.UpstreamCluster {
			o := base(m, "https")
			o.Spec.SecureServing.ClientCAData = m.truncCert
			return o
		},
	},
	{
		name: "feature-gate-invalid",
		match: func(o *proxyv1alpha1.UpstreamCluster) bool {
			v := o.Annotations[features.FeatureGateAnnotationKey]
			return v != "" && features.DefaultMutableFeatureGate.DeepCopy().Set(v) != nil
		},
		handmade: func(m *material) *proxyv1alpha1.UpstreamCluster {
			o := base(m, "https")
			o.Annotations = map[string]string{features.FeatureGateAnnotationKey: "NoSuchGate=true"}
			return o
		},
		demo: func(o *proxyv1alpha1.UpstreamCluster) (bool, string) {
			// create path, and the update path: the same object without the annotation is applied first, then the annotation
			// is added (ClusterInfo.Sync starts with the feature gates and returns their error before anything else is applied)
			c, _ := applyGateway(o, nil)
			stored := o.DeepCopy()
			stored.Annotations = nil
			u, ok := applyGateway(o, stored)
			if !c.clean() && ok && !u.clean() {
				return true, fmt.Sprintf("create: %s %s; annotation added by an update: %s %s", c.Kind, c.Detail, u.Kind, u.Detail)
			}
			return false, fmt.Sprintf("create: %s; update: %s (applied: %v)", c.Kind, u.Kind, ok)
		},
	},
	{
		name: "policy-subset-unknown",
		match: func(o *proxyv1alpha1.UpstreamCluster) bool {
			have := map[string]bool{}
			for _, s := range o.Spec.Servers {
				have[s.Endpoint] = true
			}
			for _, p := range o.Spec.DispatchPolicies {
				for _, e := range p.UpstreamSubset {
					if !have[e] {
						return true
					}
				}
			}
			return false
		},
		handmade: func(m *material) *proxyv1alpha1.UpstreamCluster { return nil },
		demo:     subsetUnknownDemo,
	},
	{
		name: "policy-schema-unknown",
		match: func(o *proxyv1alpha1.UpstreamCluster) bool {
			have := map[string]bool{}
			for _, s := range o.Spec.FlowControl.Schemas {
				have[s.Name] = true
			}
			for _, p := range o.Spec.DispatchPolicies {
				if p.FlowControlSchemaName != "" && !have[p.FlowControlSchemaName] {
					return true
				}
			}
			return false
		},
		handmade: func(m *material) *proxyv1alpha1.UpstreamCluster {
			o := withSchema(base(m, "https"), proxyv1alpha1.FlowControlSchema{FlowControlSchemaConfiguration: proxyv1alpha1.FlowControlSchemaConfiguration{
				MaxRequestsInflight: &proxyv1alpha1.MaxRequestsInflightFlowControlSchema{Max: 0}}})
			o.Spec.DispatchPolicies[0].FlowControlSchemaName = "nope"
			return o
		},
		demo: func(o *proxyv1alpha1.UpstreamCluster) (bool, string) {
			return limiterDemo(o, func(acquire func() bool, release func(), typ proxyv1alpha1.FlowControlSchemaType) (bool, string) {
				if typ == proxyv1alpha1.Exempt && acquire() {
					return true, "the policy names schema 'nope'; requests under it run through the exempt default limiter (no limit enforced)"
				}
				return false, "limiter type " + string(typ)
			})
		},
	},
	{
		name: "schema-global-without-local",
		match: func(o *proxyv1alpha1.UpstreamCluster) bool {
			return anySchema(o, func(s *proxyv1alpha1.FlowControlSchema) bool {
				return (s.GlobalMaxRequestsInflight != nil && s.MaxRequestsInflight == nil) || (s.GlobalTokenBucket != nil && s.TokenBucket == nil)
			})
		},
		handmade: func(m *material) *proxyv1alpha1.UpstreamCluster {
			return withSchema(base(m, "https"), proxyv1alpha1.FlowControlSchema{Strategy: proxyv1alpha1.GlobalAllocateLimit, FlowControlSchemaConfiguration: proxyv1alpha1.FlowControlSchemaConfiguration{
				GlobalMaxRequestsInflight: &proxyv1alpha1.MaxRequestsInflightFlowControlSchema{Max: 10}}})
		},
	},
	{
		name:  "schema-no-limiter-type",
		named: "incomplete ... flow-control configurations",
		match: func(o *proxyv1alpha1.UpstreamCluster) bool {
			return anySchema(o, func(s *proxyv1alpha1.FlowControlSchema) bool { return effective(s) == "none" })
		},
		handmade: func(m *material) *proxyv1alpha1.UpstreamCluster {
			return withSchema(base(m, "https"), proxyv1alpha1.FlowControlSchema{})
		},
		demo: func(o *proxyv1alpha1.UpstreamCluster) (bool, string) {
			return limiterDemo(o, func(acquire func() bool, release func(), typ proxyv1alpha1.FlowControlSchemaType) (bool, string) {
				return false, "an empty schema behaves as exempt: no consumer breaks (class not judged)"
			})
		},
	},
	{
		name: "schema-multiple-limiter-types",
		match: func(o *proxyv1alpha1.UpstreamCluster) bool {
			return anySchema(o, func(s *proxyv1alpha1.FlowControlSchema) bool {
				n := 0
				if s.Exempt != nil {
					n++
				}
				if s.MaxRequestsInflight != nil {
					n++
				}
				if s.TokenBucket != nil {
					n++
				}
				return n > 1
			})
		},
		handmade: func(m *material) *proxyv1alpha1.UpstreamCluster {
			return withSchema(base(m, "https"), proxyv1alpha1.FlowControlSchema{FlowControlSchemaConfiguration: proxyv1alpha1.FlowControlSchemaConfiguration{
				MaxRequestsInflight: &proxyv1alpha1.MaxRequestsInflightFlowControlSchema{Max: 1000},
				TokenBucket:         &proxyv1alpha1.TokenBucketFlowControlSchema{QPS: 1, Burst: 1}}})
		},
		demo: func(o *proxyv1alpha1.UpstreamCluster) (bool, string) {
			return limiterDemo(o, func(acquire func() bool, release func(), typ proxyv1alpha1.FlowControlSchemaType) (bool, string) {
				// 20 sequential acquire/release pairs, back to back: a token bucket of qps 1 / burst 1 would need ~19 s
				// for that; if all are admitted the token-bucket member of the schema is silently not enforced.
				// (one-sided: a slow machine can only make MORE of them pass a real bucket if >1 s elapses per pair,
				// which the elapsed-time guard below excludes)
				t0 := time.Now()
				n := 0
				for i := 0; i < 20; i++ {
					if acquire() {
						n++
						release()
					}
				}
				if el := time.Since(t0); el > 500*time.Millisecond {
					return false, fmt.Sprintf("watchdog: probe took %v, demonstration not attempted", el)
				}
				if n == 20 {
					return true, "schema {maxRequestsInflight 1000, tokenBucket 1/1}: 20 back-to-back requests admitted, the token bucket member is ignored"
				}
				return false, fmt.Sprintf("%d of 20 admitted", n)
			})
		},
	},
	{
		name: "schema-tokenbucket-negative",
		match: func(o *proxyv1alpha1.UpstreamCluster) bool {
			return anySchema(o, func(s *proxyv1alpha1.FlowControlSchema) bool {
				return s.TokenBucket != nil && effective(s) == "tb" && (s.TokenBucket.QPS < 0 || s.TokenBucket.Burst < 0)
			})
		},
		handmade: func(m *material) *proxyv1alpha1.UpstreamCluster {
			return withSchema(base(m, "https"), proxyv1alpha1.FlowControlSchema{FlowControlSchemaConfiguration: proxyv1alpha1.FlowControlSchemaConfiguration{
				TokenBucket: &proxyv1alpha1.TokenBucketFlowControlSchema{QPS: -5, Burst: -5}}})
		},
		demo: func(o *proxyv1alpha1.UpstreamCluster) (bool, string) {
			return limiterDemo(o, func(acquire func() bool, release func(), typ proxyv1alpha1.FlowControlSchemaType) (bool, string) {
				if typ == proxyv1alpha1.TokenBucket && !acquire() {
					return true, "tokenBucket{qps:-5,burst:-5}: the very first request on the fresh limiter is refused (a bucket that never admits)"
				}
				return false, "first request admitted"
			})
		},
	},
	{
		name: "schema-maxinflight-negative",
		match: func(o *proxyv1alpha1.UpstreamCluster) bool {
			return anySchema(o, func(s *proxyv1alpha1.FlowControlSchema) bool {
				return s.MaxRequestsInflight != nil && effective(s) == "max" && s.MaxRequestsInflight.Max < 0
			})
		},
		handmade: func(m *material) *proxyv1alpha1.UpstreamCluster {
			return withSchema(base(m, "https"), proxyv1alpha1.FlowControlSchema{FlowControlSchemaConfiguration: proxyv1alpha1.FlowControlSchemaConfiguration{
				MaxRequestsInflight: &proxyv1alpha1.MaxRequestsInflightFlowControlSchema{Max: -1}}})
		},
		demo: func(o *proxyv1alpha1.UpstreamCluster) (bool, string) {
			return limiterDemo(o, func(acquire func() bool, release func(), typ proxyv1alpha1.FlowControlSchemaType) (bool, string) {
				n := 0
				for i := 0; i < 50; i++ {
					if acquire() {
						n++
					}
				}
				for i := 0; i < n; i++ {
					release()
				}
				if n == 50 {
					return true, "maxRequestsInflight{max:-1}: 50 concurrent slots granted (max 0 grants none; -1 wraps to 4294967295)"
				}
				return false, fmt.Sprintf("%d of 50 admitted", n)
			})
		},
	},
	{
		name:  "schema-global-less-than-local",
		named: "contradictory ... flow-control configurations",
		match: func(o *proxyv1alpha1.UpstreamCluster) bool {
			return anySchema(o, func(s *proxyv1alpha1.FlowControlSchema) bool {
				if s.MaxRequestsInflight != nil && s.GlobalMaxRequestsInflight != nil && effective(s) == "max" && s.GlobalMaxRequestsInflight.Max < s.MaxRequestsInflight.Max {
					return true
				}
				return s.TokenBucket != nil && s.GlobalTokenBucket != nil && effective(s) == "tb" &&
					(s.GlobalTokenBucket.QPS < s.TokenBucket.QPS || s.GlobalTokenBucket.Burst < s.TokenBucket.Burst)
			})
		},
		handmade: func(m *material) *proxyv1alpha1.UpstreamCluster {
			return withSchema(base(m, "https"), proxyv1alpha1.FlowControlSchema{Strategy: proxyv1alpha1.GlobalAllocateLimit, FlowControlSchemaConfiguration: proxyv1alpha1.FlowControlSchemaConfiguration{
				MaxRequestsInflight:       &proxyv1alpha1.MaxRequestsInflightFlowControlSchema{Max: 10},
				GlobalMaxRequestsInflight: &proxyv1alpha1.MaxRequestsInflightFlowControlSchema{Max: 1}}})
		},
	},
}

// subsetUnknownDemo: with every endpoint healthy, a request routed by a policy whose subset names no server of the cluster
// can never be served (control: the same object with the subset naming the server is served with 200).
func subsetUnknownDemo(_ *proxyv1alpha1.UpstreamCluster) (bool, string) {
	stub := bed.NewStub("c16-subset")
	defer stub.Close()
	run := func(subset string) (int, string) {
		gw := bed.NewGateway(bed.GatewayOptions{}).Start()
		o := bed.BuildCluster(bed.ClusterSpec{Name: "c16.subset", Servers: []string{stub.URL},
			Policies: []proxyv1alpha1.DispatchPolicy{bed.CatchAllPolicy([]string{subset}, "")}})
		defer closeGateway(gw, o)
		if out := syncOutcome("gateway-create", gw.Apply(o)); !out.clean() {
			return -1, out.Kind + " " + out.Detail
		}
		if !gw.WaitReady(o.Name, stub.URL, true, 10*time.Second) {
			return -2, "stub endpoint did not become ready within the watchdog"
		}
		tok := gw.Tokens.Add(&user.DefaultInfo{Name: "u"})
		resp := gw.Do(bed.NewRequest("GET", o.Name, "/api/v1/pods", tok, "c16-subset", nil))
		if resp.Err != nil {
			return -3, resp.Err.Error()
		}
		return resp.Status, ""
	}
	ctl, why := run(stub.URL)
	if ctl != 200 {
		return false, fmt.Sprintf("watchdog: control not served (status %d %s): demonstration not possible", ctl, why)
	}
	st, why := run(stub.URL + "/")
	if st == -1 {
		return true, "apply failed: " + why
	}
	if st >= 500 {
		return true, fmt.Sprintf("policy subset [%q] names no server of the cluster: request answered %d although the only endpoint is healthy (control with the exact name: 200)", stub.URL+"/", st)
	}
	return false, fmt.Sprintf("status %d %s", st, why)
}

// mixedSchemesDemo: servers [http stub, https stub] with the https stub's CA in clientConfig: the rest config is built from
// the FIRST server's scheme, so the https endpoint gets no CA and can never become healthy (control: the https stub alone
// with the same clientConfig becomes ready).
func mixedSchemesDemo(_ *proxyv1alpha1.UpstreamCluster) (bool, string) {
	plain := bed.NewStub("c16-plain")
	defer plain.Close()
	secure := bed.NewTLSStub("c16-tls", false)
	defer secure.Close()
	build := func(servers []string) *proxyv1alpha1.UpstreamCluster {
		o := bed.BuildCluster(bed.ClusterSpec{Name: "c16.mixed", Servers: servers})
		o.Spec.ClientConfig.Insecure = false
		o.Spec.ClientConfig.CAData = secure.CertPEM()
		o.Spec.ClientConfig.ServerName = "example.com"
		return o
	}
	// control
	gw := bed.NewGateway(bed.GatewayOptions{})
	ctl := build([]string{secure.URL})
	if out := syncOutcome("gateway-create", gw.Apply(ctl)); !out.clean() {
		closeGateway(gw, ctl)
		return false, "control did not apply: " + out.Kind + " " + out.Detail
	}
	ready := gw.WaitReady(ctl.Name, secure.URL, true, 10*time.Second)
	closeGateway(gw, ctl)
	if !ready {
		return false, "watchdog: control (https stub alone) did not become ready: demonstration not possible"
	}
	gw2 := bed.NewGateway(bed.GatewayOptions{})
	mixed := build([]string{plain.URL, secure.URL})
	defer closeGateway(gw2, mixed)
	if out := syncOutcome("gateway-create", gw2.Apply(mixed)); !out.clean() {
		return true, "apply failed: " + out.Kind + " " + out.Detail
	}
	if !gw2.WaitReady(mixed.Name, plain.URL, true, 10*time.Second) {
		return false, "watchdog: plain stub did not become ready"
	}
	// wait for a definite health verdict on the https endpoint (a recorded failure reason), not for an absence
	ci, _ := gw2.Cluster(mixed.Name)
	ep, ok := ci.Endpoints.Load(secure.URL)
	if !ok {
		return true, "https endpoint missing from the cluster"
	}
	deadline := time.Now().Add(10 * time.Second)
	for time.Now().Before(deadline) {
		if ep.IsReady() {
			return false, "https endpoint became ready in a mixed-scheme cluster"
		}
		if reason := ep.UnreadyReason(); strings.Contains(reason, "x509") || strings.Contains(reason, "certificate") {
			return true, "servers [http, https] with the https server's CA in clientConfig: TLS settings are taken from the first server's scheme, the https endpoint is never healthy: " + normalise(reason)
		}
		time.Sleep(2 * time.Millisecond)
	}
	return false, "no health verdict on the https endpoint within the watchdog: " + ep.UnreadyReason()
}
