package c16

import (
	"context"
	"encoding/json"
	"fmt"
	"regexp"
	"runtime/debug"
	"strings"
	"sync"

	metav1 "k8s.io/apimachinery/pkg/apis/meta/v1"
	"k8s.io/apimachinery/pkg/runtime"
	k8stesting "k8s.io/client-go/testing"

	proxyv1alpha1 "github.com/kubewharf/kubegateway/pkg/apis/proxy/v1alpha1"
	gatewayinformers "github.com/kubewharf/kubegateway/pkg/client/informers"
	gatewayclientset "github.com/kubewharf/kubegateway/pkg/client/kubernetes"
	gatewayfake "github.com/kubewharf/kubegateway/pkg/client/kubernetes/fake"
	"github.com/kubewharf/kubegateway/pkg/clusters"
	"github.com/kubewharf/kubegateway/pkg/flowcontrols/remote"
	"github.com/kubewharf/kubegateway/pkg/gateway/controllers"

	"verifharness/bed"
)

// outcome is what one consumer did with one object.
type outcome struct {
	Consumer string `json:"consumer"` // gateway-create | gateway-update | limiter-create | limiter-update | limiter-report | limiter-acquire | gateway-reconcile
	Kind     string `json:"kind"`     // ok | error | requeue | panic
	Detail   string `json:"detail,omitempty"`
}

func (o outcome) clean() bool { return o.Kind == "ok" }

// judgeable: harness problems and unmet premises are not verdicts about the object.
func (o outcome) judgeable() bool { return o.Kind != "harness" && o.Kind != "premise" }

func allClean(os []outcome) bool {
	for _, o := range os {
		if !o.clean() {
			return false
		}
	}
	return true
}

// recovered is a recovered panic with the innermost frame of the code under test.
type recovered struct {
	Value string
	Frame string // function name (no line number: signatures must survive unrelated edits)
}

var frameRE = regexp.MustCompile(`(?m)^(github\.com/kubewharf/kubegateway/[^\s(]+(?:\([^)]*\))?[^\s(]*)\(`)

// safely runs fn and returns the recovered panic (nil if none).
func safely(fn func()) (rec *recovered) {
	defer func() {
		if x := recover(); x != nil {
			rec = &recovered{Value: fmt.Sprint(x)}
			st := string(debug.Stack())
			for _, m := range frameRE.FindAllStringSubmatch(st, -1) {
				f := m[1]
				if strings.Contains(f, "verif") || strings.Contains(f, "Verif") {
					continue
				}
				if i := strings.LastIndex(f, "/"); i >= 0 {
					f = f[i+1:]
				}
				rec.Frame = f
				break
			}
		}
	}()
	fn()
	return nil
}

var (
	quotedRE = regexp.MustCompile(`"[^"]*"|'[^']*'`)
	digitsRE = regexp.MustCompile(`0x[0-9a-f]+|[0-9]+`)
	spaceRE  = regexp.MustCompile(`\s+`)
)

// normalise turns an error / panic text into a low-cardinality token for signatures.
func normalise(s string) string {
	s = quotedRE.ReplaceAllString(s, "Q")
	s = digitsRE.ReplaceAllString(s, "N")
	s = spaceRE.ReplaceAllString(s, " ")
	if len(s) > 70 {
		s = s[:70]
	}
	return strings.TrimSpace(s)
}

func panicKind(v string) string {
	switch {
	case strings.Contains(v, "nil pointer dereference"):
		return "nil-dereference"
	case strings.Contains(v, "index out of range"), strings.Contains(v, "slice bounds"):
		return "index-out-of-range"
	case strings.Contains(v, "divide by zero"):
		return "divide-by-zero"
	}
	return normalise(v)
}

func nopHealth(*clusters.EndpointInfo) bool { return false }

// withoutSchemas is the harness' tear-down object: same cluster without flow-control schemas (so that the controller
// stops the per-schema meter goroutines before the gateway is closed).
func withoutSchemas(o *proxyv1alpha1.UpstreamCluster) *proxyv1alpha1.UpstreamCluster {
	c := o.DeepCopy()
	c.Spec.FlowControl.Schemas = nil
	for i := range c.Spec.DispatchPolicies {
		c.Spec.DispatchPolicies[i].FlowControlSchemaName = ""
	}
	return c
}

func closeGateway(gw *bed.Gateway, last *proxyv1alpha1.UpstreamCluster) {
	if _, ok := gw.Cluster(last.Name); ok {
		_ = safely(func() { gw.Apply(withoutSchemas(last)) })
	}
	gw.Close() // also shuts the controller's queue down (VerifShutdown)
}

// lightGateway is bed.NewGateway without the proxy handler chain (which the soundness part never sends a request through
// and which keeps three monitor goroutines per instance for the life of the process): the same real controller over the
// same kind of never-started informer, driven through the same bed.Gateway.Apply.
func lightGateway() *bed.Gateway {
	cs := gatewayfake.NewSimpleClientset()
	inf := gatewayinformers.NewSharedInformerFactory(cs, 0).Proxy().V1alpha1().UpstreamClusters()
	return &bed.Gateway{
		Ctrl:    controllers.VerifNewUpstreamClusterController(inf, "", nil),
		Indexer: inf.Informer().GetIndexer(),
		Tokens:  bed.NewTokenTable(),
	}
}

func syncOutcome(consumer string, sr bed.SyncResult) outcome {
	switch {
	case sr.Panic != nil:
		return outcome{consumer, "panic", fmt.Sprint(sr.Panic)}
	case sr.Err != nil:
		return outcome{consumer, "error", sr.Err.Error()}
	case sr.Requeue:
		return outcome{consumer, "requeue", ""}
	}
	return outcome{consumer, "ok", ""}
}

// renamed returns prev under obj's name (the update path needs the same object identity).
func renamed(prev, obj *proxyv1alpha1.UpstreamCluster) *proxyv1alpha1.UpstreamCluster {
	p := prev.DeepCopy()
	p.Name = obj.Name
	return p
}

// applyGateway applies obj to a fresh real gateway controller: create path (prev == nil) or update path on top of prev.
// A fresh gateway per case means that a requeue can never be a name conflict with some other cluster.
// ok=false: prev itself did not apply cleanly (prev is judged by its own create case), nothing was observed.
func applyGateway(obj, prev *proxyv1alpha1.UpstreamCluster) (out outcome, ok bool) {
	gw := lightGateway()
	defer closeGateway(gw, obj)
	consumer := "gateway-create"
	if prev != nil {
		consumer = "gateway-update"
		if o := syncOutcome(consumer, gw.Apply(renamed(prev, obj))); !o.clean() {
			return o, false
		}
	}
	out = syncOutcome(consumer, gw.Apply(obj))
	if out.Kind == "requeue" || out.Kind == "panic" {
		// the controller only logs why; ask the same constructor / Sync directly for the reason
		if reason := probeReason(obj, prev); reason != "" {
			if out.Detail != "" {
				out.Detail += "; "
			}
			out.Detail += "cause: " + reason
		}
	}
	return out, true
}

// otherCluster is the cluster that already exists when the objects are validated (the admission plugin's lister holds it, see
// newAdmissionBed): its name and its server name are what the plugin's conflict check compares against.
func otherCluster() *proxyv1alpha1.UpstreamCluster {
	other := bed.BuildCluster(bed.ClusterSpec{Name: "other", Servers: []string{"https://127.0.0.1:1"}})
	other.Spec.SecureServing.ServerNames = []string{"Taken.Example"}
	return other
}

// stopMeters: harness cleanup. Deleting a cluster does not stop the per-schema meters of its limiter (they are only
// stopped when a schema disappears from a live cluster); thousands of deleted clusters would leave their tickers behind.
func stopMeters(gw *bed.Gateway, name string) func() {
	ci, ok := gw.Cluster(name)
	if !ok {
		return func() {}
	}
	caches := ci.VerifLimiter().AllFlowControls()
	return func() {
		for _, c := range caches {
			c := c
			_ = safely(c.Stop)
		}
	}
}

// applyGatewayLifecycle drives the paths around the plain create: the object is created on a gateway that already holds
// the cluster validation knew about (so the plugin's conflict check and the controller's must agree), delivered again
// unchanged (resync / retry), deleted, and created again under the same name.
func applyGatewayLifecycle(obj *proxyv1alpha1.UpstreamCluster) (outs []outcome, harness string) {
	gw := lightGateway()
	defer closeGateway(gw, obj)
	if o := syncOutcome("gateway-create", gw.Apply(otherCluster())); !o.clean() {
		return nil, "the pre-existing cluster 'other' did not apply: " + o.Kind + " " + o.Detail
	}
	step := func(consumer string, sr bed.SyncResult) bool {
		o := syncOutcome(consumer, sr)
		if o.Kind == "requeue" || o.Kind == "panic" {
			if reason := probeReason(obj, nil); reason != "" {
				o.Detail += "; cause: " + reason
			} else if o.Kind == "requeue" {
				// alone the object can be created: the controller's server-name conflict check refuses it next to 'other',
				// although the admission plugin's conflict check accepted it against that same cluster
				o.Detail += fmt.Sprintf("cause: server-name conflict with the existing cluster 'other' [Taken.Example]; object %q serverNames %q", obj.Name, obj.Spec.SecureServing.ServerNames)
			}
		}
		outs = append(outs, o)
		return o.clean()
	}
	if !step("gateway-create-beside-other", gw.Apply(obj)) {
		return outs, ""
	}
	if _, ok := gw.Cluster(obj.Name); !ok {
		outs = append(outs, outcome{"gateway-create-beside-other", "error", "sync returned success but the cluster is not registered under its name"})
		return outs, ""
	}
	if !step("gateway-redeliver", gw.Apply(obj)) {
		return outs, ""
	}
	cleanup := stopMeters(gw, obj.Name)
	okDel := step("gateway-delete", gw.Delete(obj.Name))
	cleanup()
	if !okDel {
		return outs, ""
	}
	if _, still := gw.Cluster(obj.Name); still {
		outs = append(outs, outcome{"gateway-delete", "error", "the cluster is still registered after its deletion was synced"})
		return outs, ""
	}
	step("gateway-recreate", gw.Apply(obj))
	return outs, ""
}

// probeReason calls clusters.CreateClusterInfo / ClusterInfo.Sync the way the controller does and returns the error text.
func probeReason(obj, prev *proxyv1alpha1.UpstreamCluster) (reason string) {
	rec := safely(func() {
		first := obj
		if prev != nil {
			first = renamed(prev, obj)
		}
		info, err := clusters.CreateClusterInfo(first, nopHealth, "", nil)
		if err != nil {
			reason = "CreateClusterInfo: " + err.Error()
			return
		}
		defer func() {
			_ = safely(func() { _ = info.Sync(withoutSchemas(obj)) })
			info.Stop()
		}()
		if prev != nil {
			if err := info.Sync(obj); err != nil {
				reason = "ClusterInfo.Sync: " + err.Error()
			}
		}
	})
	if rec != nil && reason == "" {
		reason = "panic in " + rec.Frame + ": " + rec.Value
	}
	return reason
}

// ---- limiter side ----

type stubClientSets struct {
	id     string
	client gatewayclientset.Interface
}

func (s *stubClientSets) GetAllClients() []gatewayclientset.Interface {
	return []gatewayclientset.Interface{s.client}
}
func (s *stubClientSets) ClientFor(string) (gatewayclientset.Interface, error) {
	return s.client, nil
}
func (s *stubClientSets) ShardIDFor(string) (int, error) { return 0, nil }
func (s *stubClientSets) IsReady(string) bool            { return true }
func (s *stubClientSets) ClientID() string               { return s.id }

type reportLog struct {
	mu    sync.Mutex
	calls []outcome
	items int
}

// limiterClient is the wire between the gateway-side reconcile and the limiter server: a fake clientset whose
// UpdateStatus is answered by the real RateLimiter (through a JSON round trip, as over HTTP).
func limiterClient(ls *bed.LimiterServer, log *reportLog) gatewayclientset.Interface {
	fc := &gatewayfake.Clientset{}
	fc.AddReactor("update", "ratelimitconditions", func(a k8stesting.Action) (bool, runtime.Object, error) {
		ua, ok := a.(k8stesting.UpdateAction)
		if !ok {
			return false, nil, nil
		}
		var cond proxyv1alpha1.RateLimitCondition
		b, _ := json.Marshal(ua.GetObject())
		if err := json.Unmarshal(b, &cond); err != nil {
			return true, nil, err
		}
		var ret *proxyv1alpha1.RateLimitCondition
		var err error
		rec := safely(func() { ret, err = ls.Limiter.UpdateRateLimitConditionStatus(cond.Spec.UpstreamCluster, &cond) })
		o := outcome{Consumer: "limiter-report", Kind: "ok"}
		switch {
		case rec != nil:
			o.Kind, o.Detail = "panic", rec.Frame+": "+rec.Value
			err = fmt.Errorf("limiter panicked: %s", rec.Value)
		case err != nil:
			o.Kind, o.Detail = "error", err.Error()
		}
		log.mu.Lock()
		log.calls = append(log.calls, o)
		log.items += len(cond.Spec.LimitItemConfigurations)
		log.mu.Unlock()
		if err != nil {
			return true, nil, err
		}
		var back proxyv1alpha1.RateLimitCondition
		b, _ = json.Marshal(ret)
		if err := json.Unmarshal(b, &back); err != nil {
			return true, nil, err
		}
		return true, &back, nil
	})
	return fc
}

// instances: identities of reporting gateways (client ids come from host names and pids in production; ':' is replaced in
// condition names by the limiter's own naming helper).
var instances = []string{"gw-c16", "gw:1", "GW-Upper.Example", "gw/2%20x", "gw-ü", "gw-" + strings.Repeat("x", 250), "10.0.0.1:443", "[::1]:443"}

// applyLimiter applies obj to a fresh real limiter server (create path, or update on top of prev), then sends one honest
// report per global schema: allocate-strategy schemas through the gateway's own reconcile code
// (remote.reconcile: buildLimitConditions -> UpdateStatus -> updateFlowControls, two rounds: first report without a quota,
// second with the quota the server handed out), count-strategy schemas through one DoAcquire each.
func applyLimiter(obj, prev *proxyv1alpha1.UpstreamCluster) (outs []outcome, reports int, ok bool) {
	return applyLimiterAs(obj, prev, 0, false)
}

// applyLimiterAs: which selects the reporting instance identities; recreate = the upstream is deleted on the limiter and
// applied again (same name) before the reports; a second instance reports after the first one.
func applyLimiterAs(obj, prev *proxyv1alpha1.UpstreamCluster, which int, recreate bool) (outs []outcome, reports int, ok bool) {
	ls := bed.NewLimiterServer(bed.LimiterOptions{LeadAll: true})
	// Premise of every limiter-side verdict: a NEW server starts from fresh state for the upstream (no conditions, no flow
	// controls with the request ids / counts of an earlier incarnation). If the server under test carries state over from
	// earlier servers of this process, what happens next says nothing about the OBJECT: not judged, only counted.
	if why := limiterNotFresh(ls, obj); why != "" {
		return []outcome{{"limiter-create", "premise", why}}, 0, true
	}
	consumer := "limiter-create"
	apply := func(o *proxyv1alpha1.UpstreamCluster) outcome {
		var err error
		rec := safely(func() { err = ls.ApplyUpstream(o) })
		switch {
		case rec != nil:
			return outcome{consumer, "panic", rec.Frame + ": " + rec.Value}
		case err != nil:
			return outcome{consumer, "error", err.Error()}
		}
		return outcome{consumer, "ok", ""}
	}
	if prev != nil {
		consumer = "limiter-update"
		if o := apply(renamed(prev, obj)); !o.clean() {
			return nil, 0, false
		}
	}
	o := apply(obj)
	outs = append(outs, o)
	if !o.clean() {
		return outs, 0, true
	}
	if recreate {
		var err error
		rec := safely(func() { err = ls.DeleteUpstream(obj.Name) })
		switch {
		case rec != nil:
			outs = append(outs, outcome{"limiter-delete", "panic", rec.Frame + ": " + rec.Value})
			return outs, 0, true
		case err != nil:
			outs = append(outs, outcome{"limiter-delete", "error", err.Error()})
			return outs, 0, true
		}
		consumer = "limiter-recreate"
		o := apply(obj)
		outs = append(outs, o)
		if !o.clean() {
			return outs, 0, true
		}
	}
	nInst := 1
	if recreate {
		nInst = 2 // two gateways share the limits of the object
	}
	for i := 0; i < nInst; i++ {
		o2, n := reportAs(ls, obj, instances[(which+i)%len(instances)], reports)
		outs = append(outs, o2...)
		reports += n
	}
	return outs, reports, true
}

// limiterNotFresh: "" when the new server holds nothing for the upstream yet.
func limiterNotFresh(ls *bed.LimiterServer, obj *proxyv1alpha1.UpstreamCluster) (why string) {
	rec := safely(func() {
		st := ls.Handle.Store(0)
		if st == nil {
			return
		}
		if n := len(st.ListUpstream(obj.Name)); n > 0 {
			why = fmt.Sprintf("a new limiter server already holds %d condition(s) of upstream %q", n, obj.Name)
			return
		}
		for _, s := range obj.Spec.FlowControl.Schemas {
			if _, err := st.GetFlowControl(obj.Name, s.Name); err == nil {
				why = fmt.Sprintf("a new limiter server already holds a flow control %q of upstream %q", s.Name, obj.Name)
				return
			}
		}
	})
	if rec != nil {
		return "" // (judged by the normal path)
	}
	return why
}

// reportAs sends the honest reports of one gateway instance (see applyLimiter).
func reportAs(ls *bed.LimiterServer, obj *proxyv1alpha1.UpstreamCluster, instance string, seq int) (outs []outcome, reports int) {
	_ = ls.Limiter.Heartbeat(instance)
	ctx, cancel := context.WithCancel(context.Background())
	defer cancel()
	log := &reportLog{}
	cs := &stubClientSets{id: instance, client: limiterClient(ls, log)}
	gcp := remote.NewGlobalCounterProvider(ctx, obj.Name, cs, instance)
	fm := remote.NewFlowControlsMap()
	var caches []remote.FlowControlCache
	defer func() {
		for _, c := range caches {
			c.Stop()
		}
	}()
	nAlloc := 0
	for _, s := range obj.Spec.FlowControl.Schemas {
		if !remote.EnableGlobalFlowControl(s) {
			continue
		}
		switch s.Strategy {
		case proxyv1alpha1.GlobalAllocateLimit:
			c := remote.NewFlowControlCache(obj.Name, s.Name, instance, gcp)
			caches = append(caches, c)
			schema := s
			if rec := safely(func() { c.LocalFlowControl().Sync(schema) }); rec != nil {
				continue // the gateway's own apply reports this one (same code)
			}
			fm.Store(s.Name, c)
			nAlloc++
		case proxyv1alpha1.GlobalCountLimit:
			req := &proxyv1alpha1.RateLimitAcquire{
				ObjectMeta: metav1.ObjectMeta{Name: obj.Name},
				Spec: proxyv1alpha1.RateLimitAcquireSpec{Instance: instance, RequestID: int64(seq + reports + 1),
					Requests: []proxyv1alpha1.RateLimitAcquireRequest{{FlowControl: s.Name, Tokens: 1}}},
			}
			var res *proxyv1alpha1.RateLimitAcquire
			var err error
			rec := safely(func() { res, err = ls.Limiter.DoAcquire(obj.Name, req) })
			reports++
			ao := outcome{"limiter-acquire", "ok", ""}
			switch {
			case rec != nil:
				ao = outcome{"limiter-acquire", "panic", rec.Frame + ": " + rec.Value}
			case err != nil:
				ao = outcome{"limiter-acquire", "error", err.Error()}
			case res == nil || len(res.Status.Results) != 1:
				ao = outcome{"limiter-acquire", "error", "no result for the requested flow control"}
			case res.Status.Results[0].Error == "RequestIDTooOld":
				// says that the REQUEST is stale with respect to state the server already has for this instance — never
				// "the object cannot be applied"; with a fresh server it cannot happen (request ids start at 1)
				ao = outcome{"limiter-acquire", "premise", "RequestIDTooOld: the server has seen a newer request id of this instance for " + s.Name}
			case res.Status.Results[0].Error != "":
				ao = outcome{"limiter-acquire", "error", res.Status.Results[0].Error}
			}
			outs = append(outs, ao)
		}
	}
	if nAlloc > 0 {
		rc := remote.NewReconcile(ctx, obj.Name, cs, fm)
		for round := 0; round < 2; round++ {
			if rec := safely(func() { remote.VerifReconcileOnce(rc) }); rec != nil {
				outs = append(outs, outcome{"gateway-reconcile", "panic", rec.Frame + ": " + rec.Value})
				break
			}
		}
		log.mu.Lock()
		outs = append(outs, log.calls...)
		reports += log.items
		if len(log.calls) == 0 {
			outs = append(outs, outcome{"harness", "harness", "reconcile sent no report for an allocate-strategy schema"})
		}
		log.mu.Unlock()
	}
	return outs, reports
}
