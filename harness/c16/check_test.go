package c16

import (
	"context"
	"fmt"
	"sort"
	"strings"
	"sync"
	"testing"
	"time"

	metav1 "k8s.io/apimachinery/pkg/apis/meta/v1"
	"k8s.io/apimachinery/pkg/util/validation/field"
	"k8s.io/apiserver/pkg/admission"

	proxyv1alpha1 "github.com/kubewharf/kubegateway/pkg/apis/proxy/v1alpha1"
	"github.com/kubewharf/kubegateway/pkg/apis/proxy/v1alpha1/validation"
	gatewayinformers "github.com/kubewharf/kubegateway/pkg/client/informers"
	gatewayfake "github.com/kubewharf/kubegateway/pkg/client/kubernetes/fake"
	gatewayscheme "github.com/kubewharf/kubegateway/pkg/client/kubernetes/scheme"
	upstreamclusteradmission "github.com/kubewharf/kubegateway/plugin/admission/upstreamcluster"

	"verifharness/bed"
	"verifharness/vkit"
)

// watchdog for one validation call. Expiry is reported as INCONCLUSIVE (never as a violation): the harness cannot tell a
// hang from a stalled machine.
const validateWatchdog = 30 * time.Second

func guarded(fn func()) (rec *recovered, timedOut bool) {
	done := make(chan *recovered, 1)
	go func() { done <- safely(fn) }()
	t := time.NewTimer(validateWatchdog)
	defer t.Stop()
	select {
	case rec = <-done:
		return rec, false
	case <-t.C:
		return nil, true
	}
}

// admissionBed is the real admission plugin, initialised the way the control plane does it: lister + ready func from an
// informer factory (here over a fake gateway clientset that already holds one other cluster, started and synced).
type admissionBed struct {
	plugin admission.Interface
	oi     admission.ObjectInterfaces
	stop   chan struct{}
}

func newAdmissionBed() (*admissionBed, error) {
	other := bed.BuildCluster(bed.ClusterSpec{Name: "other", Servers: []string{"https://127.0.0.1:1"}})
	other.Spec.SecureServing.ServerNames = []string{"Taken.Example"}
	cs := gatewayfake.NewSimpleClientset(other)
	factory := gatewayinformers.NewSharedInformerFactory(cs, 0)
	p := upstreamclusteradmission.NewUpstreamClusterPlugin()
	w, ok := p.(interface {
		SetGatewayResourceInformerFactory(gatewayinformers.SharedInformerFactory)
	})
	if !ok {
		return nil, fmt.Errorf("plugin does not accept a gateway informer factory")
	}
	w.SetGatewayResourceInformerFactory(factory)
	b := &admissionBed{plugin: p, oi: admission.NewObjectInterfacesFromScheme(gatewayscheme.Scheme), stop: make(chan struct{})}
	factory.Start(b.stop)
	ctx, cancel := context.WithTimeout(context.Background(), 20*time.Second)
	defer cancel()
	for _, ok := range factory.WaitForCacheSync(ctx.Done()) {
		if !ok {
			close(b.stop)
			return nil, fmt.Errorf("informer of the admission plugin did not sync")
		}
	}
	return b, nil
}

func (b *admissionBed) close() { close(b.stop) }

func attrs(o *proxyv1alpha1.UpstreamCluster) admission.Attributes {
	return admission.NewAttributesRecord(o, nil, proxyv1alpha1.SchemeGroupVersion.WithKind("UpstreamCluster"), "", o.Name,
		proxyv1alpha1.SchemeGroupVersion.WithResource("upstreamclusters"), "", admission.Create, &metav1.CreateOptions{}, false, nil)
}

func updateAttrs(o, old *proxyv1alpha1.UpstreamCluster) admission.Attributes {
	return admission.NewAttributesRecord(o, old, proxyv1alpha1.SchemeGroupVersion.WithKind("UpstreamCluster"), "", o.Name,
		proxyv1alpha1.SchemeGroupVersion.WithResource("upstreamclusters"), "", admission.Update, &metav1.UpdateOptions{}, false, nil)
}

type verdict struct {
	Accepted bool
	Err      string
	Panic    *recovered
	TimedOut bool
	Where    string
}

// admitAndValidate runs the plugin's mutating step (defaults + rule normalisation) and then its Validate, as the API
// server does for a create. o is mutated in place (it becomes what would be stored and reach the consumers).
func (b *admissionBed) admitAndValidate(o *proxyv1alpha1.UpstreamCluster) verdict {
	return b.admit(attrs(o))
}

// admitAndValidateUpdate: the same two steps for an UPDATE of the stored object old to o.
func (b *admissionBed) admitAndValidateUpdate(o, old *proxyv1alpha1.UpstreamCluster) verdict {
	return b.admit(updateAttrs(o, old.DeepCopy()))
}

func (b *admissionBed) admit(a admission.Attributes) verdict {
	var err error
	rec, to := guarded(func() { err = b.plugin.(admission.MutationInterface).Admit(context.Background(), a, b.oi) })
	if rec != nil || to {
		return verdict{Panic: rec, TimedOut: to, Where: "Admit"}
	}
	if err != nil {
		return verdict{Err: "admit: " + err.Error(), Where: "Admit"}
	}
	rec, to = guarded(func() { err = b.plugin.(admission.ValidationInterface).Validate(context.Background(), a, b.oi) })
	if rec != nil || to {
		return verdict{Panic: rec, TimedOut: to, Where: "Validate"}
	}
	if err != nil {
		return verdict{Err: err.Error(), Where: "Validate"}
	}
	return verdict{Accepted: true}
}

// schemaShape names the members of the first schema that has the given property (for totality signatures).
func schemaMembers(s *proxyv1alpha1.FlowControlSchema) string {
	var ms []string
	add := func(ok bool, n string) {
		if ok {
			ms = append(ms, n)
		}
	}
	add(s.Exempt != nil, "exempt")
	add(s.MaxRequestsInflight != nil, "max")
	add(s.GlobalMaxRequestsInflight != nil, "globalMax")
	add(s.TokenBucket != nil, "tb")
	add(s.GlobalTokenBucket != nil, "globalTb")
	if len(ms) == 0 {
		return "none"
	}
	return strings.Join(ms, "+")
}

type caseWitness struct {
	Object    map[string]interface{} `json:"object"`
	Generator genInfo                `json:"generator"`
	Outcomes  []outcome              `json:"outcomes,omitempty"`
	Note      string                 `json:"note,omitempty"`
}

func TestCheck(t *testing.T) {
	vkit.Run(t, "C16", "exploration", func(r *vkit.R) {
		r.Rule("objects = well-formed base (35%), base + 1..3 of 12 structure-aware mutations (hostile endpoint grammar, other scheme, empty/duplicate servers, " +
			"trust and identity material from a pool of valid/mismatched/truncated/garbage PEM, edge numbers {-2^31,-1000,-1,0,1,..,2^31-1} and neighbours of related fields, " +
			"every nil/non-nil combination of the five flow-control members, dangling subset/schema references, policy shape, metadata and feature-gate annotations) (45%), " +
			"all mutations at once (12%), byte-level mutation of the JSON form (8%). " +
			"(a) validation.ValidateUpstreamCluster on the raw object and the admission plugin's Admit+Validate on a copy, each under recover and a watchdog; " +
			"(b) every accepted object is applied to a fresh real gateway controller (create; update on top of an accepted well-formed object; a well-formed object on top of it) " +
			"and to a fresh real limiter server (UpstreamConditionHandler create/update, then honest reports: allocate schemas through the gateway's own reconcile code, count schemas through DoAcquire); " +
			"(c) classes of breaking objects, each first demonstrated on a hand-made instance against the real consumers, must be rejected. " +
			"distinct = hash of the object with blobs replaced by labels; all objects count (the trivially well-formed ones are the controls of (b)).")
		r.Assume("accepted = the admission plugin's Validate returns nil after its own Admit step (defaults, rule normalisation) on a create request")
		r.Assume("'can be applied' is judged on a fresh gateway / limiter per object, so a name conflict with another cluster can never be the reason for a requeue")
		r.Assume("an honest report is what the gateway's own reconcile code builds for a fresh gateway instance (first without, then with the quota the server handed out)")

		m := newMaterial()
		ab, err := newAdmissionBed()
		if err != nil {
			r.Inconclusive("admission bed: " + err.Error())
			return
		}
		defer ab.close()

		judged := demonstrateClasses(r, m, ab)
		explore(r, m, ab, judged)

		r.Require(r.Counter("objects") >= int64(r.N(40000, 1500000)), "not every generated object was evaluated")
		r.Require(r.Counter("accepted") >= int64(r.N(10000, 350000)), "too few accepted objects (soundness part would be vacuous)")
		r.Require(r.Counter("rejected") >= int64(r.N(10000, 350000)), "too few rejected objects")
		r.Require(r.Counter("gateway_applies") >= int64(r.N(30000, 1000000)) && r.Counter("limiter_applies") >= int64(r.N(20000, 600000)), "too few applications to the consumers")
		r.Require(r.Counter("limiter_reports") >= int64(r.N(5000, 150000)), "too few honest reports reached the limiter")
		r.Require(len(judged) >= 5, "fewer than 5 breaking classes could be demonstrated")
		r.Require(r.Counter("limiter_lifecycle_premise_not_met")*20 <= r.Counter("limiter_applies"),
			"the limiter-side premise (a new server starts from fresh state for the upstream) was not met for more than 5% of the applications: the limiter-side part is not judged")
		for _, k := range []string{"lifecycle_gateway-create-beside-other", "lifecycle_gateway-redeliver", "lifecycle_gateway-delete", "lifecycle_gateway-recreate"} {
			r.Require(r.Counter(k) >= int64(r.N(5000, 150000)), "life-cycle step hardly observed: "+k)
		}
		r.Require(r.Counter("limiter_lifecycles_with_two_reporting_instances") >= int64(r.N(1200, 40000)), "too few limiter delete/re-create cycles with two reporting instances")
		r.Require(r.Counter("boundary_objects_accepted") >= int64(r.N(1500, 40000)), "too few accepted objects with boundary names / strings (long, non-ASCII, ':' '/' '%', case variants)")
	})
}

// demonstrateClasses runs every class' demonstration once; returns the classes that are judged.
func demonstrateClasses(r *vkit.R, m *material, ab *admissionBed) map[string]bool {
	judged := map[string]bool{}
	report := map[string]interface{}{}
	for _, c := range classes {
		hm := c.handmade(m)
		demo := c.demo
		if demo == nil {
			demo = applyDemo
		}
		var broken bool
		var how string
		var arg *proxyv1alpha1.UpstreamCluster
		if hm != nil {
			arg = hm.DeepCopy()
			if !c.match(arg) {
				r.Inconclusive("harness: hand-made instance of class " + c.name + " is not matched by the class predicate")
				continue
			}
		}
		if rec := safely(func() { broken, how = demo(arg) }); rec != nil {
			// a panic that escapes the consumers' own recover points (demo helpers recover around the code under test)
			broken, how = true, "panic in "+rec.Frame+": "+rec.Value
		}
		if !broken && strings.Contains(how, "watchdog") {
			// the demonstration could not be carried out (timing): the class would silently go unjudged
			r.Inconclusive("demonstration of breaking class " + c.name + " could not be carried out: " + how)
		}
		entry := map[string]interface{}{"demonstrated": broken, "how": how}
		switch {
		case broken:
			judged[c.name] = true
			r.Count("classes_demonstrated", 1)
		case c.named != "":
			// not demonstrable at apply time (the damage shows at the TLS handshake, at a reconcile round, or as a silently
			// unlimited policy), but the statement names the class: "objects that would break them (… <named> …) are rejected"
			judged[c.name] = true
			entry["judged_because_the_statement_names_it"] = c.named
			r.Count("classes_judged_by_the_statement_wording", 1)
		default:
			r.Count("classes_not_demonstrated", 1)
		}
		if hm != nil {
			v := ab.admitAndValidate(hm.DeepCopy())
			entry["handmade_accepted"] = v.Accepted
			if v.Accepted && judged[c.name] {
				r.Violation("C16/accepted-breaking/"+c.name,
					fmt.Sprintf("validation accepts an object of breaking class %q; demonstrated on the consumers: %s", c.name, how),
					caseWitness{Object: m.describe(hm), Generator: genInfo{Kind: "hand-made"}, Note: how})
			}
		}
		report[c.name] = entry
	}
	r.Set("breaking_classes", report)
	return judged
}

func firstClass(o *proxyv1alpha1.UpstreamCluster, judged map[string]bool) string {
	for _, c := range classes {
		if judged[c.name] && c.match(o) {
			return c.name
		}
	}
	return ""
}

func explore(r *vkit.R, m *material, ab *admissionBed, judged map[string]bool) {
	n := r.N(40000, 1500000)
	var mu sync.Mutex
	classMembers := map[string]int{}
	classRejected := map[string]int{}
	classApplied := map[string]int{}
	mutationSeen := map[string]int{}
	acceptedByKind := map[string]int{}
	var sampledClean, sampledRejected bool
	updateKinds := map[string]int{}

	r.Parallel(n, 16, func(i int, g *vkit.Rand) {
		o, info := genObject(g, m)
		r.Eval(1)
		r.Count("objects", 1)
		key := m.key(o)
		r.Distinct(vkit.Hash64(key))
		wit := func(outs []outcome, note string) caseWitness {
			return caseWitness{Object: m.describe(o), Generator: info, Outcomes: outs, Note: note}
		}

		// (a) totality, direct entry point on the raw object
		raw := o.DeepCopy()
		var errs field.ErrorList
		rec, to := guarded(func() { errs = validation.ValidateUpstreamCluster(raw) })
		if to {
			r.Inconclusive("ValidateUpstreamCluster did not return within the watchdog on " + key)
			return
		}
		if rec != nil {
			r.Count("validate_panics", 1)
			r.Violation("C16/validate-panics/"+rec.Frame+"/"+panicKind(rec.Value)+totalityFeature(o),
				fmt.Sprintf("validation.ValidateUpstreamCluster panics (%s in %s) instead of returning field errors", rec.Value, rec.Frame), wit(nil, ""))
		}
		// (a) totality + verdict, through the plugin
		adm := o.DeepCopy()
		v := ab.admitAndValidate(adm)
		if v.TimedOut {
			r.Inconclusive("admission plugin " + v.Where + " did not return within the watchdog on " + key)
			return
		}
		if v.Panic != nil && rec != nil && v.Panic.Frame == rec.Frame {
			r.Count("plugin_panics", 1) // the same panic as through the direct entry point: one defect, one signature
			return
		}
		if v.Panic != nil {
			r.Count("plugin_panics", 1)
			r.Violation("C16/plugin-"+strings.ToLower(v.Where)+"-panics/"+v.Panic.Frame+"/"+panicKind(v.Panic.Value)+totalityFeature(o),
				fmt.Sprintf("admission plugin %s panics (%s in %s) instead of returning field errors", v.Where, v.Panic.Value, v.Panic.Frame), wit(nil, ""))
			return
		}
		if rec == nil && v.Accepted && len(validation.ValidateUpstreamCluster(adm.DeepCopy())) > 0 {
			r.Violation("C16/plugin-accepts-despite-field-errors", "plugin Validate returned nil although ValidateUpstreamCluster reports field errors on the admitted object", wit(nil, ""))
		}

		cls := firstClass(adm, judged)
		mu.Lock()
		for _, mn := range info.Mutations {
			mutationSeen[mn]++
		}
		for _, c := range classes {
			if c.match(adm) {
				classMembers[c.name]++
				if !v.Accepted {
					classRejected[c.name]++
				}
			}
		}
		if v.Accepted {
			acceptedByKind[info.Kind]++
		}
		wantRejSample := !v.Accepted && !sampledRejected && len(info.Mutations) > 0
		if wantRejSample {
			sampledRejected = true
		}
		mu.Unlock()

		if !v.Accepted {
			r.Count("rejected", 1)
			if wantRejSample {
				e := v.Err
				if len(e) > 300 {
					e = e[:300] + "..."
				}
				r.Sample(map[string]interface{}{"kind": "rejected", "object": m.describe(o), "generator": info, "errors": e, "direct_field_errors": len(errs)})
			}
			return
		}
		r.Count("accepted", 1)
		if hasBoundaryStrings(adm) {
			r.Count("boundary_objects_accepted", 1)
		}

		// Members of a breaking class that has already been shown to be accepted AND to break the consumers 300 times are
		// not applied again: on a defective tree every such application leaks the half-built cluster's goroutines
		// (CreateClusterInfo does not stop what it started when it fails), which would distort a multi-million run.
		if cls != "" {
			mu.Lock()
			classApplied[cls]++
			skip := classApplied[cls] > 300
			mu.Unlock()
			if skip {
				r.Count("accepted_not_clean", 1)
				r.Count("class_members_not_applied_again", 1)
				r.Violation("C16/accepted-breaking/"+cls,
					fmt.Sprintf("validation accepts an object of breaking class %q", cls), wit(nil, "consumers not exercised again for this class"))
				return
			}
		}

		// (b) soundness: apply the admitted object (what would be stored) to the consumers
		var outs []outcome
		gc, _ := applyGateway(adm, nil)
		outs = append(outs, gc)
		r.Count("gateway_applies", 1)
		lc, reports, _ := applyLimiterAs(adm, nil, g.Intn(len(instances)), false)
		outs = append(outs, lc...)
		r.Count("limiter_applies", 1)
		r.Count("limiter_reports", reports)

		// update paths, only meaningful when the create path is clean: (1) well-formed accepted object -> adm, (2) adm -> well-formed
		if allClean(outs) {
			other := genValid(g, m)
			other.Name = adm.Name
			if ov := ab.admitAndValidate(other); ov.Accepted {
				if ocreate, _ := applyGateway(other, nil); ocreate.clean() {
					if gu, ok := applyGateway(adm, other); ok {
						outs = append(outs, gu)
						r.Count("gateway_applies", 1)
						r.Count("gateway_updates", 1)
					}
					if gu, ok := applyGateway(other, adm); ok {
						gu.Consumer = "gateway-update-from"
						outs = append(outs, gu)
						r.Count("gateway_applies", 1)
						r.Count("gateway_updates", 1)
					}
					if lu, reports, ok := applyLimiter(adm, other); ok {
						outs = append(outs, lu...)
						r.Count("limiter_applies", 1)
						r.Count("limiter_updates", 1)
						r.Count("limiter_reports", reports)
					}
				} else {
					r.Count("update_partner_unusable", 1)
				}
			} else {
				r.Count("update_partner_unusable", 1)
			}
		}

		// life cycle around the plain create (half of the cleanly applied objects): created on a gateway that already holds the
		// cluster validation knew about, delivered again unchanged, deleted, created again under the same name; on the
		// limiter: applied, deleted, applied again, then two gateway instances (identities with ':' '/' '%', upper case,
		// non-ASCII, 250+ characters) report
		if allClean(outs) && cls == "" && g.Intn(5) < 2 {
			lo, harness := applyGatewayLifecycle(adm)
			if harness != "" {
				r.Inconclusive("harness: " + harness)
			}
			outs = append(outs, lo...)
			r.Count("gateway_lifecycles", 1)
			r.Count("gateway_applies", len(lo))
			for _, x := range lo {
				if x.clean() {
					r.Count("lifecycle_"+x.Consumer, 1)
				}
			}
			ll, n, _ := applyLimiterAs(adm, nil, g.Intn(len(instances)), true)
			outs = append(outs, ll...)
			r.Count("limiter_lifecycles", 1)
			r.Count("limiter_applies", 2)
			r.Count("limiter_reports", n)
			if n > 0 {
				r.Count("limiter_lifecycles_with_two_reporting_instances", 1)
			}
		}

		// UPDATE requests on top of this accepted, cleanly applied object: metadata only / spec only / both / nothing changed
		if allClean(outs) && cls == "" {
			exploreUpdate(r, m, ab, judged, g, adm, &mu, updateKinds)
		}

		var bad []outcome
		for _, x := range outs {
			if x.Kind == "harness" {
				r.Inconclusive("harness: " + x.Detail + " on " + key)
				continue
			}
			if x.Kind == "premise" {
				r.Count("limiter_lifecycle_premise_not_met", 1)
				continue
			}
			if !x.clean() {
				bad = append(bad, x)
			}
		}
		if len(bad) == 0 && cls == "" {
			r.Count("accepted_clean", 1)
			mu.Lock()
			want := !sampledClean && len(adm.Spec.FlowControl.Schemas) > 0 && reports > 0
			if want {
				sampledClean = true
			}
			mu.Unlock()
			if want {
				r.Sample(map[string]interface{}{"kind": "accepted-and-applied", "object": m.describe(adm), "generator": info, "outcomes": outs})
			}
			return
		}
		r.Count("accepted_not_clean", 1)
		describeBad := func() string {
			var ss []string
			for _, x := range bad {
				ss = append(ss, fmt.Sprintf("%s: %s %s", x.Consumer, x.Kind, x.Detail))
			}
			if len(ss) == 0 {
				return "applies cleanly here, but members of the class break the consumers (see coverage.breaking_classes)"
			}
			return strings.Join(ss, " | ")
		}
		if cls != "" {
			r.Violation("C16/accepted-breaking/"+cls,
				fmt.Sprintf("validation accepts an object of breaking class %q; consumers: %s", cls, describeBad()), wit(outs, ""))
		} else {
			for _, x := range bad {
				r.Violation("C16/accepted-unappliable/"+x.Consumer+"/"+x.Kind+"/"+outcomeFeature(x),
					fmt.Sprintf("validation accepts the object but %s ends in %s: %s", x.Consumer, x.Kind, x.Detail), wit(outs, ""))
			}
		}
		// the controller's own defect: its error path for a failed bootstrap dereferences the nil ClusterInfo
		if gc.Kind == "panic" && strings.Contains(gc.Detail, "nil pointer") && strings.Contains(gc.Detail, "cause: CreateClusterInfo:") {
			r.Violation("C16/controller/create-error-path-panics",
				"syncUpstreamCluster panics (nil pointer) when CreateClusterInfo returns an error: the deferred error path calls Stop on the nil *ClusterInfo; the queue worker does not recover. "+gc.Detail,
				wit(outs, ""))
		}
	})

	// coverage of (c)
	cov := map[string]interface{}{}
	var names []string
	for _, c := range classes {
		names = append(names, c.name)
	}
	sort.Strings(names)
	for _, nme := range names {
		cov[nme] = map[string]interface{}{"generated_members": classMembers[nme], "rejected": classRejected[nme], "judged": judged[nme]}
		if judged[nme] {
			r.Require(classMembers[nme] >= r.N(20, 200), fmt.Sprintf("breaking class %s has too few generated members (%d)", nme, classMembers[nme]))
		}
	}
	r.Set("class_coverage", cov)
	r.Set("mutations_applied", mutationSeen)
	r.Set("accepted_by_generator_kind", acceptedByKind)
	r.Set("update_requests_by_change_and_verdict", updateKinds)
	for _, k := range []string{"metadata-only", "spec-only", "both", "nothing"} {
		r.Require(updateKinds[k+"/accepted"] >= r.N(300, 5000), "too few accepted UPDATE requests of kind "+k)
	}
	r.Require(updateKinds["metadata-only/rejected"] >= r.N(300, 5000), "too few rejected metadata-only UPDATE requests")
	for _, mu := range mutations {
		r.Require(mutationSeen[mu.name] >= 100, "mutation "+mu.name+" hardly exercised")
	}
}

// totalityFeature adds the minimal discriminating feature of a panicking input where one is known: the member set of a
// flow-control schema is the only place where validation dereferences optional pointers.
func totalityFeature(o *proxyv1alpha1.UpstreamCluster) string {
	for i := range o.Spec.FlowControl.Schemas {
		s := &o.Spec.FlowControl.Schemas[i]
		if s.GlobalMaxRequestsInflight != nil && s.MaxRequestsInflight == nil && s.GlobalMaxRequestsInflight.Max < 0 {
			return "/schema=globalMax<0-without-max"
		}
	}
	return ""
}

func outcomeFeature(x outcome) string {
	d := x.Detail
	if i := strings.Index(d, "cause: "); i >= 0 {
		d = d[i+len("cause: "):]
	}
	if x.Kind == "panic" {
		return panicKind(x.Detail) + "/" + normalise(d)
	}
	return normalise(d)
}

// exploreUpdate sends one UPDATE request (old = the stored, accepted, applied object) through the plugin's Admit+Validate
// with a real old object, and applies every accepted update on top of old: gateway update path and limiter update path.
func exploreUpdate(r *vkit.R, m *material, ab *admissionBed, judged map[string]bool, g *vkit.Rand, old *proxyv1alpha1.UpstreamCluster, mu *sync.Mutex, kinds map[string]int) {
	upd, change := genUpdate(g, m, old)
	r.Count("update_requests", 1)
	wit := func(outs []outcome, note string) map[string]interface{} {
		return map[string]interface{}{"stored_object": m.describe(old), "update_to": m.describe(upd), "change": change, "outcomes": outs, "note": note}
	}
	v := ab.admitAndValidateUpdate(upd, old)
	if v.TimedOut {
		r.Inconclusive("admission plugin " + v.Where + " did not return within the watchdog on an update to " + m.key(upd))
		return
	}
	if v.Panic != nil {
		r.Violation("C16/plugin-"+strings.ToLower(v.Where)+"-panics/"+v.Panic.Frame+"/"+panicKind(v.Panic.Value)+totalityFeature(upd)+"/on-update",
			fmt.Sprintf("admission plugin %s panics on an UPDATE request (%s in %s)", v.Where, v.Panic.Value, v.Panic.Frame), wit(nil, ""))
		return
	}
	mu.Lock()
	if v.Accepted {
		kinds[change+"/accepted"]++
	} else {
		kinds[change+"/rejected"]++
	}
	mu.Unlock()
	if !v.Accepted {
		return
	}
	r.Count("updates_accepted", 1)
	cls := firstClass(upd, judged)
	var outs []outcome
	if gu, ok := applyGateway(upd, old); ok {
		outs = append(outs, gu)
		r.Count("gateway_applies", 1)
		r.Count("gateway_updates", 1)
	}
	if lu, reports, ok := applyLimiter(upd, old); ok {
		outs = append(outs, lu...)
		r.Count("limiter_applies", 1)
		r.Count("limiter_updates", 1)
		r.Count("limiter_reports", reports)
	}
	var bad []string
	for _, x := range outs {
		if x.Kind == "harness" {
			r.Inconclusive("harness: " + x.Detail)
			continue
		}
		if x.Kind == "premise" {
			r.Count("limiter_lifecycle_premise_not_met", 1)
			continue
		}
		if !x.clean() {
			bad = append(bad, fmt.Sprintf("%s: %s %s", x.Consumer, x.Kind, x.Detail))
		}
	}
	switch {
	case cls != "":
		r.Violation("C16/accepted-breaking/"+cls+"/update="+change,
			fmt.Sprintf("an UPDATE request (%s changed) to an object of breaking class %q passes admission; consumers when it is applied on top of the stored object: %s",
				change, cls, strings.Join(bad, " | ")), wit(outs, ""))
	case len(bad) > 0:
		for _, x := range outs {
			if !x.clean() && x.judgeable() {
				r.Violation("C16/accepted-unappliable/"+x.Consumer+"/"+x.Kind+"/"+outcomeFeature(x)+"/update="+change,
					fmt.Sprintf("an UPDATE request (%s changed) passes admission but %s ends in %s: %s", change, x.Consumer, x.Kind, x.Detail), wit(outs, ""))
			}
		}
	}
}
