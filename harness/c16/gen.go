package c16

import (
	"encoding/json"
	"fmt"
	"math"
	"reflect"
	"strings"

	metav1 "k8s.io/apimachinery/pkg/apis/meta/v1"

	proxyv1alpha1 "github.com/kubewharf/kubegateway/pkg/apis/proxy/v1alpha1"
	"github.com/kubewharf/kubegateway/pkg/clusters/features"

	"verifharness/bed"
	"verifharness/vkit"
)

// material is the fixed pool of key/certificate/CA blobs the generator draws from. The key bytes are fresh per process
// (crypto/rand); the *labels* are what cases are hashed and printed by, so the case list depends only on VERIF_SEED.
type material struct {
	labels map[string]string // blob content -> label

	ca, ca2            []byte
	certA, keyA        []byte
	certB, keyB        []byte
	truncCert, garbage []byte
	keyAsCert          []byte
	emptyPEM           []byte
}

func newMaterial() *material {
	ca := bed.NewCA("c16-ca")
	ca2 := bed.NewCA("c16-ca2")
	a := bed.NewServing("c16-a", []string{"a.c16"}, ca)
	b := bed.NewServing("c16-b", []string{"b.c16"}, nil)
	m := &material{
		labels: map[string]string{},
		ca:     ca.CertPEM, ca2: append(append([]byte{}, ca.CertPEM...), ca2.CertPEM...),
		certA: a.CertPEM, keyA: a.KeyPEM, certB: b.CertPEM, keyB: b.KeyPEM,
		truncCert: a.CertPEM[:len(a.CertPEM)/2],
		garbage:   []byte("this is not PEM \x00\xff"),
		keyAsCert: a.KeyPEM,
		emptyPEM:  []byte("-----BEGIN CERTIFICATE-----\n-----END CERTIFICATE-----\n"),
	}
	for l, b := range map[string][]byte{
		"<CA>": m.ca, "<CA+CA2>": m.ca2, "<certA>": m.certA, "<keyA>": m.keyA, "<certB>": m.certB, "<keyB>": m.keyB,
		"<truncated certA>": m.truncCert, "<garbage>": m.garbage, "<empty PEM block>": m.emptyPEM,
	} {
		m.labels[string(b)] = l
	}
	return m
}

func (m *material) label(b []byte) string {
	if len(b) == 0 {
		return ""
	}
	if l, ok := m.labels[string(b)]; ok {
		return l
	}
	if len(b) > 24 {
		return fmt.Sprintf("<%d bytes %q...>", len(b), b[:16])
	}
	return fmt.Sprintf("%q", b)
}

// describe renders an object with blobs replaced by their labels (for witnesses, samples and hashing).
func (m *material) describe(o *proxyv1alpha1.UpstreamCluster) map[string]interface{} {
	c := o.DeepCopy()
	cc, ss := &c.Spec.ClientConfig, &c.Spec.SecureServing
	blobs := map[string]string{}
	for k, p := range map[string]*[]byte{
		"clientConfig.bearerToken": &cc.BearerToken, "clientConfig.keyData": &cc.KeyData, "clientConfig.certData": &cc.CertData, "clientConfig.caData": &cc.CAData,
		"secureServing.keyData": &ss.KeyData, "secureServing.certData": &ss.CertData, "secureServing.clientCAData": &ss.ClientCAData,
	} {
		if len(*p) > 0 {
			blobs[k] = m.label(*p)
			*p = nil
		}
	}
	for i := range c.Spec.Servers {
		if len(c.Spec.Servers[i].Endpoint) > 200 {
			c.Spec.Servers[i].Endpoint = fmt.Sprintf("%s...<%d chars>", c.Spec.Servers[i].Endpoint[:40], len(c.Spec.Servers[i].Endpoint))
		}
	}
	if len(c.Name) > 200 {
		c.Name = fmt.Sprintf("%s...<%d chars>", c.Name[:40], len(c.Name))
	}
	var generic map[string]interface{}
	b, _ := json.Marshal(c)
	_ = json.Unmarshal(b, &generic)
	if generic == nil {
		generic = map[string]interface{}{}
	}
	delete(generic, "status")
	if len(blobs) > 0 {
		generic["blobs"] = blobs
	}
	return generic
}

func (m *material) key(o *proxyv1alpha1.UpstreamCluster) string {
	b, _ := json.Marshal(m.describe(o))
	return string(b)
}

// ---- endpoints ----

// goodHosts are syntactically valid authorities of closed local ports (nothing listens on ports 1..9 of the loopback
// interface in the sandbox), so that background health checks fail fast and never leave the machine.
var goodHosts = []string{"[::ffff:127.0.0.1]:7", "127.0.0.1:1", "127.0.0.1:2", "127.0.0.1:3", "[::1]:4", "127.0.0.1:5", "localhost:6", "127.0.0.1"}

var goodSuffix = []string{"", "", "", "", "/", "/base", "/base/?x=1", "?x=%zz", "#frag", "/a b"}

// hostileEndpoints is the part of the endpoint grammar that is NOT a plain scheme://host:port (after the scheme prefix
// is prepended where the entry starts with "://").
var hostileEndpoints = []string{
	"://%zz", "://a b", "://", ":///path", "://:1", "://[::1", "://127.0.0.1:port", "://127.0.0.1:99999", "://a\x7fb:1", "://\x00",
	"://127.0.0.1:1 ", "://127.0.0.1:1/%zz", "://user:pw@127.0.0.1:1", "://user@", "://[fe80::1%25lo]:1", "://127.0.0.1:1:2",
	"://127.0.0.1:-1", "://%31%32%37.0.0.1:1", "://127.0.0.1:1\n", "://[::1]]:1", "://?x=1", "://#", "://\t",
	"", "127.0.0.1:1", "ftp://127.0.0.1:1", "HTTPS://127.0.0.1:1", "https:/127.0.0.1:1", " https://127.0.0.1:1", "https//127.0.0.1:1",
	"//127.0.0.1:1", "http://", "https://",
}

func genEndpoint(g *vkit.Rand, scheme string, hostile bool) string {
	if !hostile {
		return scheme + "://" + g.Pick(goodHosts) + g.Pick(goodSuffix)
	}
	if g.Chance(0.04) {
		return scheme + "://" + strings.Repeat("a", g.PickInt([]int{300, 5000, 70000})) + ":1"
	}
	e := g.Pick(hostileEndpoints)
	if strings.HasPrefix(e, "://") {
		return scheme + e
	}
	return e
}

// ---- numbers ----

var edgeNumbers = []int32{math.MinInt32, -1000, -1, 0, 1, 2, 100, 1000, math.MaxInt32 - 1, math.MaxInt32}

func genNum(g *vkit.Rand, related ...int32) int32 {
	if len(related) > 0 && g.Chance(0.4) {
		r := related[g.Intn(len(related))]
		switch g.Intn(3) {
		case 0:
			return r
		case 1:
			return r - 1
		}
		return r + 1
	}
	return g.PickI32(edgeNumbers)
}

func posNum(g *vkit.Rand) int32 { return g.PickI32([]int32{1, 2, 5, 100, 1000, 100000, math.MaxInt32}) }

// ---- flow control ----

var strategies = []proxyv1alpha1.LimitStrategy{"", proxyv1alpha1.LocalLimit, proxyv1alpha1.GlobalAllocateLimit, proxyv1alpha1.GlobalCountLimit}

// genValidSchema builds a schema the documentation calls well-formed (exactly one local type, optional matching global
// member that is >= the local one, positive token-bucket numbers, non-negative max).
func genValidSchema(g *vkit.Rand, name string) proxyv1alpha1.FlowControlSchema {
	s := proxyv1alpha1.FlowControlSchema{Name: name, Strategy: strategies[g.Intn(len(strategies))]}
	switch g.Intn(5) {
	case 0:
		s.Exempt = &proxyv1alpha1.ExemptFlowControlSchema{}
	case 1, 2:
		local := g.PickI32([]int32{0, 1, 2, 10, 1000, math.MaxInt32})
		s.MaxRequestsInflight = &proxyv1alpha1.MaxRequestsInflightFlowControlSchema{Max: local}
		if g.Chance(0.6) {
			gl := local
			if g.Bool() && local < math.MaxInt32-1000 {
				gl = local + g.PickI32([]int32{1, 10, 1000})
			}
			s.GlobalMaxRequestsInflight = &proxyv1alpha1.MaxRequestsInflightFlowControlSchema{Max: gl}
		}
	default:
		qps := posNum(g)
		burst := qps
		if g.Bool() && qps < math.MaxInt32-1000 {
			burst = qps + g.PickI32([]int32{1, 10, 1000})
		}
		s.TokenBucket = &proxyv1alpha1.TokenBucketFlowControlSchema{QPS: qps, Burst: burst}
		if g.Chance(0.6) {
			gq, gb := qps, burst
			if g.Bool() && burst < math.MaxInt32-1000 {
				gq, gb = qps+g.PickI32([]int32{0, 1, 100}), burst+g.PickI32([]int32{0, 1, 100})
			}
			s.GlobalTokenBucket = &proxyv1alpha1.TokenBucketFlowControlSchema{QPS: gq, Burst: gb}
		}
	}
	return s
}

// genWildSchema: half of the time one local limiter type (plus, maybe, its global member) with wild numbers; otherwise every
// optional member nil/non-nil independently. Numbers come from the edge set or sit next to a related field.
func genWildSchema(g *vkit.Rand, name string) proxyv1alpha1.FlowControlSchema {
	s := proxyv1alpha1.FlowControlSchema{Name: name}
	if g.Chance(0.1) {
		s.Strategy = proxyv1alpha1.LimitStrategy(g.Pick([]string{"Unknown", "localLimit", " "}))
	} else {
		s.Strategy = strategies[g.Intn(len(strategies))]
	}
	var lm, lq, lb int32
	if g.Bool() {
		switch g.Intn(5) {
		case 0:
			s.Exempt = &proxyv1alpha1.ExemptFlowControlSchema{}
		case 1, 2:
			lm = genNum(g)
			s.MaxRequestsInflight = &proxyv1alpha1.MaxRequestsInflightFlowControlSchema{Max: lm}
			if g.Bool() {
				s.GlobalMaxRequestsInflight = &proxyv1alpha1.MaxRequestsInflightFlowControlSchema{Max: genNum(g, lm)}
			}
		default:
			lq = genNum(g)
			lb = genNum(g, lq)
			s.TokenBucket = &proxyv1alpha1.TokenBucketFlowControlSchema{QPS: lq, Burst: lb}
			if g.Bool() {
				s.GlobalTokenBucket = &proxyv1alpha1.TokenBucketFlowControlSchema{QPS: genNum(g, lq), Burst: genNum(g, lb)}
			}
		}
		return s
	}
	pm := []float64{0.15, 0.3, 0.5}[g.Intn(3)] // membership mask biased to few members
	if g.Chance(pm) {
		s.Exempt = &proxyv1alpha1.ExemptFlowControlSchema{}
	}
	if g.Chance(pm + 0.15) {
		lm = genNum(g)
		s.MaxRequestsInflight = &proxyv1alpha1.MaxRequestsInflightFlowControlSchema{Max: lm}
	}
	if g.Chance(pm + 0.15) {
		s.GlobalMaxRequestsInflight = &proxyv1alpha1.MaxRequestsInflightFlowControlSchema{Max: genNum(g, lm)}
	}
	if g.Chance(pm + 0.15) {
		lq = genNum(g)
		lb = genNum(g, lq)
		s.TokenBucket = &proxyv1alpha1.TokenBucketFlowControlSchema{QPS: lq, Burst: lb}
	}
	if g.Chance(pm + 0.15) {
		s.GlobalTokenBucket = &proxyv1alpha1.TokenBucketFlowControlSchema{QPS: genNum(g, lq), Burst: genNum(g, lb)}
	}
	return s
}

// ---- names ----

var label63 = strings.Repeat("a", 63)

// goodNames: valid DNS subdomains incl. the boundaries (1 character, a 63-character label, 253 characters in total)
var goodNames = []string{"c16", "a.example", "cluster-1.prod", "x", "0", "a-b.c-d.e", label63, label63 + "." + label63 + "." + label63 + "." + strings.Repeat("b", 61), "xn--bcher-kva.example", "1.2.3.4"}

// oddStrings: legal free-form strings at the boundaries: separators that other code uses (':' '/' '%' ',' '='), upper
// case and case variants, non-ASCII, empty, very long, IPv6 literals
var oddStrings = []string{"a:b", "a/b", "%41%zz", "UPPER.Example", "upper.example", "ünï-☃", "", strings.Repeat("l", 300), "[::1]", "::1", "a,b=c", " lead", "trail ", "system:serviceaccount:ns:sa"}

func hasBoundaryStrings(o *proxyv1alpha1.UpstreamCluster) bool {
	odd := func(s string) bool {
		if len(s) >= 63 {
			return true
		}
		for _, x := range oddStrings {
			if x != "" && s == x {
				return true
			}
		}
		return false
	}
	if odd(o.Name) || odd(o.Spec.ClientConfig.ServerName) {
		return true
	}
	for _, s := range o.Spec.SecureServing.ServerNames {
		if odd(s) {
			return true
		}
	}
	for _, s := range o.Spec.FlowControl.Schemas {
		if odd(s.Name) {
			return true
		}
	}
	for _, p := range o.Spec.DispatchPolicies {
		for _, ru := range p.Rules {
			for _, l := range [][]string{ru.Verbs, ru.APIGroups, ru.Resources, ru.ResourceNames, ru.Users, ru.UserGroups, ru.NonResourceURLs} {
				for _, s := range l {
					if odd(s) {
						return true
					}
				}
			}
		}
	}
	return false
}

var badNames = []string{"", "UPPER", "a_b", "-a", "a-", "a..b", ".a", "a b", "a/b", "ü", "a\x00"}

func genName(g *vkit.Rand, bad bool) string {
	if !bad {
		return g.Pick(goodNames)
	}
	if g.Chance(0.15) {
		return strings.Repeat("a", g.PickInt([]int{253, 254, 5000}))
	}
	return g.Pick(badNames)
}

// ---- rules ----

func genRule(g *vkit.Rand) proxyv1alpha1.DispatchPolicyRule {
	if g.Chance(0.6) {
		return proxyv1alpha1.DispatchPolicyRule{Verbs: []string{"*"}, APIGroups: []string{"*"}, Resources: []string{"*"}, NonResourceURLs: []string{"*"}}
	}
	pick := func(vals []string) []string {
		n := g.Intn(3)
		var out []string
		for i := 0; i < n; i++ {
			out = append(out, g.Pick(vals))
		}
		return out
	}
	if g.Chance(0.3) { // boundary strings, duplicates
		odd := func() []string {
			n := g.Range(1, 3)
			var out []string
			for i := 0; i < n; i++ {
				out = append(out, g.Pick(oddStrings))
			}
			if g.Chance(0.3) {
				out = append(out, out[0])
			}
			return out
		}
		return proxyv1alpha1.DispatchPolicyRule{Verbs: []string{"*"}, APIGroups: odd(), Resources: odd(), ResourceNames: odd(), Users: odd(), UserGroups: odd(), NonResourceURLs: odd(),
			ServiceAccounts: []proxyv1alpha1.ServiceAccountRef{{Namespace: g.Pick(oddStrings), Name: g.Pick(oddStrings)}}}
	}
	ru := proxyv1alpha1.DispatchPolicyRule{
		Verbs:           pick([]string{"get", "*", "-list", "", "-"}),
		APIGroups:       pick([]string{"", "apps", "*", "-apps"}),
		Resources:       pick([]string{"pods", "pods/*", "*/status", "-pods", "*", ""}),
		ResourceNames:   pick([]string{"n1", "-n1", "*"}),
		Users:           pick([]string{"admin", "-admin", "adm*", "*"}),
		UserGroups:      pick([]string{"g1", "-g1", "*"}),
		NonResourceURLs: pick([]string{"/healthz", "/healthz/*", "*", "-/metrics"}),
	}
	if g.Chance(0.2) {
		ru.ServiceAccounts = []proxyv1alpha1.ServiceAccountRef{{Namespace: g.Pick([]string{"ns", ""}), Name: g.Pick([]string{"sa", ""})}}
	}
	return ru
}

// ---- whole objects ----

// genInfo records which generator paths were taken (evidence only; the oracle never reads it).
type genInfo struct {
	Kind      string   // valid | mutated | wild
	Mutations []string // names of the mutations applied to a valid base
}

func boolPtr(b bool) *bool { return &b }

// genValid builds an object that is well-formed by the documentation's rules.
func genValid(g *vkit.Rand, m *material) *proxyv1alpha1.UpstreamCluster {
	o := &proxyv1alpha1.UpstreamCluster{ObjectMeta: metav1.ObjectMeta{Name: genName(g, false)}}
	scheme := "https"
	if g.Chance(0.25) {
		scheme = "http"
	}
	ns := g.Range(1, 3)
	for i := 0; i < ns; i++ {
		s := proxyv1alpha1.UpstreamClusterServer{Endpoint: genEndpoint(g, scheme, false)}
		switch g.Intn(4) {
		case 0:
			s.Disabled = boolPtr(true)
		case 1:
			s.Disabled = boolPtr(false)
		}
		o.Spec.Servers = append(o.Spec.Servers, s)
	}
	cc := &o.Spec.ClientConfig
	// trust: Insecure xor CA (https); anything goes for http
	if g.Bool() {
		cc.Insecure = true
	} else {
		cc.CAData = [][]byte{m.ca, m.ca2}[g.Intn(2)]
	}
	// identity
	switch g.Intn(3) {
	case 0:
		cc.BearerToken = []byte("token-" + o.Name)
	case 1:
		cc.CertData, cc.KeyData = m.certA, m.keyA
	case 2:
		cc.BearerToken = []byte("t")
		cc.CertData, cc.KeyData = m.certB, m.keyB
	}
	if g.Chance(0.3) {
		cc.QPS = posNum(g)
		cc.Burst = cc.QPS
		if g.Bool() && cc.QPS < math.MaxInt32 {
			cc.Burst = math.MaxInt32
		}
		cc.QPSDivisor = g.PickI32([]int32{0, 1, 2, 1000, math.MaxInt32})
	}
	if g.Chance(0.2) {
		cc.ServerName = g.Pick(append([]string{"kubernetes.default", "a b"}, oddStrings...))
	}
	ss := &o.Spec.SecureServing
	switch g.Intn(6) {
	case 0:
		ss.CertData, ss.KeyData = m.certA, m.keyA
	case 1:
		ss.CertData, ss.KeyData, ss.ClientCAData = m.certB, m.keyB, m.ca
	case 2:
		ss.ClientCAData = m.ca2
	}
	if g.Chance(0.3) {
		n := g.Range(1, 2)
		for i := 0; i < n; i++ {
			ss.ServerNames = append(ss.ServerNames, g.Pick(append([]string{"alias.example", "Alias.Example", "other", "OTHER", "taken.example", "x y", o.Name, strings.ToUpper(o.Name)}, oddStrings...)))
		}
	}
	nsch := g.Intn(4)
	for i := 0; i < nsch; i++ {
		o.Spec.FlowControl.Schemas = append(o.Spec.FlowControl.Schemas, genValidSchema(g, fmt.Sprintf("s%d", i)))
	}
	// a schema may carry a boundary name (the policies refer to it by that name; names differing only in case are distinct)
	schemaName := func(i int) string { return o.Spec.FlowControl.Schemas[i].Name }
	if nsch > 0 && g.Chance(0.2) {
		o.Spec.FlowControl.Schemas[g.Intn(nsch)].Name = g.Pick([]string{"S0", "s0 ", "ünï-☃", strings.Repeat("s", 300), "a:b/c%20d", "system-default", "a,b=c"})
	}
	np := g.Range(1, 3)
	for i := 0; i < np; i++ {
		p := proxyv1alpha1.DispatchPolicy{Strategy: proxyv1alpha1.RoundRobin}
		if g.Chance(0.15) {
			p.Strategy = "" // defaulted by the admission plugin
		}
		if g.Chance(0.4) {
			k := g.Range(1, len(o.Spec.Servers))
			for _, idx := range g.Perm(len(o.Spec.Servers))[:k] {
				p.UpstreamSubset = append(p.UpstreamSubset, o.Spec.Servers[idx].Endpoint)
			}
		}
		if nsch > 0 && g.Chance(0.6) {
			p.FlowControlSchemaName = schemaName(g.Intn(nsch))
		}
		nr := g.Range(1, 2)
		for k := 0; k < nr; k++ {
			p.Rules = append(p.Rules, genRule(g))
		}
		p.LogMode = proxyv1alpha1.LogMode(g.Pick([]string{"", "", "on", "off"}))
		o.Spec.DispatchPolicies = append(o.Spec.DispatchPolicies, p)
	}
	o.Spec.Logging.Mode = proxyv1alpha1.LogMode(g.Pick([]string{"", "", "on", "off"}))
	if g.Chance(0.25) {
		o.Annotations = map[string]string{features.FeatureGateAnnotationKey: g.Pick([]string{"GlobalRateLimiter=true", "GlobalRateLimiter=false", "DenyAllRequests=false", ""})}
	}
	if g.Chance(0.1) {
		o.Labels = map[string]string{"team": "a"}
	}
	return o
}

type mutation struct {
	name string
	fn   func(g *vkit.Rand, m *material, o *proxyv1alpha1.UpstreamCluster)
}

// mutationWeight: mutations whose results are (nearly) always rejected are drawn less often, so that more of the mutated
// objects are accepted and reach the consumers.
var mutationWeight = map[string]int{
	"endpoint-hostile": 4, "schema-wild": 5, "client-trust": 3, "client-identity": 3, "client-numbers": 3, "serving-material": 3,
	"endpoint-other-scheme": 1, "servers-empty-or-dup": 1, "policy-subset-unknown": 1, "policy-schema-unknown": 1, "policy-shape": 1, "meta": 2,
}

func buildMutationTable() []int {
	var t []int
	for i, mu := range mutations {
		w := mutationWeight[mu.name]
		if w == 0 {
			w = 1
		}
		for k := 0; k < w; k++ {
			t = append(t, i)
		}
	}
	return t
}

var mutationTab = buildMutationTable()

func pickMutation(g *vkit.Rand) mutation {
	return mutations[mutationTab[g.Intn(len(mutationTab))]]
}

func firstScheme(o *proxyv1alpha1.UpstreamCluster) string {
	if len(o.Spec.Servers) > 0 && strings.HasPrefix(o.Spec.Servers[0].Endpoint, "http://") {
		return "http"
	}
	return "https"
}

func pickBlob(g *vkit.Rand, m *material) []byte {
	return [][]byte{nil, {}, m.ca, m.ca2, m.certA, m.keyA, m.certB, m.keyB, m.truncCert, m.garbage, m.emptyPEM}[g.Intn(11)]
}

// mutations: each one moves a well-formed object along one dimension of the quantifier (nil/empty/negative/oversized
// fields, flow-control member combinations, arbitrary endpoint strings, unusable key material, dangling references).
var mutations = []mutation{
	{"endpoint-hostile", func(g *vkit.Rand, m *material, o *proxyv1alpha1.UpstreamCluster) {
		e := genEndpoint(g, firstScheme(o), true)
		if len(o.Spec.Servers) == 0 || g.Chance(0.3) {
			o.Spec.Servers = append(o.Spec.Servers, proxyv1alpha1.UpstreamClusterServer{Endpoint: e})
		} else {
			o.Spec.Servers[g.Intn(len(o.Spec.Servers))].Endpoint = e
		}
	}},
	{"endpoint-other-scheme", func(g *vkit.Rand, m *material, o *proxyv1alpha1.UpstreamCluster) {
		other := "http"
		if firstScheme(o) == "http" {
			other = "https"
		}
		s := proxyv1alpha1.UpstreamClusterServer{Endpoint: genEndpoint(g, other, false)}
		if g.Bool() {
			o.Spec.Servers = append(o.Spec.Servers, s)
		} else {
			o.Spec.Servers = append([]proxyv1alpha1.UpstreamClusterServer{s}, o.Spec.Servers...)
		}
	}},
	{"servers-empty-or-dup", func(g *vkit.Rand, m *material, o *proxyv1alpha1.UpstreamCluster) {
		switch g.Intn(3) {
		case 0:
			o.Spec.Servers = nil
		case 1:
			o.Spec.Servers = []proxyv1alpha1.UpstreamClusterServer{}
		case 2:
			if len(o.Spec.Servers) > 0 {
				o.Spec.Servers = append(o.Spec.Servers, o.Spec.Servers[0])
			}
		}
	}},
	{"client-trust", func(g *vkit.Rand, m *material, o *proxyv1alpha1.UpstreamCluster) {
		o.Spec.ClientConfig.Insecure = g.Bool()
		o.Spec.ClientConfig.CAData = pickBlob(g, m)
	}},
	{"client-identity", func(g *vkit.Rand, m *material, o *proxyv1alpha1.UpstreamCluster) {
		cc := &o.Spec.ClientConfig
		cc.CertData, cc.KeyData = pickBlob(g, m), pickBlob(g, m)
		if g.Bool() {
			cc.BearerToken = [][]byte{nil, {}, []byte("t"), []byte("a\nb"), make([]byte, 70000)}[g.Intn(5)]
		}
	}},
	{"client-numbers", func(g *vkit.Rand, m *material, o *proxyv1alpha1.UpstreamCluster) {
		cc := &o.Spec.ClientConfig
		cc.QPS = genNum(g)
		cc.Burst = genNum(g, cc.QPS)
		cc.QPSDivisor = genNum(g)
	}},
	{"serving-material", func(g *vkit.Rand, m *material, o *proxyv1alpha1.UpstreamCluster) {
		ss := &o.Spec.SecureServing
		ss.CertData, ss.KeyData = pickBlob(g, m), pickBlob(g, m)
		if g.Bool() {
			ss.ClientCAData = pickBlob(g, m)
		}
	}},
	{"schema-wild", func(g *vkit.Rand, m *material, o *proxyv1alpha1.UpstreamCluster) {
		fc := &o.Spec.FlowControl
		name := fmt.Sprintf("s%d", len(fc.Schemas))
		if g.Chance(0.1) {
			name = g.Pick([]string{"", "s0", "system-default"})
		}
		s := genWildSchema(g, name)
		if len(fc.Schemas) > 0 && g.Bool() {
			s.Name = fc.Schemas[0].Name
			if g.Chance(0.1) {
				s.Name = ""
			}
			fc.Schemas[0] = s
		} else {
			fc.Schemas = append(fc.Schemas, s)
		}
	}},
	{"policy-subset-unknown", func(g *vkit.Rand, m *material, o *proxyv1alpha1.UpstreamCluster) {
		if len(o.Spec.DispatchPolicies) == 0 {
			return
		}
		p := &o.Spec.DispatchPolicies[g.Intn(len(o.Spec.DispatchPolicies))]
		e := g.Pick([]string{"https://127.0.0.1:7", "", "127.0.0.1:1", "https://127.0.0.1:1/"})
		if len(o.Spec.Servers) > 0 && g.Bool() {
			e = o.Spec.Servers[0].Endpoint + g.Pick([]string{"/", " ", "x"})
		}
		p.UpstreamSubset = append(p.UpstreamSubset, e)
	}},
	{"policy-schema-unknown", func(g *vkit.Rand, m *material, o *proxyv1alpha1.UpstreamCluster) {
		if len(o.Spec.DispatchPolicies) == 0 {
			return
		}
		p := &o.Spec.DispatchPolicies[g.Intn(len(o.Spec.DispatchPolicies))]
		p.FlowControlSchemaName = g.Pick([]string{"nope", "S0", "s9", "system-default", " "})
	}},
	{"policy-shape", func(g *vkit.Rand, m *material, o *proxyv1alpha1.UpstreamCluster) {
		switch g.Intn(5) {
		case 0:
			o.Spec.DispatchPolicies = nil
		case 1:
			if len(o.Spec.DispatchPolicies) > 0 {
				o.Spec.DispatchPolicies[0].Rules = nil
			}
		case 2:
			if len(o.Spec.DispatchPolicies) > 0 {
				o.Spec.DispatchPolicies[0].Strategy = proxyv1alpha1.Strategy(g.Pick([]string{"Random", "roundrobin", " "}))
			}
		case 3:
			if len(o.Spec.DispatchPolicies) > 0 {
				o.Spec.DispatchPolicies[0].LogMode = proxyv1alpha1.LogMode(g.Pick([]string{"ON", "true", " "}))
			}
		case 4:
			o.Spec.Logging.Mode = proxyv1alpha1.LogMode(g.Pick([]string{"ON", "true", " "}))
		}
	}},
	{"meta", func(g *vkit.Rand, m *material, o *proxyv1alpha1.UpstreamCluster) {
		switch g.Intn(6) {
		case 0:
			o.Name = genName(g, true)
		case 1:
			o.Namespace = "ns"
		case 2:
			o.GenerateName = g.Pick([]string{"gen-", "Gen_"})
			if g.Bool() {
				o.Name = ""
			}
		case 3:
			o.Labels = map[string]string{g.Pick([]string{"ok", "bad key", ""}): g.Pick([]string{"v", "bad value!", strings.Repeat("v", 64)})}
		case 4:
			o.Annotations = map[string]string{features.FeatureGateAnnotationKey: g.Pick([]string{"NoSuchGate=true", "GlobalRateLimiter=maybe", "=", "GlobalRateLimiter", "GlobalRateLimiter=true,,", strings.Repeat("x", 300000)})}
		case 5:
			o.Annotations = map[string]string{g.Pick([]string{"Bad Key", "a/b/c", ""}): "v"}
		}
	}},
}

// genObject returns one generated object: 35% well-formed, 45% well-formed + 1..3 mutations, 12% wild (most sections
// mutated), 8% byte-level mutants of the JSON form.
func genObject(g *vkit.Rand, m *material) (*proxyv1alpha1.UpstreamCluster, genInfo) {
	o := genValid(g, m)
	x := g.Intn(100)
	switch {
	case x < 35:
		return o, genInfo{Kind: "valid"}
	case x < 80:
		k := []int{1, 1, 1, 1, 1, 1, 2, 2, 2, 3}[g.Intn(10)]
		info := genInfo{Kind: "mutated"}
		for i := 0; i < k; i++ {
			mu := pickMutation(g)
			mu.fn(g, m, o)
			info.Mutations = append(info.Mutations, mu.name)
		}
		return o, info
	}
	if x >= 92 {
		if bo := byteMutate(g, o); bo != nil {
			return bo, genInfo{Kind: "bytes"}
		}
	}
	info := genInfo{Kind: "wild"}
	for _, mu := range mutations {
		if g.Chance(0.6) {
			mu.fn(g, m, o)
			info.Mutations = append(info.Mutations, mu.name)
		}
	}
	return o, info
}

// byteMutate: byte-level mutation of the JSON form of a well-formed object; returns nil when no mutant decodes.
func byteMutate(g *vkit.Rand, o *proxyv1alpha1.UpstreamCluster) *proxyv1alpha1.UpstreamCluster {
	b, err := json.Marshal(o)
	if err != nil {
		return nil
	}
	alphabet := []byte(`0123456789-{}[]",:.ez%/ ntrufalse`)
	for try := 0; try < 12; try++ {
		c := append([]byte{}, b...)
		k := g.Range(1, 3)
		for j := 0; j < k; j++ {
			p := g.Intn(len(c))
			switch g.Intn(3) {
			case 0:
				c[p] = alphabet[g.Intn(len(alphabet))]
			case 1:
				c = append(c[:p], c[p+1:]...)
			case 2:
				c = append(c[:p], append([]byte{alphabet[g.Intn(len(alphabet))]}, c[p:]...)...)
			}
		}
		var out proxyv1alpha1.UpstreamCluster
		if json.Unmarshal(c, &out) == nil {
			return &out
		}
	}
	return nil
}

var gateValues = []string{"GlobalRateLimiter=true", "GlobalRateLimiter=false", "DenyAllRequests=false", "Tracing=true", "",
	"NoSuchGate=true", "Tracing=maybe", "DenyAllRequests=true,NoSuchGate=true", "=", "GlobalRateLimiter", "GlobalRateLimiter=true,,"}

// genUpdate builds the object of an UPDATE request for the stored object old: only metadata changed (feature-gate
// annotation from valid and invalid gate strings, other annotations, labels), only the spec changed, both, or nothing.
func genUpdate(g *vkit.Rand, m *material, old *proxyv1alpha1.UpstreamCluster) (*proxyv1alpha1.UpstreamCluster, string) {
	n := old.DeepCopy()
	change := []string{"metadata-only", "metadata-only", "metadata-only", "metadata-only", "spec-only", "spec-only", "both", "both", "both", "nothing"}[g.Intn(10)]
	if change == "metadata-only" || change == "both" {
		if n.Annotations == nil {
			n.Annotations = map[string]string{}
		}
		switch g.Intn(6) {
		case 0, 1, 2:
			n.Annotations[features.FeatureGateAnnotationKey] = g.Pick(gateValues)
		case 3:
			delete(n.Annotations, features.FeatureGateAnnotationKey)
			n.Annotations["note"] = g.Pick([]string{"a", "b", ""})
		case 4:
			n.Labels = map[string]string{g.Pick([]string{"team", "bad key"}): g.Pick([]string{"a", "b", "bad value!"})}
		case 5:
			n.Annotations[features.FeatureGateAnnotationKey] = g.Pick(gateValues)
			n.Labels = map[string]string{"rev": g.Pick([]string{"1", "2"})}
		}
		if reflect.DeepEqual(n.ObjectMeta, old.ObjectMeta) {
			n.Annotations["touched"] = "yes"
		}
	}
	if change == "spec-only" || change == "both" {
		var src *proxyv1alpha1.UpstreamCluster
		if g.Bool() {
			src = genValid(g, m)
		} else {
			src, _ = genObject(g, m)
		}
		n.Spec = src.Spec
		if reflect.DeepEqual(n.Spec, old.Spec) {
			n.Spec.Logging.Mode = "on"
			if old.Spec.Logging.Mode == "on" {
				n.Spec.Logging.Mode = "off"
			}
		}
	}
	return n, change
}
