// Package c14 checks property C14 (round-robin: the ready endpoints of a policy share its traffic evenly) by running the
// real picker (ClusterInfo.MatchAttributes -> EndpointPicker.Pop) under sequential and concurrent pick workloads with
// scripted endpoint readiness, and judging the recorded picks with shadow counters and (short histories) porcupine.
package c14

import (
	"fmt"
	"os"
	"sort"
	"strings"
	"sync"
	"sync/atomic"
	"testing"
	"time"

	"github.com/anishathalye/porcupine"
	"k8s.io/apiserver/pkg/authentication/user"
	"k8s.io/apiserver/pkg/authorization/authorizer"

	proxyv1alpha1 "github.com/kubewharf/kubegateway/pkg/apis/proxy/v1alpha1"
	"github.com/kubewharf/kubegateway/pkg/clusters"

	"verifharness/bed"
	"verifharness/vkit"
)

// racePass: the driver's auxiliary -race pass of the thorough tier (non-deciding for race reports, deciding for the
// monitors). It runs the quick-sized workload (the race detector slows the pick loops several times) and leaves the
// evidence file of the plain thorough pass in place.
var racePass = os.Getenv("VERIF_RACE_PASS") != ""

func tierN(r *vkit.R, quick, thorough int) int {
	if racePass {
		return quick
	}
	return r.N(quick, thorough)
}

// ---- test bed: a real ClusterInfo whose endpoint health is scripted ----

type polSpec struct {
	Subset []string `json:"subset"` // nil = no subset (all servers)
	Res    string   `json:"resource"`
}

type state struct {
	Servers  []string        `json:"servers"`
	Disabled map[string]bool `json:"disabled"`
	Healthy  map[string]bool `json:"healthy"`
	Policies []polSpec       `json:"policies"`
}

func (s *state) clone() *state {
	c := &state{Disabled: map[string]bool{}, Healthy: map[string]bool{}}
	c.Servers = append(c.Servers, s.Servers...)
	for k, v := range s.Disabled {
		if v {
			c.Disabled[k] = true
		}
	}
	for k, v := range s.Healthy {
		c.Healthy[k] = v
	}
	for _, p := range s.Policies {
		c.Policies = append(c.Policies, polSpec{Subset: append([]string(nil), p.Subset...), Res: p.Res})
	}
	return c
}

func (s *state) inServers(e string) bool {
	for _, x := range s.Servers {
		if x == e {
			return true
		}
	}
	return false
}

func (s *state) ready(e string) bool { return s.inServers(e) && !s.Disabled[e] && s.Healthy[e] }

// readyList is the model's ready list of policy p: for a subset policy in subset order (the order is part of the state
// of a strict round-robin), for a policy without subset in server order (the real order is a map iteration order).
func (s *state) readyList(p int) []string {
	var out []string
	src := s.Policies[p].Subset
	if len(src) == 0 {
		src = s.Servers
	}
	for _, e := range src {
		if s.ready(e) {
			out = append(out, e)
		}
	}
	return out
}

func setKey(l []string) string {
	c := append([]string(nil), l...)
	sort.Strings(c)
	return strings.Join(c, ",")
}

type tbed struct {
	ci *clusters.ClusterInfo
	mu sync.Mutex // makes "read the table + UpdateStatus" atomic against the harness changing the table
	st *state
	// syncMu serialises ClusterInfo.Sync calls, as the controller's single worker does
	syncMu sync.Mutex
	touch  int64
}

func (b *tbed) object() *proxyv1alpha1.UpstreamCluster {
	var ps []proxyv1alpha1.DispatchPolicy
	for _, p := range b.st.Policies {
		ps = append(ps, proxyv1alpha1.DispatchPolicy{
			Strategy:       proxyv1alpha1.RoundRobin,
			UpstreamSubset: append([]string(nil), p.Subset...),
			Rules:          []proxyv1alpha1.DispatchPolicyRule{{Verbs: []string{"*"}, APIGroups: []string{"*"}, Resources: []string{p.Res}}},
		})
	}
	return bed.BuildCluster(bed.ClusterSpec{Name: "c14.test", Servers: b.st.Servers, Disabled: b.st.Disabled, Policies: ps})
}

// healthCheck is what the real health-check goroutines call (immediately and every 5 s): it reports the scripted value.
func (b *tbed) healthCheck(e *clusters.EndpointInfo) bool {
	b.mu.Lock()
	defer b.mu.Unlock()
	e.UpdateStatus(b.st.Healthy[e.Endpoint], "Scripted", "")
	return false
}

func newBed(st *state) (*tbed, error) {
	b := &tbed{st: st}
	ci, err := clusters.CreateClusterInfo(b.object(), b.healthCheck, "", nil)
	if err != nil {
		return nil, err
	}
	b.ci = ci
	b.pushHealth()
	return b, nil
}

// pushHealth writes the scripted health into every endpoint synchronously (the asynchronous checker agrees with it).
func (b *tbed) pushHealth() {
	b.mu.Lock()
	defer b.mu.Unlock()
	for _, s := range b.st.Servers {
		if ep, ok := b.ci.Endpoints.Load(s); ok {
			ep.UpdateStatus(b.st.Healthy[s], "Scripted", "")
		}
	}
}

func (b *tbed) setHealthy(e string, h bool) {
	b.mu.Lock()
	defer b.mu.Unlock()
	b.st.Healthy[e] = h
	if ep, ok := b.ci.Endpoints.Load(e); ok {
		ep.UpdateStatus(h, "Scripted", "")
	}
}

// resync applies the current model state through ClusterInfo.Sync, as the controller does.
func (b *tbed) resync() error {
	b.mu.Lock()
	obj := b.object()
	b.mu.Unlock()
	b.syncMu.Lock()
	err := b.ci.Sync(obj)
	b.syncMu.Unlock()
	if err != nil {
		return err
	}
	b.pushHealth()
	return nil
}

// noopResync delivers the cluster object again although neither its server list nor any disabled flag nor any policy
// changed: an informer resync (same object) or, with touch, an update of fields that have nothing to do with endpoints
// (an annotation that is not the feature-gate one, the logging mode, a flow-control schema). The ready set of every
// policy is the same before and after, so picks around it are still "consecutive picks while the ready set is stable".
func (b *tbed) noopResync(touch bool) error {
	b.mu.Lock()
	obj := b.object()
	b.mu.Unlock()
	if touch {
		n := atomic.AddInt64(&b.touch, 1)
		obj.Annotations = map[string]string{"verif.example/touched": fmt.Sprint(n)}
		switch n % 3 {
		case 0:
			obj.Spec.Logging.Mode = proxyv1alpha1.LogOn
		case 1:
			obj.Spec.FlowControl.Schemas = []proxyv1alpha1.FlowControlSchema{{Name: "unused", FlowControlSchemaConfiguration: proxyv1alpha1.FlowControlSchemaConfiguration{MaxRequestsInflight: &proxyv1alpha1.MaxRequestsInflightFlowControlSchema{Max: int32(100 + n%50)}}}}
		}
	}
	b.syncMu.Lock()
	defer b.syncMu.Unlock()
	return b.ci.Sync(obj)
}

// resyncOpt: no-op re-syncs delivered during a batch. every>0: the single picker delivers one after every `every` picks
// (sequentially between picks); concurrent: a separate goroutine keeps delivering them while the pickers pick.
type resyncOpt struct {
	every      int
	concurrent bool
	touch      bool
}

func (b *tbed) close() { b.ci.Stop() }

func attrsFor(res string) authorizer.Attributes {
	return &authorizer.AttributesRecord{
		User: &user.DefaultInfo{Name: "u"}, Verb: "get", Resource: res, ResourceRequest: true,
		Path: "/api/v1/namespaces/ns/" + res,
	}
}

// ---- picking ----

type pickLog struct {
	counts   map[string]int
	seq      []string // only for single-picker batches
	errs     int
	resyncs  int
	tag      string // scenario feature appended to the signature
	syncErr  string
	firstErr string
	panics   int
	panicMsg string
}

// runBatch makes exactly n picks on policy p with `pickers` goroutines and returns after all of them finished, so the
// picks of consecutive batches are consecutive picks. fresh: obtain a new picker through MatchAttributes for every
// pick (as every real request does) instead of one per goroutine.
func runBatch(b *tbed, res string, n, pickers int, fresh bool, ops *[]porcupine.Operation, index map[string]int, rs resyncOpt) *pickLog {
	if pickers < 1 {
		pickers = 1
	}
	if pickers > n && n > 0 {
		pickers = n
	}
	var resyncs int64
	var syncErr atomic.Value
	doResync := func(touch bool) {
		if err := b.noopResync(touch); err != nil {
			syncErr.Store(err.Error())
		}
		atomic.AddInt64(&resyncs, 1)
	}
	stopSync := make(chan struct{})
	var swg sync.WaitGroup
	if rs.concurrent {
		swg.Add(1)
		go func() {
			defer swg.Done()
			for i := 0; ; i++ {
				select {
				case <-stopSync:
					return
				default:
				}
				doResync(rs.touch && i%2 == 0)
				time.Sleep(time.Duration(10+i%7*15) * time.Microsecond)
			}
		}()
	}
	logs := make([]*pickLog, pickers)
	opss := make([][]porcupine.Operation, pickers)
	var wg sync.WaitGroup
	start := make(chan struct{})
	for g := 0; g < pickers; g++ {
		cnt := n / pickers
		if g < n%pickers {
			cnt++
		}
		lg := &pickLog{counts: map[string]int{}}
		logs[g] = lg
		wg.Add(1)
		go func(g, cnt int, lg *pickLog) {
			defer wg.Done()
			<-start
			at := attrsFor(res)
			var picker clusters.EndpointPicker
			for i := 0; i < cnt; i++ {
				var ep *clusters.EndpointInfo
				var err error
				var call, ret int64
				p := vkit.Safely(func() {
					if picker == nil || fresh {
						picker, err = b.ci.MatchAttributes(at)
						if err != nil {
							return
						}
					}
					call = bed.Now()
					ep, err = picker.Pop()
					ret = bed.Now()
				})
				switch {
				case p != nil:
					lg.panics++
					lg.panicMsg = fmt.Sprint(p)
				case err != nil:
					lg.errs++
					lg.firstErr = err.Error()
				case ep == nil:
					lg.errs++
					lg.firstErr = "nil endpoint without error"
				default:
					lg.counts[ep.Endpoint]++
					if pickers == 1 {
						lg.seq = append(lg.seq, ep.Endpoint)
						if rs.every > 0 && i%rs.every == rs.every-1 {
							doResync(rs.touch && (i/rs.every)%2 == 0)
						}
					}
					if ops != nil {
						out, ok := index[ep.Endpoint]
						if !ok {
							out = -1
						}
						opss[g] = append(opss[g], porcupine.Operation{ClientId: g, Input: 0, Call: call, Output: out, Return: ret})
					}
				}
			}
		}(g, cnt, lg)
	}
	close(start)
	wg.Wait()
	close(stopSync)
	swg.Wait()
	total := &pickLog{counts: map[string]int{}, resyncs: int(atomic.LoadInt64(&resyncs))}
	if e, _ := syncErr.Load().(string); e != "" {
		total.syncErr = e
	}
	for g, lg := range logs {
		for k, v := range lg.counts {
			total.counts[k] += v
		}
		total.errs += lg.errs
		total.panics += lg.panics
		if lg.firstErr != "" {
			total.firstErr = lg.firstErr
		}
		if lg.panicMsg != "" {
			total.panicMsg = lg.panicMsg
		}
		if pickers == 1 {
			total.seq = lg.seq
		}
		if ops != nil {
			*ops = append(*ops, opss[g]...)
		}
	}
	return total
}

func mode(pickers int) string {
	if pickers <= 1 {
		return "sequential"
	}
	return "concurrent"
}

// modeOf adds the scenario feature "no-op re-syncs were delivered during the batch".
func modeOf(pickers int, lg *pickLog) string {
	if lg.resyncs > 0 {
		return mode(pickers) + "+noop-resync" + lg.tag
	}
	return mode(pickers) + lg.tag
}

func fact(k int) int {
	f := 1
	for i := 2; i <= k; i++ {
		f *= i
	}
	return f
}

type batchWitness struct {
	State   *state         `json:"state"`
	Policy  int            `json:"policy"`
	Ready   []string       `json:"ready_list_model"`
	N       int            `json:"picks"`
	Pickers int            `json:"pickers"`
	Fresh   bool           `json:"fresh_picker_per_pick"`
	Counts  map[string]int `json:"counts"`
	Errors  int            `json:"errors"`
	Resyncs int            `json:"noop_resyncs_delivered_during_the_picks"`
	Detail  string         `json:"detail,omitempty"`
	Case    string         `json:"case"`
}

// judge applies the statement to one batch of n consecutive picks. It returns the per-endpoint counts in ready-list order.
func judge(r *vkit.R, st *state, p int, n, pickers int, fresh bool, lg *pickLog, caseID string) {
	ready := st.readyList(p)
	k := len(ready)
	subset := len(st.Policies[p].Subset) > 0
	w := batchWitness{State: st.clone(), Policy: p, Ready: ready, N: n, Pickers: pickers, Fresh: fresh, Counts: lg.counts, Errors: lg.errs, Case: caseID, Resyncs: lg.resyncs}
	if lg.syncErr != "" {
		r.Inconclusive("ClusterInfo.Sync failed for a no-op re-sync: " + lg.syncErr)
		return
	}
	if lg.panics > 0 {
		w.Detail = lg.panicMsg
		r.Violation("C14/pick/panic", fmt.Sprintf("Pop()/MatchAttributes panicked %d times: %s", lg.panics, lg.panicMsg), w)
		return
	}
	if k == 0 {
		r.Count("batches_no_ready_endpoint", 1)
		if len(lg.counts) > 0 {
			// that a picked endpoint is a ready endpoint of the policy is C03's clause; C14 speaks of the shares over a stable
			// ready set, and a pick outside of it makes this batch's evenness verdict void
			r.Count("picks_outside_the_ready_set_not_judged", len(lg.counts))
			r.Count("batches_void_because_of_picks_outside_the_ready_set", 1)
		}
		return
	}
	if lg.errs > 0 {
		w.Detail = lg.firstErr
		r.Violation("C14/pick/refused-with-ready-endpoints", fmt.Sprintf("%d of %d picks failed (%s) although %d endpoints of the policy are ready", lg.errs, n, lg.firstErr, k), w)
		return
	}
	isReady := map[string]bool{}
	for _, e := range ready {
		isReady[e] = true
	}
	for e := range lg.counts {
		if !isReady[e] {
			// C03's clause, not C14's (see above): the batch is void
			r.Count("picks_outside_the_ready_set_not_judged", lg.counts[e])
			r.Count("batches_void_because_of_picks_outside_the_ready_set", 1)
			return
		}
	}
	lo, hi := n/k, (n+k-1)/k
	if subset {
		for _, e := range ready {
			c := lg.counts[e]
			if c < lo || c > hi {
				cls := "uneven"
				if c == 0 && n >= k {
					cls = "starved"
				}
				r.Violation(fmt.Sprintf("C14/subset/%s/%s", cls, modeOf(pickers, lg)),
					fmt.Sprintf("subset policy, %d ready endpoints, %d consecutive picks by %d picker(s): %s was chosen %d times, allowed %d..%d; counts %v", k, n, pickers, e, c, lo, hi, lg.counts), w)
				return
			}
		}
		// single picker: every window of the pick sequence is "N consecutive picks"; all windows are floor/ceil iff every
		// window of length k holds each endpoint exactly once.
		if pickers == 1 && k > 1 {
			for i := 0; i+k <= len(lg.seq); i++ {
				seen := map[string]bool{}
				for _, e := range lg.seq[i : i+k] {
					seen[e] = true
				}
				if len(seen) != k {
					w.Detail = fmt.Sprintf("picks %d..%d: %v", i, i+k-1, lg.seq[i:i+k])
					r.Violation("C14/subset/window/"+modeOf(1, lg),
						fmt.Sprintf("subset policy, %d ready endpoints: the %d consecutive picks starting at pick %d are %v (an endpoint repeated, another skipped)", k, k, i, lg.seq[i:i+k]), w)
					return
				}
			}
		}
		return
	}
	// No subset: the candidate list is a map iteration (sync.Map.Range), so the ready list may arrive in any of at most
	// k! orders; the real code keeps one cursor per distinct ordered list, and each cursor on its own is an exact
	// round-robin. With n_o picks made under order o every endpoint gets floor/ceil(n_o/k) of them, i.e. deviates by
	// less than 1 from n_o/k; summed over at most k! orders the deviation from n/k stays below k!. That is the
	// "constant independent of N" this oracle allows (widening; a random or stuck picker deviates by ~sqrt(N) or N/k).
	bound := float64(fact(k))
	for _, e := range ready {
		c := float64(lg.counts[e])
		dev := c - float64(n)/float64(k)
		if dev < 0 {
			dev = -dev
		}
		if dev > bound {
			cls := "deviation"
			if lg.counts[e] == 0 {
				cls = "starved"
			}
			r.Violation(fmt.Sprintf("C14/nosubset/%s/%s", cls, modeOf(pickers, lg)),
				fmt.Sprintf("policy without subset, %d ready endpoints, %d consecutive picks by %d picker(s): %s was chosen %d times, N/k=%.1f, allowed deviation %d (=k!); counts %v", k, n, pickers, e, lg.counts[e], float64(n)/float64(k), fact(k), lg.counts), w)
			return
		}
	}
}

// ---- generators ----

var pool = []string{"https://10.14.0.1:6443", "https://10.14.0.2:6443", "https://10.14.0.3:6443", "https://10.14.0.4:6443", "https://10.14.0.5:6443", "https://10.14.0.6:6443"}

func genState(g *vkit.Rand, maxServers int) *state {
	st := &state{Disabled: map[string]bool{}, Healthy: map[string]bool{}}
	ns := g.Range(2, maxServers)
	perm := g.Perm(len(pool))
	for i := 0; i < ns; i++ {
		st.Servers = append(st.Servers, pool[perm[i]])
	}
	for _, e := range pool {
		st.Healthy[e] = !g.Chance(0.2)
	}
	for _, e := range st.Servers {
		if g.Chance(0.15) {
			st.Disabled[e] = true
		}
	}
	np := g.Range(1, 4)
	for p := 0; p < np; p++ {
		ps := polSpec{Res: fmt.Sprintf("r%d", p)}
		if p == 0 || g.Chance(0.75) {
			ps.Subset = genSubset(g, st)
		}
		st.Policies = append(st.Policies, ps)
	}
	return st
}

// genSubset draws an ordered list of distinct endpoints, mostly current servers, sometimes one that is not a server now.
func genSubset(g *vkit.Rand, st *state) []string {
	perm := g.Perm(len(st.Servers))
	n := g.Range(1, len(st.Servers))
	if g.Chance(0.5) {
		n = len(st.Servers)
	}
	var out []string
	for i := 0; i < n; i++ {
		out = append(out, st.Servers[perm[i]])
	}
	if g.Chance(0.15) {
		for _, e := range pool {
			if !st.inServers(e) {
				pos := g.Intn(len(out) + 1)
				out = append(out[:pos], append([]string{e}, out[pos:]...)...)
				break
			}
		}
	}
	return out
}

// mutate applies one change to the model and the real ClusterInfo; returns a label.
func mutate(g *vkit.Rand, b *tbed) (string, error) {
	st := b.st
	switch g.Intn(6) {
	case 0, 1:
		e := g.Pick(st.Servers)
		b.setHealthy(e, !st.Healthy[e])
		return "health", nil
	case 2:
		e := g.Pick(st.Servers)
		b.mu.Lock()
		if st.Disabled[e] {
			delete(st.Disabled, e)
		} else {
			st.Disabled[e] = true
		}
		b.mu.Unlock()
		return "disable", b.resync()
	case 3:
		b.mu.Lock()
		lbl := "server-add"
		if len(st.Servers) > 2 && g.Bool() {
			i := g.Intn(len(st.Servers))
			delete(st.Disabled, st.Servers[i])
			st.Servers = append(st.Servers[:i:i], st.Servers[i+1:]...)
			lbl = "server-remove"
		} else {
			for _, e := range pool {
				if !st.inServers(e) {
					st.Servers = append(st.Servers, e)
					break
				}
			}
		}
		b.mu.Unlock()
		return lbl, b.resync()
	case 4:
		b.mu.Lock()
		p := g.Intn(len(st.Policies))
		if g.Chance(0.8) {
			st.Policies[p].Subset = genSubset(g, st)
		} else if p != 0 {
			st.Policies[p].Subset = nil
		}
		b.mu.Unlock()
		return "subset", b.resync()
	default:
		return "none", nil
	}
}

func pickN(g *vkit.Rand, k int, big int) int {
	if k < 1 {
		return g.Range(1, 5)
	}
	switch g.Intn(8) {
	case 0:
		if k > 1 {
			return k - 1
		}
		return 1
	case 1:
		return k
	case 2:
		return k + 1
	case 3:
		return k * g.Range(2, 40)
	case 4:
		return g.Range(1, 60)
	default:
		return g.Range(60, big)
	}
}

var pickerChoices = []int{1, 1, 1, 2, 3, 4, 8, 16, 32}

// ---- sections ----

// histories: random configurations; stable periods separated by one mutation; in each period every policy gets one to
// three barrier-separated batches; policies whose ready sets differ (hence different cursors) pick concurrently.
func histories(r *vkit.R) {
	n := tierN(r, 90, 450)
	steps := tierN(r, 5, 6)
	big := tierN(r, 1500, 3000)
	r.Parallel(n, 6, func(ci int, g *vkit.Rand) {
		st := genState(g, 6)
		b, err := newBed(st)
		if err != nil {
			r.Inconclusive("CreateClusterInfo failed for a generated cluster: " + err.Error())
			return
		}
		defer b.close()
		for s := 0; s < steps; s++ {
			label := "initial"
			if s > 0 {
				var err error
				if label, err = mutate(g, b); err != nil {
					r.Inconclusive("ClusterInfo.Sync failed for a generated update: " + err.Error())
					return
				}
			}
			r.Count("stable_periods", 1)
			r.Count("mutation_"+label, 1)
			snap := b.st.clone()
			// rounds: greedy partition of the policies into groups with pairwise different ready sets
			left := g.Perm(len(snap.Policies))
			for len(left) > 0 {
				var round, rest []int
				used := map[string]bool{}
				for _, p := range left {
					key := setKey(snap.readyList(p))
					// Widening: the real code keeps one cursor per ordered ready list, shared by every policy that has
					// that list at the moment, so picks of two such policies are not "consecutive picks" of either one
					// when interleaved. Policies with equal ready sets therefore never pick in the same round.
					if used[key] {
						rest = append(rest, p)
						continue
					}
					used[key] = true
					round = append(round, p)
				}
				left = rest
				var wg sync.WaitGroup
				for _, p := range round {
					wg.Add(1)
					pg := g.Fork(fmt.Sprint("p", p))
					go func(p int, g *vkit.Rand) {
						defer wg.Done()
						ready := snap.readyList(p)
						k := len(ready)
						subset := len(snap.Policies[p].Subset) > 0
						m := g.Range(1, 3)
						acc := map[string]int{}
						accN := 0
						accResync := false
						for bi := 0; bi < m; bi++ {
							N := pickN(g, k, big)
							P := g.PickInt(pickerChoices)
							fresh := !subset || g.Bool()
							caseID := fmt.Sprintf("histories case=%d step=%d policy=%d batch=%d", ci, s, p, bi)
							// no-op re-syncs inside the stable window: between the picks of a single picker, or concurrently
							var rs resyncOpt
							if g.Chance(0.45) {
								rs.touch = g.Bool()
								if P == 1 {
									rs.every = g.Range(1, k+2)
								} else {
									rs.concurrent = true
								}
							}
							if bi > 0 && g.Chance(0.3) {
								if err := b.noopResync(g.Bool()); err != nil {
									r.Inconclusive("ClusterInfo.Sync failed for a no-op re-sync: " + err.Error())
									return
								}
								accResync = true
							}
							lg := runBatch(b, snap.Policies[p].Res, N, P, fresh, nil, nil, rs)
							if lg.resyncs > 0 {
								accResync = true
								r.Count("batches_with_noop_resyncs", 1)
								r.Count("noop_resyncs", lg.resyncs)
								if len(snap.Disabled) > 0 && k >= 2 {
									r.Count("batches_with_noop_resyncs_and_a_disabled_server_listed", 1)
								}
							}
							r.Eval(1)
							r.Count("picks", N)
							if subset {
								r.Count("batches_subset", 1)
							} else {
								r.Count("batches_nosubset", 1)
							}
							if P > 1 {
								r.Count("batches_concurrent", 1)
							}
							if k >= 2 {
								r.Distinct(vkit.Hash64("h", fmt.Sprint(subset), strings.Join(ready, ","), fmt.Sprint(len(snap.Servers)), fmt.Sprint(N), fmt.Sprint(P)))
								r.Count(fmt.Sprintf("batches_k%d", k), 1)
							}
							before := r.Violations()
							judge(r, snap, p, N, P, fresh, lg, caseID)
							if r.Violations() != before || k == 0 {
								return
							}
							// back-to-back batches on an unchanged state are one longer run of consecutive picks
							for e, c := range lg.counts {
								acc[e] += c
							}
							accN += N
							if bi > 0 && subset {
								r.Count("union_windows", 1)
								lo, hi := accN/k, (accN+k-1)/k
								for _, e := range ready {
									if acc[e] < lo || acc[e] > hi {
										um := mode(P)
										if accResync {
											um += "+noop-resync"
										}
										r.Violation("C14/subset/union-window/"+um,
											fmt.Sprintf("subset policy, %d ready endpoints: over %d consecutive picks made in %d back-to-back batches %s was chosen %d times, allowed %d..%d", k, accN, bi+1, e, acc[e], lo, hi),
											batchWitness{State: snap, Policy: p, Ready: ready, N: accN, Pickers: P, Counts: acc, Case: caseID})
										return
									}
								}
							}
							if r.WantSample() && k >= 2 && ci < 3 {
								r.Sample(map[string]interface{}{"kind": "batch", "servers": len(snap.Servers), "subset": snap.Policies[p].Subset, "ready": ready, "picks": N, "pickers": P, "counts": lg.counts})
							}
						}
					}(p, pg)
				}
				wg.Wait()
			}
		}
	})
}

var bigPool = func() []string {
	var out []string
	for i := 1; i <= 12; i++ {
		out = append(out, fmt.Sprintf("https://10.14.1.%d:6443", i))
	}
	return out
}()

// foreignChanges: while a subset policy with 2..11 ready endpoints (clusters of up to 12 servers) is picking, things that do
// NOT belong to it change: health outcomes and disabled flags of servers outside its subset, the subset order of another
// policy, a further policy appended to / removed from the list. The server list itself stays as it is. The policy's ready
// set is stable throughout, so its picks are still "N consecutive picks while the ready set is stable".
func foreignChanges(r *vkit.R) {
	n := tierN(r, 50, 500)
	r.Parallel(n, 6, func(ci int, g *vkit.Rand) {
		st := &state{Disabled: map[string]bool{}, Healthy: map[string]bool{}}
		ns := g.Range(3, 12)
		if ci%4 == 0 {
			ns = 12 // every fourth case is constructed with 8..11 endpoints in the subset (7..11 of them ready)
		}
		perm := g.Perm(len(bigPool))
		for i := 0; i < ns; i++ {
			st.Servers = append(st.Servers, bigPool[perm[i]])
			st.Healthy[bigPool[perm[i]]] = true
		}
		nSub := g.Range(2, ns-1)
		if ci%4 == 0 {
			nSub = g.Range(8, 11)
		}
		sub := append([]string(nil), st.Servers[:nSub]...)
		outsiders := append([]string(nil), st.Servers[nSub:]...)
		g.Shuffle(sub)
		if nSub > 2 && g.Chance(0.3) {
			st.Healthy[sub[g.Intn(nSub)]] = false
		}
		if nSub > 3 && ci%4 != 0 && g.Chance(0.2) {
			st.Disabled[sub[g.Intn(nSub)]] = true
		}
		st.Policies = []polSpec{{Subset: sub, Res: "r0"}, {Subset: append([]string(nil), outsiders...), Res: "r1"}}
		b, err := newBed(st)
		if err != nil {
			r.Inconclusive("CreateClusterInfo failed: " + err.Error())
			return
		}
		defer b.close()
		snap := st.clone()
		ready := snap.readyList(0)
		k := len(ready)
		acc := map[string]int{}
		accN := 0
		for rd := 0; rd < g.Range(1, 3); rd++ {
			stop := make(chan struct{})
			var applied int64
			var cerr atomic.Value
			var cwg sync.WaitGroup
			cg := g.Fork("changer")
			cwg.Add(1)
			go func() {
				defer cwg.Done()
				for i := 0; ; i++ {
					select {
					case <-stop:
						return
					default:
					}
					o := outsiders[cg.Intn(len(outsiders))]
					resync := true
					b.mu.Lock()
					switch cg.Intn(4) {
					case 0:
						resync = false
					case 1:
						if st.Disabled[o] {
							delete(st.Disabled, o)
						} else {
							st.Disabled[o] = true
						}
					case 2:
						cg.Shuffle(st.Policies[1].Subset)
					default:
						if len(st.Policies) > 2 {
							st.Policies = st.Policies[:2]
						} else {
							st.Policies = append(st.Policies, polSpec{Subset: []string{o}, Res: "zz"})
						}
					}
					b.mu.Unlock()
					if resync {
						if err := b.noopResync(false); err != nil {
							cerr.Store(err.Error())
						}
					} else {
						b.mu.Lock()
						h := !st.Healthy[o]
						b.mu.Unlock()
						b.setHealthy(o, h)
					}
					atomic.AddInt64(&applied, 1)
					time.Sleep(time.Duration(10+cg.Intn(120)) * time.Microsecond)
				}
			}()
			N := pickN(g, k, tierN(r, 1200, 3000))
			P := g.PickInt(pickerChoices)
			lg := runBatch(b, "r0", N, P, g.Bool(), nil, nil, resyncOpt{})
			close(stop)
			cwg.Wait()
			if e, _ := cerr.Load().(string); e != "" {
				r.Inconclusive("ClusterInfo.Sync failed for a change outside the policy: " + e)
				return
			}
			lg.tag = "+foreign-changes"
			r.Eval(1)
			r.Count("picks", N)
			r.Count("batches_with_foreign_changes", 1)
			r.Count("foreign_changes_applied_during_batches", int(atomic.LoadInt64(&applied)))
			if k >= 7 {
				r.Count("batches_with_7_to_11_ready_endpoints", 1)
			}
			r.Distinct(vkit.Hash64("foreign", strings.Join(ready, ","), fmt.Sprint(ns, N, P)))
			before := r.Violations()
			judge(r, snap, 0, N, P, true, lg, fmt.Sprintf("foreign-changes case=%d round=%d", ci, rd))
			if r.Violations() != before || k == 0 {
				return
			}
			for e, c := range lg.counts {
				acc[e] += c
			}
			accN += N
			if rd > 0 {
				lo, hi := accN/k, (accN+k-1)/k
				for _, e := range ready {
					if acc[e] < lo || acc[e] > hi {
						r.Violation("C14/subset/union-window/"+mode(P)+"+foreign-changes",
							fmt.Sprintf("subset policy, %d ready endpoints, changes outside the policy in between: over %d consecutive picks made in %d back-to-back batches %s was chosen %d times, allowed %d..%d", k, accN, rd+1, e, acc[e], lo, hi),
							batchWitness{State: snap, Policy: 0, Ready: ready, N: accN, Pickers: P, Counts: acc, Case: fmt.Sprintf("foreign-changes case=%d", ci)})
						return
					}
				}
			}
		}
	})
	r.Require(r.Counter("batches_with_foreign_changes") >= int64(n) && r.Counter("foreign_changes_applied_during_batches") >= int64(n*3), "too few batches with changes outside the policy")
	r.Require(r.Counter("batches_with_7_to_11_ready_endpoints") >= int64(n/10), "too few batches with 7..11 ready endpoints")
}

// cursorPressure: a long history on ONE cluster without any change of the server list. Policy P lists 2..4 endpoints that
// are ready all the time; policy Q lists 9 other endpoints whose health walks through several hundred different ready
// sets, with a pick on Q (and sometimes on a policy without subset) in every one of them, as traffic would. P's ready set
// is stable, so its picks - made by a single picker all along - must stay a strict rotation (every k-window a
// permutation), and the counts of concurrent batches floor/ceil, however many ready sets the cluster has seen.
func cursorPressure(r *vkit.R) {
	n := tierN(r, 12, 120)
	r.Parallel(n, 6, func(ci int, g *vkit.Rand) {
		st := &state{Disabled: map[string]bool{}, Healthy: map[string]bool{}}
		// 14 servers: P's 2..3, Q's 9, and 2..3 spare ones that are always ready and in no subset, so that the ready set of
		// the policy without subset can never coincide with P's (policies with equal ready lists share a cursor, see the
		// assumptions of this check)
		perm := g.Perm(14)
		for i := 0; i < 14; i++ {
			e := fmt.Sprintf("https://10.14.2.%d:6443", perm[i]+1)
			st.Servers = append(st.Servers, e)
			st.Healthy[e] = true
		}
		kP := g.Range(2, 3)
		subP := append([]string(nil), st.Servers[:kP]...)
		subQ := append([]string(nil), st.Servers[kP:kP+9]...)
		st.Policies = []polSpec{{Subset: subP, Res: "r0"}, {Subset: subQ, Res: "r1"}, {Res: "r2"}}
		b, err := newBed(st)
		if err != nil {
			r.Inconclusive("CreateClusterInfo failed: " + err.Error())
			return
		}
		defer b.close()
		snap := st.clone()
		stop := make(chan struct{})
		var sets int64
		var wg sync.WaitGroup
		wg.Add(1)
		qg := g.Fork("q")
		go func() {
			defer wg.Done()
			defer close(stop)
			atQ, atAll := attrsFor("r1"), attrsFor("r2")
			seen := map[int]bool{}
			bits := 0x1ff
			for i := 0; i < 700; i++ {
				// flip one or two endpoints of Q (never the ones of P)
				for f := qg.Range(1, 2); f > 0; f-- {
					j := qg.Intn(9)
					bits ^= 1 << uint(j)
					b.setHealthy(subQ[j], bits&(1<<uint(j)) != 0)
				}
				if !seen[bits] {
					seen[bits] = true
					atomic.AddInt64(&sets, 1)
				}
				vkit.Safely(func() {
					if p, err := b.ci.MatchAttributes(atQ); err == nil {
						p.Pop() //nolint
					}
					if i%3 == 0 {
						if p, err := b.ci.MatchAttributes(atAll); err == nil {
							p.Pop() //nolint
						}
					}
				})
			}
		}()
		// P: one picker, batch after batch until Q's walk is over; all its picks are one sequence of consecutive picks
		var seq []string
		total := map[string]int{}
		batches := 0
		for done := false; !done; {
			select {
			case <-stop:
				done = true
			default:
			}
			lg := runBatch(b, "r0", 60, 1, batches%2 == 0, nil, nil, resyncOpt{})
			batches++
			seq = append(seq, lg.seq...)
			for e, c := range lg.counts {
				total[e] += c
			}
			if lg.errs > 0 || lg.panics > 0 {
				lg.tag = "+other-policy-flapping"
				judge(r, snap, 0, 60, 1, true, lg, fmt.Sprintf("cursor-pressure case=%d", ci))
				break
			}
		}
		wg.Wait()
		all := &pickLog{counts: total, seq: seq, tag: "+other-policy-flapping"}
		r.Eval(1)
		r.Count("picks", len(seq))
		r.Count("cursor_pressure_cases", 1)
		r.Count("cursor_pressure_distinct_ready_sets_of_the_other_policy", int(atomic.LoadInt64(&sets)))
		if atomic.LoadInt64(&sets) > 300 {
			r.Count("cursor_pressure_cases_with_more_than_300_ready_sets", 1)
		}
		r.Distinct(vkit.Hash64("pressure", strings.Join(subP, ","), fmt.Sprint(len(seq))))
		judge(r, snap, 0, len(seq), 1, true, all, fmt.Sprintf("cursor-pressure case=%d (%d ready sets of the other policy, %d picks)", ci, atomic.LoadInt64(&sets), len(seq)))
	})
	r.Require(r.Counter("cursor_pressure_cases_with_more_than_300_ready_sets") >= int64(n*3/4), "too few long histories in which another policy went through more than 300 ready sets")
}

// endToEnd: the same statement observed where it matters, at the upstreams: a real gateway (controller, health checker,
// handler chain) in front of K stub upstreams, a stable ready set, N requests of one policy sent one after the other or
// by several clients with a barrier at the end; the per-stub arrival counts (by unique request id) must be
// floor(N/k)..ceil(N/k) for a subset policy and within k! of N/k otherwise - one request is one pick.
func endToEnd(r *vkit.R) {
	n := tierN(r, 16, 160)
	r.Parallel(n, 8, func(ci int, g *vkit.Rand) {
		K := []int{2, 4, 2, 3, 4, 5}[ci%6]
		var stubs []*bed.Stub
		st := &state{Disabled: map[string]bool{}, Healthy: map[string]bool{}}
		for i := 0; i < K; i++ {
			s := bed.NewStub(fmt.Sprintf("c14e-%d-%d", ci, i))
			defer s.Close()
			stubs = append(stubs, s)
			st.Servers = append(st.Servers, s.URL)
			st.Healthy[s.URL] = true
		}
		unhealthy := -1
		if K >= 3 && g.Chance(0.4) { // one endpoint not ready: k = K-1
			unhealthy = g.Intn(K)
			stubs[unhealthy].SetHealth(bed.Health500)
			st.Healthy[stubs[unhealthy].URL] = false
		}
		sub := append([]string(nil), st.Servers...)
		g.Shuffle(sub)
		st.Policies = []polSpec{{Subset: sub, Res: "r0"}, {Res: "r1"}}
		gw := bed.NewGateway(bed.GatewayOptions{}).Start()
		defer gw.Close()
		tok := gw.Tokens.Add(&user.DefaultInfo{Name: "c14-user", Groups: []string{"system:authenticated"}})
		host := fmt.Sprintf("c14e-%d.test", ci)
		var ps []proxyv1alpha1.DispatchPolicy
		for _, p := range st.Policies {
			ps = append(ps, proxyv1alpha1.DispatchPolicy{Strategy: proxyv1alpha1.RoundRobin, UpstreamSubset: p.Subset,
				Rules: []proxyv1alpha1.DispatchPolicyRule{{Verbs: []string{"*"}, APIGroups: []string{"*"}, Resources: []string{p.Res}}}})
		}
		obj := bed.BuildCluster(bed.ClusterSpec{Name: host, Servers: st.Servers, Policies: ps, Token: fmt.Sprintf("gwt-c14e-%d", ci)})
		if sr := gw.Apply(obj); sr.Err != nil || sr.Panic != nil || sr.Requeue {
			r.Inconclusive(fmt.Sprintf("end-to-end: controller did not apply the cluster: %+v", sr))
			return
		}
		for i, s := range stubs {
			if i != unhealthy && !gw.WaitReady(host, s.URL, true, 30*time.Second) {
				r.Inconclusive("end-to-end: stub endpoint did not become ready within the watchdog")
				return
			}
		}
		if unhealthy >= 0 {
			// the first probe of the unhealthy one must have been answered, so that the ready set does not change later
			if !vkit.WaitFor(30*time.Second, func() bool { return stubs[unhealthy].ProbeCount() > 0 }) {
				r.Inconclusive("end-to-end: no probe reached the unhealthy stub")
				return
			}
			time.Sleep(20 * time.Millisecond)
		}
		nid := 0
		for bi := 0; bi < 3; bi++ {
			p := g.Intn(2)
			ready := st.readyList(p)
			k := len(ready)
			N := []int{k, 2 * k, k + 1, g.Range(10, 60), g.Range(60, 200)}[g.Intn(5)]
			if p == 1 {
				N = k * (3*fact(k) + g.Range(5, 30))
			}
			P := []int{1, 1, 2, 4, 8}[g.Intn(5)]
			prefix := fmt.Sprintf("c14e-%d-%d-", ci, bi)
			var wg sync.WaitGroup
			var failed int64
			ids := make(chan string, N)
			for i := 0; i < N; i++ {
				nid++
				ids <- fmt.Sprintf("%s%d", prefix, nid)
			}
			close(ids)
			for w := 0; w < P; w++ {
				wg.Add(1)
				go func() {
					defer wg.Done()
					for id := range ids {
						resp := gw.Do(bed.NewRequest("GET", host, "/api/v1/namespaces/ns/"+st.Policies[p].Res, tok, id, nil))
						if resp.Err != nil || resp.Status != 200 {
							atomic.AddInt64(&failed, 1)
						}
					}
				}()
			}
			wg.Wait()
			lg := &pickLog{counts: map[string]int{}, tag: "+through-the-gateway"}
			arrived := 0
			for _, s := range stubs {
				for _, sn := range s.SeenAll() {
					if strings.HasPrefix(sn.ID, prefix) {
						lg.counts[s.URL]++
						arrived++
					}
				}
			}
			r.Eval(1)
			r.Count("end_to_end_batches", 1)
			r.Count("end_to_end_requests", N)
			if k%2 == 0 {
				r.Count("end_to_end_batches_with_an_even_number_of_ready_endpoints", 1)
			}
			r.Distinct(vkit.Hash64("e2e", fmt.Sprint(K, k, p, N, P)))
			if failed > 0 || arrived != N {
				// a request that was not answered 200 or did not arrive exactly once: the batch is not N picks; not judged here
				r.Count("end_to_end_batches_not_judged", 1)
				continue
			}
			judge(r, st, p, N, P, true, lg, fmt.Sprintf("end-to-end case=%d batch=%d K=%d", ci, bi, K))
		}
	})
	r.Require(r.Counter("end_to_end_batches")-r.Counter("end_to_end_batches_not_judged") >= int64(n*3*9/10), "too few end-to-end batches judged")
	r.Require(r.Counter("end_to_end_batches_with_an_even_number_of_ready_endpoints") >= int64(n), "too few end-to-end batches with an even number of ready endpoints")
}

// duplicateInSubset: the policy's upstream subset names one endpoint TWICE (validation only demands that every entry is a
// server; a patch that appends instead of replacing produces such lists). The statement speaks of "each of its k
// endpoints": the endpoints are the distinct ones, so each of them gets floor(N/k)..ceil(N/k) of N consecutive picks and
// none is favoured for being written twice.
func duplicateInSubset(r *vkit.R) {
	n := tierN(r, 24, 240)
	r.Parallel(n, 6, func(ci int, g *vkit.Rand) {
		st := &state{Disabled: map[string]bool{}, Healthy: map[string]bool{}}
		perm := g.Perm(len(pool))
		ns := g.Range(2, 5)
		for i := 0; i < ns; i++ {
			st.Servers = append(st.Servers, pool[perm[i]])
			st.Healthy[pool[perm[i]]] = true
		}
		distinct := append([]string(nil), st.Servers[:g.Range(2, ns)]...)
		g.Shuffle(distinct)
		dup := distinct[g.Intn(len(distinct))]
		withDup := append([]string(nil), distinct...)
		pos := g.Intn(len(withDup) + 1)
		withDup = append(withDup[:pos:pos], append([]string{dup}, withDup[pos:]...)...)
		// the real object carries the duplicate; the model (and the oracle) knows the distinct endpoints
		st.Policies = []polSpec{{Subset: withDup, Res: "r0"}}
		b, err := newBed(st)
		if err != nil {
			r.Inconclusive("CreateClusterInfo failed: " + err.Error())
			return
		}
		defer b.close()
		model := st.clone()
		model.Policies[0].Subset = distinct
		k := len(distinct)
		N := k * g.Range(2, 40)
		P := g.PickInt(pickerChoices)
		lg := runBatch(b, "r0", N, P, g.Bool(), nil, nil, resyncOpt{})
		lg.tag = "+endpoint-listed-twice-in-subset"
		lg.seq = nil // the window argument is about the distinct endpoints' counts only
		r.Eval(1)
		r.Count("picks", N)
		r.Count("batches_on_a_subset_that_lists_an_endpoint_twice", 1)
		r.Distinct(vkit.Hash64("dup", strings.Join(withDup, ","), fmt.Sprint(N, P)))
		judge(r, model, 0, N, P, true, lg, fmt.Sprintf("duplicate-in-subset case=%d subset as written=%v", ci, withDup))
	})
	r.Require(r.Counter("batches_on_a_subset_that_lists_an_endpoint_twice") >= int64(n), "too few batches on a subset that lists an endpoint twice")
}

// addDuringPicks: pickers are running (fresh picker per pick, as every request does) WHILE a sync adds a server to a
// policy without subset. The picks made during the sync are not judged (the ready set is changing). Afterwards the new
// endpoint is ready and a stable window opens: every ready endpoint, including the new one, must get its share
// (|count - N/k| <= k!, in particular more than nothing), whatever the concurrent picks did during the sync.
func addDuringPicks(r *vkit.R) {
	n := tierN(r, 60, 600)
	r.Parallel(n, 6, func(ci int, g *vkit.Rand) {
		st := &state{Disabled: map[string]bool{}, Healthy: map[string]bool{}}
		perm := g.Perm(len(pool))
		ns := g.Range(1, 3)
		for i := 0; i < ns; i++ {
			st.Servers = append(st.Servers, pool[perm[i]])
		}
		for _, e := range pool {
			st.Healthy[e] = true
		}
		st.Policies = []polSpec{{Res: "r0"}}
		b, err := newBed(st)
		if err != nil {
			r.Inconclusive("CreateClusterInfo failed: " + err.Error())
			return
		}
		defer b.close()
		rounds := g.Range(1, 2)
		for rd := 0; rd < rounds && len(st.Servers) < 4; rd++ {
			var picks int64
			stop := make(chan struct{})
			var wg sync.WaitGroup
			P := g.Range(2, 8)
			for i := 0; i < P; i++ {
				wg.Add(1)
				go func() {
					defer wg.Done()
					at := attrsFor("r0")
					for {
						select {
						case <-stop:
							return
						default:
						}
						vkit.Safely(func() {
							if p, err := b.ci.MatchAttributes(at); err == nil {
								p.Pop() //nolint
							}
						})
						atomic.AddInt64(&picks, 1)
					}
				}()
			}
			vkit.WaitFor(5*time.Second, func() bool { return atomic.LoadInt64(&picks) >= 40 })
			before := atomic.LoadInt64(&picks)
			b.mu.Lock()
			st.Servers = append(st.Servers, pool[perm[len(st.Servers)]])
			b.mu.Unlock()
			err := b.resync()
			during := atomic.LoadInt64(&picks) - before
			for t := bed.Now() + int64(g.Range(0, 300))*1000; bed.Now() < t; {
			}
			close(stop)
			wg.Wait()
			if err != nil {
				r.Inconclusive("ClusterInfo.Sync failed for an update that adds a server: " + err.Error())
				return
			}
			r.Count("server_additions_during_picks", 1)
			r.Count("picks_made_while_a_server_was_being_added", int(during))
			if during > 0 {
				r.Count("server_additions_overlapped_by_picks", 1)
			}
			snap := st.clone()
			ready := snap.readyList(0)
			k := len(ready)
			N := k * (3*fact(k) + g.Range(10, 200))
			P2 := g.PickInt(pickerChoices)
			lg := runBatch(b, "r0", N, P2, true, nil, nil, resyncOpt{})
			lg.tag = "+server-added-during-picks"
			r.Eval(1)
			r.Count("picks", N)
			r.Count("batches_after_server_addition", 1)
			r.Distinct(vkit.Hash64("add", strings.Join(ready, ","), fmt.Sprint(N), fmt.Sprint(P), fmt.Sprint(P2)))
			before2 := r.Violations()
			judge(r, snap, 0, N, P2, true, lg, fmt.Sprintf("add-during-picks case=%d round=%d", ci, rd))
			if r.Violations() != before2 {
				return
			}
		}
	})
	r.Require(r.Counter("server_additions_overlapped_by_picks") >= int64(n/2), "too few server additions were overlapped by concurrent picks")
}

var (
	linStop, linIllegal int32
	linSlowest          int64
)

// linModel: fetch-and-increment modulo k; the state is the index of the last pick (-1 = not known yet).
func linModel(k int) porcupine.Model {
	return porcupine.Model{
		Init: func() interface{} { return -1 },
		Step: func(state, input, output interface{}) (bool, interface{}) {
			s, o := state.(int), output.(int)
			if o < 0 || o >= k {
				return false, s
			}
			if s == -1 {
				return true, o
			}
			return o == (s+1)%k, o
		},
		Equal: func(a, b interface{}) bool { return a.(int) == b.(int) },
	}
}

// linHistories: short concurrent histories on one subset policy, checked for linearizability against the sequential
// round-robin (so a duplicated or skipped cursor value is caught even when the totals happen to look even).
func linHistories(r *vkit.R) {
	n := tierN(r, 200, 4000)
	r.Parallel(n, 8, func(ci int, g *vkit.Rand) {
		st := &state{Disabled: map[string]bool{}, Healthy: map[string]bool{}}
		ns := g.Range(2, 6)
		perm := g.Perm(len(pool))
		for i := 0; i < ns; i++ {
			st.Servers = append(st.Servers, pool[perm[i]])
			st.Healthy[pool[perm[i]]] = true
		}
		if ns > 2 && g.Chance(0.4) {
			st.Healthy[st.Servers[g.Intn(ns)]] = false
		}
		if ns > 3 && g.Chance(0.3) {
			st.Disabled[st.Servers[g.Intn(ns)]] = true
		}
		sub := append([]string(nil), st.Servers...)
		g.Shuffle(sub)
		st.Policies = []polSpec{{Subset: sub, Res: "r0"}}
		ready := st.readyList(0)
		k := len(ready)
		if k < 2 {
			r.Count("lin_skipped_k_lt_2", 1)
			return
		}
		b, err := newBed(st)
		if err != nil {
			r.Inconclusive("CreateClusterInfo failed: " + err.Error())
			return
		}
		defer b.close()
		index := map[string]int{}
		for i, e := range ready {
			index[e] = i
		}
		P := g.Range(2, 8)
		N := g.Range(P, 60)
		var ops []porcupine.Operation
		var rs resyncOpt
		if g.Chance(0.35) {
			rs = resyncOpt{concurrent: true, touch: g.Bool()}
		}
		lg := runBatch(b, "r0", N, P, g.Bool(), &ops, index, rs)
		if lg.resyncs > 0 {
			r.Count("lin_histories_with_noop_resyncs", 1)
		}
		r.Eval(1)
		r.Count("lin_histories", 1)
		r.Count("lin_ops", len(ops))
		r.Distinct(vkit.Hash64("lin", strings.Join(ready, ","), fmt.Sprint(N), fmt.Sprint(P)))
		before := r.Violations()
		judge(r, st, 0, N, P, false, lg, fmt.Sprintf("lin case=%d", ci))
		if r.Violations() != before {
			return
		}
		overlap := 0
		for i := range ops {
			for j := range ops {
				if i != j && ops[i].Call < ops[j].Return && ops[j].Call < ops[i].Return {
					overlap++
					break
				}
			}
		}
		r.Count("lin_ops_overlapping_another", overlap)
		// The search is fast on linearizable histories (all of them on correct code) but may need its whole time budget on a
		// history that is not. Once the run has its verdict there is no point in waiting for more of them: after 3
		// non-linearizable histories or one time-out the remaining histories are only judged by their counts.
		if atomic.LoadInt32(&linStop) != 0 {
			r.Count("lin_histories_not_searched_after_the_run_had_its_verdict", 1)
			return
		}
		t0 := bed.Now()
		res := vkit.CheckLin(linModel(k), ops, 10*time.Second)
		if d := bed.Now() - t0; d > atomic.LoadInt64(&linSlowest) {
			atomic.StoreInt64(&linSlowest, d)
		}
		switch res {
		case vkit.LinIllegal:
			if atomic.AddInt32(&linIllegal, 1) >= 3 {
				atomic.StoreInt32(&linStop, 1)
			}
			type opw struct {
				Client int   `json:"client"`
				Call   int64 `json:"call_ns"`
				Ret    int64 `json:"ret_ns"`
				Index  int   `json:"index"`
			}
			var hw []opw
			for _, o := range ops {
				hw = append(hw, opw{o.ClientId, o.Call, o.Return, o.Output.(int)})
			}
			r.Violation("C14/lin/subset/not-linearizable",
				fmt.Sprintf("history of %d concurrent picks by %d pickers over %d ready endpoints is not linearizable w.r.t. fetch-and-increment mod k (a cursor value was duplicated or skipped); counts %v", len(ops), P, k, lg.counts),
				map[string]interface{}{"state": st, "ready": ready, "history": hw})
		case vkit.LinUnknown:
			atomic.StoreInt32(&linStop, 1)
			r.Inconclusive("porcupine timed out (10 s) on a <=60-operation history")
		}
	})
}

var (
	devMu  sync.Mutex
	devMax = map[int]float64{}
)

// largeNoSubset: policies without subset, fresh picker per pick, N large enough that the k! bound separates a
// round-robin (deviation < k!) from a random (~sqrt(N)) or stuck (N/k) picker.
func largeNoSubset(r *vkit.R) {
	n := tierN(r, 10, 60)
	r.Parallel(n, 4, func(ci int, g *vkit.Rand) {
		st := &state{Disabled: map[string]bool{}, Healthy: map[string]bool{}}
		ns := g.Range(2, 5)
		perm := g.Perm(len(pool))
		for i := 0; i < ns; i++ {
			st.Servers = append(st.Servers, pool[perm[i]])
			st.Healthy[pool[perm[i]]] = true
		}
		// at most 4 ready
		if ns == 5 {
			if g.Bool() {
				st.Healthy[st.Servers[g.Intn(ns)]] = false
			} else {
				st.Disabled[st.Servers[g.Intn(ns)]] = true
			}
		} else if ns > 2 && g.Chance(0.3) {
			st.Healthy[st.Servers[g.Intn(ns)]] = false
		}
		st.Policies = []polSpec{{Res: "r0"}}
		ready := st.readyList(0)
		k := len(ready)
		b, err := newBed(st)
		if err != nil {
			r.Inconclusive("CreateClusterInfo failed: " + err.Error())
			return
		}
		defer b.close()
		batches := g.Range(1, 2)
		for bi := 0; bi < batches; bi++ {
			// N >= 2500 * k!: a fair random picker deviates by ~sqrt(N(k-1))/k which is > k! for these N when k<=4
			N := tierN(r, 40000, 250000) + g.Intn(1000)
			P := g.PickInt([]int{1, 2, 4, 8, 16, 32})
			lg := runBatch(b, "r0", N, P, true, nil, nil, resyncOpt{})
			r.Eval(1)
			r.Count("picks", N)
			r.Count("large_nosubset_batches", 1)
			r.Count(fmt.Sprintf("large_nosubset_k%d", k), 1)
			r.Distinct(vkit.Hash64("big", strings.Join(ready, ","), fmt.Sprint(N), fmt.Sprint(P)))
			maxDev := 0.0
			for _, e := range ready {
				d := float64(lg.counts[e]) - float64(N)/float64(k)
				if d < 0 {
					d = -d
				}
				if d > maxDev {
					maxDev = d
				}
			}
			devMu.Lock()
			if maxDev > devMax[k] {
				devMax[k] = maxDev
			}
			devMu.Unlock()
			r.Sample(map[string]interface{}{"kind": "large-nosubset", "ready": k, "picks": N, "pickers": P, "counts": lg.counts, "max_deviation": maxDev, "allowed": fact(k)})
			judge(r, st, 0, N, P, true, lg, fmt.Sprintf("large case=%d batch=%d", ci, bi))
		}
	})
}

// sharedCursor is a NON-DECIDING observation: two subset policies with the same ordered ready list share one cursor in
// the real code (the cursor is keyed by the ready list, see the property's anchors: "round-robin cursor per ready set").
// When their picks alternate strictly, each policy on its own always lands on the same endpoint while the endpoints
// still get equal load overall. The statement can be read per policy or per ready set; the reading per ready set is the
// one the anchors describe, so this is recorded in the evidence only.
func sharedCursor(r *vkit.R) {
	st := &state{Disabled: map[string]bool{}, Healthy: map[string]bool{}}
	st.Servers = []string{pool[0], pool[1]}
	st.Healthy[pool[0]], st.Healthy[pool[1]] = true, true
	st.Policies = []polSpec{{Subset: []string{pool[0], pool[1]}, Res: "r0"}, {Subset: []string{pool[0], pool[1]}, Res: "r1"}}
	b, err := newBed(st)
	if err != nil {
		return
	}
	defer b.close()
	ca, cb := map[string]int{}, map[string]int{}
	for i := 0; i < 100; i++ {
		la := runBatch(b, "r0", 1, 1, true, nil, nil, resyncOpt{})
		lb := runBatch(b, "r1", 1, 1, true, nil, nil, resyncOpt{})
		for e, c := range la.counts {
			ca[e] += c
		}
		for e, c := range lb.counts {
			cb[e] += c
		}
	}
	r.Set("observation_shared_cursor_two_policies_alternating", map[string]interface{}{"policy0": ca, "policy1": cb,
		"note": "non-deciding: per-policy skew when two policies with the same ready list alternate; per-endpoint load stays even"})
	if judgeSharedCursor {
		for p, c := range []map[string]int{ca, cb} {
			for _, e := range st.Servers {
				if c[e] != 50 {
					r.Violation("C14/shared-cursor/per-policy-uneven",
						fmt.Sprintf("two subset policies with the same ready list, picks strictly alternating between them: policy %d chose %s %d times out of 100 (expected 50); the cursor is shared between policies", p, e, c[e]),
						map[string]interface{}{"state": st, "policy0": ca, "policy1": cb})
					return
				}
			}
		}
	}
}

// judgeSharedCursor turns the observation above into a verdict (reading "consecutive picks" per policy even while another
// policy with the same ready list is picking). Off: the property's anchors describe the cursor as "per ready set".
const judgeSharedCursor = false

func TestCheck(t *testing.T) {
	vkit.Run(t, "C14", "exploration", func(r *vkit.R) {
		r.Rule("Real ClusterInfo (CreateClusterInfo + Sync) with 2..6 servers from a pool of 6, scripted health/disabled flags, 1..4 policies (ordered subsets, " +
			"subsets naming a non-server, no subset); pickers obtained through MatchAttributes like the dispatcher. (1) seeded histories: stable periods separated by one " +
			"mutation (health flip, disable flip through Sync, server add/remove, subset change); per period each policy makes 1..3 barrier-separated batches of N picks " +
			"(N in {k-1,k,k+1,multiples,random}) with 1..32 pickers; oracle per batch and per union of back-to-back batches: subset policy -> each ready endpoint floor(N/k)..ceil(N/k), " +
			"every k-window of a single-picker sequence a permutation; no subset -> |count-N/k|<=k!; only ready endpoints of the policy returned; (2) <=60-pick concurrent " +
			"histories checked with porcupine against fetch-and-increment mod k; (3) large-N batches on policies without subset, k<=4, fresh picker per pick. " +
			"In 45% of the batches no-op re-syncs (same object, or an object whose annotation / logging mode / flow-control schema changed while servers, disabled flags and policies did not) are delivered through ClusterInfo.Sync between the picks of a single picker or concurrently with the pickers, and in 30% between back-to-back batches: the ready set is unchanged, so the same oracle applies. " +
			"(6) cursorPressure: a single picker on a stable subset policy while another policy of the same cluster walks through >300 ready sets with picks in each; (7) endToEnd: real gateway + 2..5 stubs, per-stub arrival counts of N requests under the same bounds. (5) clusters of up to 12 servers: a subset policy with 2..11 ready endpoints picks while health / disabled flags of servers outside its subset, another policy's subset order and the policy list change. (4) picker goroutines run WHILE a sync adds a server to a policy without subset; then the new endpoint is ready and a stable batch must give every ready endpoint incl. the new one its share. Non-trivial = k>=2 ready endpoints; distinct = hash(kind, ready list, servers, N, pickers). Every-statement schedule points in clusterinfo.go perturb the interleaving.")
		r.Assume("a policy's picks are judged only while no other policy with the same ready set is picking (the implementation keeps one cursor per ready list, as the property's anchors describe)")
		r.Assume("windows of consecutive picks are not extended across a spec or readiness change of the cluster (a server-list change restarts the cursors)")

		if racePass {
			os.Setenv("VERIF_NO_EVIDENCE", "1")
		}
		seed := uint64(r.Seed)
		vkit.Sched.Enable(seed, 0.05, 0.02, 0.002)
		histories(r)
		linHistories(r)
		addDuringPicks(r)
		foreignChanges(r)
		cursorPressure(r)
		duplicateInSubset(r)
		endToEnd(r)
		vkit.Sched.Enable(seed+1, 0.01, 0.002, 0.00005)
		largeNoSubset(r)
		vkit.Sched.Disable()
		for k, d := range devMax {
			r.Set(fmt.Sprintf("large_nosubset_max_abs_deviation_k%d_allowed_%d", k, fact(k)), d)
		}
		sharedCursor(r)
		r.ReportSched()

		r.Require(r.Counter("batches_subset") >= int64(tierN(r, 300, 1800)), "too few subset batches evaluated")
		r.Require(r.Counter("batches_concurrent") >= int64(tierN(r, 150, 900)), "too few concurrent batches evaluated")
		r.Set("lin_slowest_search_ms", float64(atomic.LoadInt64(&linSlowest))/1e6)
		r.Require(r.Counter("lin_histories")-r.Counter("lin_histories_not_searched_after_the_run_had_its_verdict") >= int64(tierN(r, 120, 2400)) || atomic.LoadInt32(&linStop) != 0, "too few linearizability histories")
		r.Require(r.Counter("batches_with_noop_resyncs_and_a_disabled_server_listed") >= int64(tierN(r, 80, 500)), "too few batches with no-op re-syncs on a cluster that lists a disabled server")
		r.Require(r.Counter("batches_void_because_of_picks_outside_the_ready_set")*20 <= r.Counter("batches_subset")+r.Counter("batches_nosubset"), "more than 5% of the batches were void because picks fell outside the expected ready set")
		r.Require(r.Counter("lin_ops_overlapping_another") > 0, "no overlapping picks were observed in the linearizability histories")
		r.Require(r.Counter("large_nosubset_batches") >= int64(tierN(r, 10, 60)), "too few large batches on policies without subset")
		r.Require(r.Counter("batches_k2")+r.Counter("batches_k3")+r.Counter("batches_k4")+r.Counter("batches_k5")+r.Counter("batches_k6") >= int64(tierN(r, 200, 1200)), "too few batches with k>=2 ready endpoints")
	})
}
