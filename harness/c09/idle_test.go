package c09

import (
	"fmt"
	"sync"
	"sync/atomic"
	"time"

	proxyv1alpha1 "github.com/kubewharf/kubegateway/pkg/apis/proxy/v1alpha1"

	"verifharness/bed"
	"verifharness/vkit"
)

// ---------------------------------------------------------------------------------------------------------------------
// (G) idle flows, count strategy, real worker, healthy server all the time (it answers every request it receives with
// "accepted, everything you asked for", never an error).
//
// The limiter server "failing" is the only licence for the local fallback. A flow that merely goes idle (no request for
// longer than the counter's 4-6 s reset check) must still be on the server-granted quota when traffic comes back, and stay
// on it. The local limit is chosen far below what the server grants, so the two are easy to tell apart, and only a
// generous fraction is demanded:
//   token bucket  : global 900-1200 qps (the instance's token reserve, 5 %, is >= 45), local 5-8 qps / burst 5.
//                   warm-up traffic, a first burst of 40 back-to-back requests (precondition: >= 35 admitted), NO attempt
//                   for 9 s, a second burst of 40, 3 s pause, a third burst. Verdict: a later burst admits < 20 of 40
//                   (the local bucket gives ~5) although the server never answered an error.
//   max in flight : global 12, local 1; warm-up, 9 s idle, then 8 callers holding 20 ms each for 2.5 s.
//                   Verdict: never more than 2 in flight at once in that time (the local limit is 1; the server accepts
//                   every ask).
// The stub logs every acquire request; the longest gap without any request while the flow is idle is written down
// (a gap > 4 s is what lets the reset check fire) but not judged.
// ---------------------------------------------------------------------------------------------------------------------

const idleFor = 9 * time.Second

func idlePhase(r *vkit.R, g *vkit.Rand) {
	var cfgs []schemaCfg
	count := string(proxyv1alpha1.GlobalCountLimit)
	for i := 0; i < r.N(2, 8); i++ {
		G := int32(g.Range(900, 1200))
		cfgs = append(cfgs, schemaCfg{Strategy: count, Type: "tokenbucket", G: G, GB: G, L: int32(g.Range(5, 8)), LB: 5})
	}
	for i := 0; i < r.N(1, 4); i++ {
		cfgs = append(cfgs, schemaCfg{Strategy: count, Type: "maxinflight", G: 12, L: 1})
	}
	var wg sync.WaitGroup
	for i := range cfgs {
		cfg, rng := cfgs[i], g.Sub(i)
		wg.Add(1)
		go func() {
			defer wg.Done()
			runIdle(r, cfg, rng)
		}()
	}
	wg.Wait()
}

func runIdle(r *vkit.R, cfg schemaCfg, g *vkit.Rand) {
	isTB := cfg.Type == "tokenbucket"
	gw := newGateway(cfg, "gw-idle", 1)
	defer gw.close()
	var (
		mu      sync.Mutex
		reqAt   []int64
		asked   int64
		errored int64 // answers with an error: always 0, the server is healthy
	)
	gw.cs.setAcquire(func(req *proxyv1alpha1.RateLimitAcquire) (*proxyv1alpha1.RateLimitAcquire, error) {
		mu.Lock()
		reqAt = append(reqAt, bed.Now())
		mu.Unlock()
		out := req.DeepCopy()
		for _, rq := range req.Spec.Requests {
			atomic.AddInt64(&asked, int64(rq.Tokens))
			out.Status.Results = append(out.Status.Results, proxyv1alpha1.RateLimitAcquireResult{FlowControl: rq.FlowControl, Accept: true, Limit: rq.Tokens})
		}
		return out, nil
	})
	gw.cs.setAllocate(func(req *proxyv1alpha1.RateLimitCondition) (*proxyv1alpha1.RateLimitCondition, error) {
		return allocReply(req), nil
	})
	gw.cs.setReady(true)
	if p := vkit.Safely(func() { gw.reconcileOnce() }); p != nil {
		r.Violation(fmt.Sprintf("C09/count-%s/panic/reconcile", cfg.Type), fmt.Sprintf("reconcile panicked: %v", p), cfg)
		return
	}
	r.Eval(1)
	r.Distinct(vkit.Hash64(fmt.Sprintf("idle|%+v", cfg)))
	r.Count("idle_limiters_"+cfg.Type, 1)

	// maxGap: the longest time without an acquire request inside [from, to]
	maxGap := func(from, to int64) float64 {
		mu.Lock()
		defer mu.Unlock()
		last, worst := from, int64(0)
		for _, t := range reqAt {
			if t < from || t > to {
				continue
			}
			if t-last > worst {
				worst = t - last
			}
			last = t
		}
		if to-last > worst {
			worst = to - last
		}
		return float64(worst) / 1e9
	}
	nReq := func() int {
		mu.Lock()
		defer mu.Unlock()
		return len(reqAt)
	}
	traffic := func(d time.Duration, every time.Duration) {
		end := time.Now().Add(d)
		for time.Now().Before(end) {
			vkit.Safely(func() {
				fc := gw.fc()
				if fc.TryAcquire() {
					fc.Release()
				}
			})
			time.Sleep(every)
		}
	}

	if isTB {
		burst := func() (n int, dt float64) {
			t0 := bed.Now()
			vkit.Safely(func() {
				fc := gw.fc()
				for i := 0; i < 40; i++ {
					if fc.TryAcquire() {
						n++
						fc.Release()
					}
				}
			})
			return n, float64(bed.Now()-t0) / 1e9
		}
		traffic(1500*time.Millisecond, 5*time.Millisecond)
		time.Sleep(1500 * time.Millisecond) // the worker fills the reserve
		b1, _ := burst()
		if b1 < 35 {
			// the server-granted quota never got into effect in the first place: not this scenario's subject
			r.Inconclusive(fmt.Sprintf("idle scenario: the first burst admitted only %d/40 although the healthy server grants everything (reserve not filled?)", b1))
			return
		}
		idleFrom := bed.Now()
		time.Sleep(idleFor)
		idleTo := bed.Now()
		b2, dt2 := burst()
		time.Sleep(3 * time.Second)
		b3, dt3 := burst()
		gap := maxGap(idleFrom, idleTo)
		obs := map[string]interface{}{"schema": cfg, "firstBurst": b1, "burstAfterIdle": b2, "burstAfterIdleSeconds": dt2, "burst3sLater": b3, "burst3sLaterSeconds": dt3,
			"idleSeconds": float64(idleTo-idleFrom) / 1e9, "longestGapWithoutAcquireRequestWhileIdle": gap, "acquireRequests": nReq(), "tokensAsked": atomic.LoadInt64(&asked), "errorAnswers": errored}
		r.Set(fmt.Sprintf("idle_observation_tokenbucket_g%d", cfg.G), obs)
		r.Count("idle_checks", 1)
		if gap > 4 {
			r.Count("idle_resync_gap_over_4s_observed", 1)
		}
		if b2 < 20 || b3 < 20 {
			when := "right after the idle period"
			if b2 >= 20 {
				when = "3 s after the idle period"
			}
			r.Violation("C09/count-tokenbucket/spurious-fallback/after-idle",
				fmt.Sprintf("token-bucket schema local=(%d qps, burst %d) global=(%d qps, burst %d), count strategy, real worker, healthy server (every request answered 'accepted', no error ever): a burst of 40 requests was admitted %d/40 before the flow went idle for %.0f s, %d/40 right after it and %d/40 three seconds later: %s the instance is on its local limit although its limiter server never failed (longest gap without any acquire request while idle: %.1f s)",
					cfg.L, cfg.LB, cfg.G, cfg.GB, b1, float64(idleTo-idleFrom)/1e9, b2, b3, when, gap), obs)
		}
		return
	}

	// max in flight
	traffic(1500*time.Millisecond, 5*time.Millisecond)
	idleFrom := bed.Now()
	time.Sleep(idleFor)
	idleTo := bed.Now()
	var cur, peak int32
	var admitted int64
	stop := make(chan struct{})
	var wg sync.WaitGroup
	for w := 0; w < 8; w++ {
		wg.Add(1)
		go func() {
			defer wg.Done()
			for {
				select {
				case <-stop:
					return
				default:
				}
				vkit.Safely(func() {
					fc := gw.fc()
					if fc.TryAcquire() {
						atomic.AddInt64(&admitted, 1)
						c := atomic.AddInt32(&cur, 1)
						for {
							p := atomic.LoadInt32(&peak)
							if c <= p || atomic.CompareAndSwapInt32(&peak, p, c) {
								break
							}
						}
						time.Sleep(20 * time.Millisecond)
						atomic.AddInt32(&cur, -1)
						fc.Release()
					} else {
						time.Sleep(2 * time.Millisecond)
					}
				})
			}
		}()
	}
	time.Sleep(2500 * time.Millisecond)
	close(stop)
	wg.Wait()
	gap := maxGap(idleFrom, idleTo)
	obs := map[string]interface{}{"schema": cfg, "peakInFlightAfterIdle": peak, "admittedAfterIdle": admitted, "idleSeconds": float64(idleTo-idleFrom) / 1e9,
		"longestGapWithoutAcquireRequestWhileIdle": gap, "acquireRequests": nReq(), "errorAnswers": errored}
	r.Set("idle_observation_maxinflight", obs)
	if gap > 4 {
		r.Count("idle_resync_gap_over_4s_observed", 1)
	}
	if admitted < 20 {
		r.Count("idle_checks_skipped_too_few_admissions", 1) // harness starvation: not judged
		return
	}
	r.Count("idle_checks", 1)
	if peak <= 2 {
		r.Violation("C09/count-maxinflight/spurious-fallback/after-idle",
			fmt.Sprintf("max-in-flight schema local=%d global=%d, count strategy, real worker, healthy server: after %.0f s without traffic 8 callers holding 20 ms each ran for 2.5 s (%d admissions) and never more than %d were in flight at once: the instance is on its local limit although its limiter server never failed",
				cfg.L, cfg.G, float64(idleTo-idleFrom)/1e9, admitted, peak), obs)
	}
}
