package c09

import (
	"fmt"
	"runtime/debug"
	"strings"
	"sync"
	"sync/atomic"

	proxyv1alpha1 "github.com/kubewharf/kubegateway/pkg/apis/proxy/v1alpha1"

	"verifharness/vkit"
)

// ---------------------------------------------------------------------------------------------------------------------
// (J) a schema whose STRATEGY is switched between global (allocate / count, with a global limit) and local (no global
// limit) by spec updates, same name and type, a fixed number of times, while (a) a goroutine runs the body of the periodic
// reconcile back to back against a server that grants a quota and (b) request goroutines obtain the limiter exactly as the
// dispatcher does. Unlike adding/removing a schema (schemachurn_test.go: the whole cache is replaced), this keeps the
// FlowControlCache and only drops / re-creates its remote wrapper (localWrapper.Sync -> stopRemoteWrapper, reconcile ->
// EnableRemoteFlowControl), which three goroutines reach without synchronisation.
// Judged: (1) neither a reconcile round nor a request nor the spec sync may panic (a reconcile loop that dies takes the
// gateway process with it; "enforces a limit rather than none"); (2) at QUIESCENCE after the churn: strategy local =>
// effective limit = local, exactly (the server's quota must not survive the switch); then strategy global + one answer
// with quota q => q.
// Schedule points (check.conf SCHED_FILES) widen the windows.
// ---------------------------------------------------------------------------------------------------------------------
func strategyChurnPhase(r *vkit.R) {
	scen := r.N(8, 48)
	iters := r.N(1200, 6000)
	r.Parallel(scen, 8, func(i int, g *vkit.Rand) {
		strategy := proxyv1alpha1.GlobalAllocateLimit
		if i%3 == 2 {
			strategy = proxyv1alpha1.GlobalCountLimit
		}
		typ := "maxinflight"
		if i%4 == 3 {
			typ = "tokenbucket"
		}
		cfg := schemaCfg{Strategy: string(strategy), Type: typ, L: 3, G: 9}
		if typ == "tokenbucket" {
			cfg.L, cfg.LB, cfg.G, cfg.GB = 50, 50, 100, 100
		}
		q := int32(g.Range(4, 8))
		gw := newGateway(cfg, fmt.Sprintf("sc-%d", i), 2)
		defer gw.close()
		gw.cs.setReady(true)
		gw.cs.setAllocate(func(req *proxyv1alpha1.RateLimitCondition) (*proxyv1alpha1.RateLimitCondition, error) {
			if strategy == proxyv1alpha1.GlobalCountLimit {
				return allocReply(req), nil
			}
			b := int32(0)
			if typ == "tokenbucket" {
				q, b = 60, 60
			}
			return allocReply(req, allocItem(cfg, q, b)), nil
		})
		gw.cs.setAcquire(func(req *proxyv1alpha1.RateLimitAcquire) (*proxyv1alpha1.RateLimitAcquire, error) {
			out := req.DeepCopy()
			for _, rq := range req.Spec.Requests {
				out.Status.Results = append(out.Status.Results, proxyv1alpha1.RateLimitAcquireResult{FlowControl: rq.FlowControl, Accept: true, Limit: rq.Tokens})
			}
			return out, nil
		})
		global := cfg.schema()
		local := cfg.schema() // same name, same type, local strategy, no global limit
		local.Strategy = proxyv1alpha1.LocalLimit
		local.GlobalMaxRequestsInflight, local.GlobalTokenBucket = nil, nil

		var stop int32
		var wg sync.WaitGroup
		var reconciles, requests int64
		report := func(where string, p interface{}) {
			r.Violation("C09/strategy-churn/"+where+"-panics",
				fmt.Sprintf("%s panicked while the schema's strategy was being switched between %s and local by spec updates (same name and type): %v", where, strategy, p),
				map[string]interface{}{"schema": cfg, "panic": fmt.Sprint(p)})
		}
		wg.Add(1)
		go func() {
			defer wg.Done()
			for atomic.LoadInt32(&stop) == 0 {
				if p := safelyFrames(gw.reconcileOnce); p != nil {
					report("reconcile-round", p)
				}
				atomic.AddInt64(&reconciles, 1)
			}
		}()
		for w := 0; w < 3; w++ {
			wg.Add(1)
			go func() {
				defer wg.Done()
				for atomic.LoadInt32(&stop) == 0 {
					if p := safelyFrames(func() {
						fc := gw.fc()
						if fc.TryAcquire() {
							fc.Release()
						}
					}); p != nil {
						report("request", p)
					}
					atomic.AddInt64(&requests, 1)
				}
			}()
		}
		for n := 0; n < iters; n++ {
			s := global
			if n%2 == 0 {
				s = local
			}
			if p := safelyFrames(func() { gw.lim.Sync(proxyv1alpha1.FlowControl{Schemas: []proxyv1alpha1.FlowControlSchema{s}}) }); p != nil {
				report("spec-sync", p)
			}
		}
		atomic.StoreInt32(&stop, 1)
		wg.Wait()
		r.Eval(1)
		r.Count("strategy_churn_scenarios", 1)
		r.Count("strategy_churn_spec_syncs", iters)
		r.Count("strategy_churn_reconcile_rounds_concurrent", int(reconciles))
		r.Count("strategy_churn_requests_concurrent", int(requests))
		if typ != "maxinflight" {
			return
		}
		// quiescence 1: the last spec (n = iters-1, odd) is the global one; make the local one the last word
		E := -1
		if p := vkit.Safely(func() {
			gw.lim.Sync(proxyv1alpha1.FlowControl{Schemas: []proxyv1alpha1.FlowControlSchema{local}})
			E = probeInflight(gw, int(cfg.G)+5)
		}); p != nil {
			report("quiescent-probe", p)
			return
		}
		r.Count("strategy_churn_quiescence_checks", 1)
		if E != int(cfg.L) {
			r.Violation("C09/strategy-churn/fallback-not-local/strategy-local-at-quiescence",
				fmt.Sprintf("max-in-flight local=%d global=%d: after %d strategy switches concurrent with reconcile rounds and requests the spec's last word is strategy local, yet the effective limit is %d (quota the server granted: %d)", cfg.L, cfg.G, iters, E, q), cfg)
			return
		}
		if strategy != proxyv1alpha1.GlobalAllocateLimit {
			return
		}
		// quiescence 2: global again, one answer: the quota is in effect
		if p := vkit.Safely(func() {
			gw.lim.Sync(proxyv1alpha1.FlowControl{Schemas: []proxyv1alpha1.FlowControlSchema{global}})
			gw.reconcileOnce()
			E = probeInflight(gw, int(cfg.G)+5)
		}); p != nil {
			report("quiescent-probe", p)
			return
		}
		r.Count("strategy_churn_quiescence_checks", 1)
		if E != int(q) {
			r.Violation("C09/strategy-churn/quota-not-applied/strategy-global-at-quiescence",
				fmt.Sprintf("max-in-flight local=%d global=%d: after the churn the spec says %s again and the server granted %d in a completed round trip, yet the effective limit is %d", cfg.L, cfg.G, strategy, q, E), cfg)
		}
	})
	r.Require(r.Counter("strategy_churn_reconcile_rounds_concurrent") > 500 && r.Counter("strategy_churn_requests_concurrent") > 5000 && r.Counter("strategy_churn_quiescence_checks") >= int64(r.N(6, 30)),
		"too few reconcile rounds / requests concurrent with strategy churn")
}

// safelyFrames is vkit.Safely plus the innermost frames of the code under test (the panic value alone, "nil pointer
// dereference", does not tell a maintainer where).
func safelyFrames(fn func()) (p interface{}) {
	defer func() {
		if x := recover(); x != nil {
			var frames []string
			for _, l := range strings.Split(string(debug.Stack()), "\n") {
				if i := strings.Index(l, "/pkg/flowcontrols/"); i >= 0 && !strings.Contains(l, "verif_hooks") {
					f := strings.TrimSpace(l[i+1:])
					if j := strings.Index(f, " +0x"); j > 0 {
						f = f[:j]
					}
					frames = append(frames, f)
				}
			}
			if len(frames) > 4 {
				frames = frames[:4]
			}
			p = fmt.Sprintf("%v at %s", x, strings.Join(frames, " <- "))
		}
	}()
	fn()
	return nil
}
