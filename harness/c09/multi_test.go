package c09

import (
	"context"
	"fmt"
	"math"
	"strings"

	proxyv1alpha1 "github.com/kubewharf/kubegateway/pkg/apis/proxy/v1alpha1"
	"github.com/kubewharf/kubegateway/pkg/flowcontrols"
	"github.com/kubewharf/kubegateway/pkg/flowcontrols/flowcontrol"

	"verifharness/bed"
	"verifharness/vkit"
)

// ---------------------------------------------------------------------------------------------------------------------
// (I) several schemas in one limiter, odd names, boundary configurations, feature-gate toggles, delete + re-create.
//
// Everything else in this check drives ONE schema called "fc" of a cluster called "c09.example". Here one real
// UpstreamLimiter (allocate strategy, synchronous round trips as in (A)) carries 2-4 schemas at once:
//   * names: case variants of each other ("fc"/"FC"), '/', ':', '%', blanks, non-ASCII, 260 characters; cluster names and
//     client ids of the same kind (the client id is split at '-' by the code under test);
//   * boundary configurations: local 0, local = global, global 1, global 2^31-1;
//   * one answer carries items for a random subset of the schemas in random order, with duplicates of a name (either item
//     may win), items for deleted schemas, for unknown names and for case variants of existing names (must not touch any
//     existing schema), quotas from the usual hostile classes;
//   * steps: answer | error | ClientFor failure | readiness flip | gate off / on (UpstreamLimiter.ResetLimiter("local") /
//     ("remote"): the GlobalRateLimiter feature gate) | reconfigure one schema | delete one schema (Sync without it) |
//     re-create it under the same name with new limits.
// Oracle, per schema, after every step (exact probe for max in flight, window bound for the one token-bucket schema):
//   <= global (as propagated, see (A)); gate off / not ready / never synced (a re-created schema has never been synced:
//   nothing the server said about its predecessor may survive) => = local; otherwise in {local} + {the quota(s) the last
//   answer carried for THIS name}; a step whose answer carries an in-range quota for this name => exactly (one of) them.
// A limit that equals the quota the same answer carried for ANOTHER schema gets its own signature (mix-up).
// ---------------------------------------------------------------------------------------------------------------------

var oddNames = []string{"fc", "FC", "Fc", "a/b:c%41", "with space", "名前-ü", "-dash-", strings.Repeat("x", 260), "system-default", "fc "}
var oddClusters = []string{"c09.example", "Cluster.Example:6443", "c/09%2F", "クラスタ", strings.Repeat("c", 253), "[2001:db8::1]:443"}
var oddClientIDs = []string{"gw-1", "", "nodash", "a-b-c-", "GW-ü-7"}

type mSchema struct {
	Name string
	Cfg  schemaCfg
	// model
	exists  bool
	synced  bool
	applied schemaCfg // limits under which the remote limiter was last synced
	allowed []int32   // quota(s) the last delivered answer carried for this name
	allowB  []int32   // token bucket: the bursts that came with them
}

type mItem struct {
	Name string `json:"name"`
	Q    int32  `json:"quota"`
	B    int32  `json:"burst,omitempty"`
}

type mStep struct {
	Kind   string    `json:"kind"`
	Items  []mItem   `json:"items,omitempty"`
	Schema string    `json:"schema,omitempty"`
	New    schemaCfg `json:"new,omitempty"`
	Ready  bool      `json:"ready"`
	Gate   bool      `json:"gateOn"`
	Seen   []string  `json:"effective,omitempty"` // name=effective per existing schema
}

func genMultiCfg(g *vkit.Rand, typ string, r *vkit.R) schemaCfg {
	c := schemaCfg{Strategy: string(proxyv1alpha1.GlobalAllocateLimit), Type: typ}
	if typ == "tokenbucket" {
		c.G = int32(g.Range(50, 200))
		c.L = int32(g.Range(20, int(c.G)))
		c.GB = int32(g.Range(int(c.G), 2*int(c.G))) // valid shape: burst >= qps
		c.LB = int32(g.Range(int(c.L), int(c.GB)))
		return c
	}
	switch g.Intn(10) {
	case 0:
		c.G = int32(g.Range(1, 20))
		c.L = 0
		r.Count("multi_boundary_local_0", 1)
	case 1:
		c.G = int32(g.Range(1, 20))
		c.L = c.G
		r.Count("multi_boundary_local_eq_global", 1)
	case 2:
		c.G, c.L = 1, int32(g.Intn(2))
		r.Count("multi_boundary_global_1", 1)
	case 3:
		c.G, c.L = math.MaxInt32, int32(g.Range(1, 9))
		r.Count("multi_boundary_global_maxint32", 1)
	default:
		c.G = int32(g.Range(2, 40))
		c.L = int32(g.Range(1, int(c.G)))
	}
	return c
}

func multiPhase(r *vkit.R) {
	n := r.N(240, 4000)
	steps := r.N(24, 36)
	r.Parallel(n, 16, func(i int, g *vkit.Rand) { runMultiHistory(r, g, steps) })
	nilClientSetsCase(r)
}

// nilClientSetsCase: remote mode without a client set (no limiter service configured): local limit, no reconcile loop.
func nilClientSetsCase(r *vkit.R) {
	cfg := schemaCfg{Strategy: string(proxyv1alpha1.GlobalAllocateLimit), Type: "maxinflight", L: 3, G: 9}
	ctx, cancel := context.WithCancel(context.Background())
	defer cancel()
	E := -1
	p := vkit.Safely(func() {
		lim := flowcontrols.NewUpstreamLimiter(ctx, clusterName, "", nil)
		lim.Sync(proxyv1alpha1.FlowControl{Schemas: []proxyv1alpha1.FlowControlSchema{cfg.schema()}})
		lim.ResetLimiter(flowcontrol.RemoteFlowControls)
		defer func() {
			flowcontrols.VerifStop(lim)
			for _, c := range lim.AllFlowControls() {
				c.Stop()
			}
		}()
		fc := lim.GetOrDefault(schemaName)
		n := 0
		for n < 15 && fc.TryAcquire() {
			n++
		}
		for k := 0; k < n; k++ {
			fc.Release()
		}
		E = n
	})
	r.Count("multi_nil_clientsets_cases", 1)
	if p != nil || E != int(cfg.L) {
		r.Violation("C09/multi-schema/fallback-not-local/no-client-set",
			fmt.Sprintf("remote mode without a client set (limiter service unknown), max-in-flight local=%d global=%d: effective limit %d, panic %v", cfg.L, cfg.G, E, p), cfg)
	}
}

func runMultiHistory(r *vkit.R, g *vkit.Rand, nSteps int) {
	cluster := g.Pick(oddClusters)
	clientID := g.Pick(oddClientIDs)
	ctx, cancel := context.WithCancel(context.Background())
	cs := newStubClientSets(clientID, 1)
	lim := flowcontrols.NewUpstreamLimiter(ctx, cluster, "", cs)
	gw := &gateway{cs: cs, lim: lim, cancel: cancel}
	defer gw.close()

	// 2-4 schemas with distinct names; at most one token bucket
	perm := g.Perm(len(oddNames))
	k := g.Range(2, 4)
	var ss []*mSchema
	for i := 0; i < k; i++ {
		typ := "maxinflight"
		if i == k-1 && g.Chance(0.4) {
			typ = "tokenbucket"
		}
		s := &mSchema{Name: oddNames[perm[i]], Cfg: genMultiCfg(g, typ, r), exists: true}
		s.applied = s.Cfg
		ss = append(ss, s)
	}
	byName := map[string]*mSchema{}
	for _, s := range ss {
		byName[s.Name] = s
	}
	spec := func() proxyv1alpha1.FlowControl {
		var fc proxyv1alpha1.FlowControl
		for _, s := range ss {
			if s.exists {
				sc := s.Cfg.schema()
				sc.Name = s.Name
				fc.Schemas = append(fc.Schemas, sc)
			}
		}
		return fc
	}
	lim.Sync(spec())
	lim.ResetLimiter(flowcontrol.RemoteFlowControls)

	type hist struct {
		Cluster  string      `json:"cluster"`
		ClientID string      `json:"clientID"`
		Schemas  []schemaCfg `json:"schemas"`
		Names    []string    `json:"names"`
		Steps    []mStep     `json:"steps"`
	}
	h := &hist{Cluster: cluster, ClientID: clientID}
	for _, s := range ss {
		h.Schemas, h.Names = append(h.Schemas, s.Cfg), append(h.Names, s.Name)
	}
	r.Distinct(vkit.Hash64(fmt.Sprintf("multi|%s|%s|%+v|%d", cluster, clientID, h.Schemas, g.Intn(1<<30))))
	r.Count("multi_histories", 1)
	if cluster != oddClusters[0] || clientID != oddClientIDs[0] {
		r.Count("multi_odd_cluster_or_client_id", 1)
	}

	quota := func(s *mSchema) int32 {
		G := s.Cfg.G
		switch g.Intn(9) {
		case 0:
			return 0
		case 1:
			return -1
		case 2:
			if G < math.MaxInt32 {
				return G + 1
			}
			return G
		case 3:
			return math.MaxInt32
		}
		hi := int(G)
		if hi > 60 {
			hi = 60
		}
		if s.Cfg.Type == "tokenbucket" {
			return int32(g.Range(1, int(G)))
		}
		return int32(g.Range(1, hi))
	}
	ready, gate := g.Chance(0.7), true

	for si := 0; si < nSteps; si++ {
		if g.Chance(0.12) {
			ready = !ready
		}
		st := mStep{Ready: ready, Gate: gate}
		cs.setReady(ready)
		cs.setUnknown(false)
		delivered := false
		roundTrip := gate // with the gate off the reconcile loop is stopped: no round trips
		switch x := g.Intn(100); {
		case x < 52:
			st.Kind = "answer"
			var items []mItem
			for _, s := range ss {
				if !g.Chance(0.7) {
					continue
				}
				it := mItem{Name: s.Name, Q: quota(s)}
				if s.Cfg.Type == "tokenbucket" {
					it.B = int32(g.Range(1, int(s.Cfg.GB)))
				}
				items = append(items, it) // also for deleted schemas: the server may still know them
				if !s.exists {
					r.Count("multi_items_for_deleted_schema", 1)
				}
				if g.Chance(0.12) {
					d := it
					d.Q = quota(s)
					items = append(items, d)
					r.Count("multi_items_duplicate_name", 1)
				}
			}
			if g.Chance(0.3) {
				// an unknown name, or a case variant of an existing name that is not a schema itself
				name := "no-such-schema"
				if v := strings.ToUpper(ss[0].Name); g.Bool() && v != ss[0].Name && byName[v] == nil {
					name = v
					r.Count("multi_items_case_variant_of_existing", 1)
				}
				items = append(items, mItem{Name: name, Q: int32(g.Range(1, 50))})
				r.Count("multi_items_unknown_name", 1)
			}
			for i := len(items) - 1; i > 0; i-- {
				j := g.Intn(i + 1)
				items[i], items[j] = items[j], items[i]
			}
			st.Items = items
			delivered = roundTrip
			cs.setAllocate(func(req *proxyv1alpha1.RateLimitCondition) (*proxyv1alpha1.RateLimitCondition, error) {
				var out []proxyv1alpha1.RateLimitItemConfiguration
				for _, it := range items {
					typ := "maxinflight"
					if s := byName[it.Name]; s != nil {
						typ = s.Cfg.Type
					}
					c := allocItem(schemaCfg{Type: typ}, it.Q, it.B)
					c.Name = it.Name
					out = append(out, c)
				}
				return allocReply(req, out...), nil
			})
		case x < 60:
			st.Kind = "error"
			cs.setAllocate(func(req *proxyv1alpha1.RateLimitCondition) (*proxyv1alpha1.RateLimitCondition, error) {
				return nil, fmt.Errorf("%s", g.Pick([]string{"upstream x, shard 0, leader is limiter-1", "", "RequestIDTooOld", strings.Repeat("é", 4000)}))
			})
		case x < 66:
			st.Kind = "unknown"
			cs.setUnknown(true)
		case x < 74:
			roundTrip = false
			if gate {
				st.Kind = "gate-off"
				lim.ResetLimiter(flowcontrol.LocalFlowControls)
			} else {
				st.Kind = "gate-on"
				lim.ResetLimiter(flowcontrol.RemoteFlowControls)
			}
			gate = !gate
			st.Gate = gate
			r.Count("multi_gate_toggles", 1)
		case x < 82:
			roundTrip = false
			s := ss[g.Intn(len(ss))]
			st.Schema = s.Name
			if s.exists {
				st.Kind = "delete"
				s.exists = false
				r.Count("multi_deletes", 1)
			} else {
				// same name, new limits, same type: a NEW object that was never synced
				st.Kind = "re-create"
				s.Cfg = genMultiCfg(g, s.Cfg.Type, r)
				s.exists, s.synced, s.allowed, s.allowB, s.applied = true, false, nil, nil, s.Cfg
				st.New = s.Cfg
				r.Count("multi_recreates", 1)
			}
			lim.Sync(spec())
		case x < 90:
			roundTrip = false
			s := ss[g.Intn(len(ss))]
			if !s.exists {
				st.Kind = "none"
				break
			}
			st.Kind, st.Schema = "reconfig", s.Name
			s.Cfg = genMultiCfg(g, s.Cfg.Type, r)
			st.New = s.Cfg
			lim.Sync(spec())
			r.Count("multi_reconfigurations", 1)
		default:
			st.Kind = "none"
			roundTrip = false
		}
		if roundTrip {
			if p := vkit.Safely(func() { gw.reconcileOnce() }); p != nil {
				h.Steps = append(h.Steps, st)
				r.Violation("C09/multi-schema/panic/reconcile/"+st.Kind, fmt.Sprintf("the allocate round trip panicked (%d schemas, step %s): %v", len(ss), st.Kind, p), h)
				return
			}
		}
		others := map[string]map[int32]bool{} // name -> quotas this answer carried for OTHER names
		if delivered {
			got := map[string][]mItem{}
			for _, it := range st.Items {
				got[it.Name] = append(got[it.Name], it)
			}
			for _, s := range ss {
				others[s.Name] = map[int32]bool{}
				for name, its := range got {
					if name != s.Name {
						for _, it := range its {
							others[s.Name][it.Q] = true
						}
					}
				}
				if its := got[s.Name]; len(its) > 0 && s.exists {
					s.synced, s.applied = true, s.Cfg
					s.allowed, s.allowB = nil, nil
					for _, it := range its {
						s.allowed, s.allowB = append(s.allowed, it.Q), append(s.allowB, it.B)
					}
				}
			}
		}
		r.Count("multi_steps", 1)
		r.Count("multi_step_"+st.Kind, 1)
		r.Eval(1)

		// ---- probe every existing schema ----
		for _, s := range ss {
			if !s.exists {
				continue
			}
			fresh := false // did THIS step's answer carry the name?
			if delivered {
				for _, it := range st.Items {
					fresh = fresh || it.Name == s.Name
				}
			}
			remoteMay := ready && gate && s.synced
			cfg := s.Cfg
			if remoteMay {
				cfg.G, cfg.GB = s.applied.G, s.applied.GB
			}
			gBound, gbBound := cfg.G, cfg.GB
			if cfg.L > gBound {
				gBound = cfg.L
			}
			if cfg.LB > gbBound {
				gbBound = cfg.LB
			}
			state := "ready-synced"
			switch {
			case !gate:
				state = "gate-off"
			case !ready:
				state = "not-ready"
			case !s.synced:
				state = "never-synced"
			}
			where := fmt.Sprintf("cluster %q, %d schemas, schema %q (%s local=%d global=%d), step %d (%s)", cluster, len(ss), short(s.Name), cfg.Type, cfg.L, cfg.G, si, st.Kind)
			fail := func(sig, what string) {
				h.Steps = append(h.Steps, st)
				r.Violation("C09/multi-schema/"+sig, where+": "+what, h)
			}
			if s.Cfg.Type == "tokenbucket" {
				cap := int(gbBound) + 5
				var n int
				var t0, t1 int64
				if p := vkit.Safely(func() {
					fc := lim.GetOrDefault(s.Name)
					n, t0, t1 = drain(fc, cap)
				}); p != nil {
					fail("panic/admission", fmt.Sprintf("TryAcquire/Release panicked: %v", p))
					return
				}
				dt := float64(t1-t0) / 1e9
				st.Seen = append(st.Seen, fmt.Sprintf("%s=%d/%.6fs", short(s.Name), n, dt))
				r.Count("multi_probes_tokenbucket", 1)
				bound := func(q, b int32) float64 { return float64(b) + float64(q)*dt + 1 }
				switch {
				case float64(n) > bound(gBound, gbBound):
					fail("exceeds-global/tokenbucket", fmt.Sprintf("%d admitted within %.6fs, the global bucket (%d qps, burst %d) allows %.1f", n, dt, gBound, gbBound, bound(gBound, gbBound)-1))
					return
				case !remoteMay && float64(n) > bound(cfg.L, cfg.LB):
					fail("fallback-not-local/"+state, fmt.Sprintf("%d admitted within %.6fs, more than the local bucket (%d qps, burst %d) allows", n, dt, cfg.L, cfg.LB))
					return
				}
				continue
			}
			cap := 300
			if int64(gBound)+5 < int64(cap) {
				cap = int(gBound) + 5
			}
			E := -1
			if p := vkit.Safely(func() {
				fc := lim.GetOrDefault(s.Name)
				n := 0
				for n < cap && fc.TryAcquire() {
					n++
				}
				for i := 0; i < n; i++ {
					fc.Release()
				}
				E = n
			}); p != nil {
				fail("panic/admission", fmt.Sprintf("TryAcquire/Release panicked: %v", p))
				return
			}
			st.Seen = append(st.Seen, fmt.Sprintf("%s=%d", short(s.Name), E))
			if remoteMay {
				r.Count("multi_probes_remote_may_be_in_effect", 1)
			} else {
				r.Count("multi_probes_local_in_effect", 1)
			}
			inRange := true
			isAllowed := E == int(cfg.L) && !fresh
			for _, q := range s.allowed {
				if q < 1 || q > cfg.G || int(q) >= cap {
					inRange = false // out of range (any limit <= global is fine) or beyond what the capped probe can tell apart
				}
				if E == int(q) {
					isAllowed = true
				}
			}
			switch {
			case int64(E) > int64(gBound):
				fail("exceeds-global/"+state, fmt.Sprintf("%d admitted at once (quotas carried for this name by the last answer: %v)", E, s.allowed))
				return
			case !remoteMay:
				if E != int(cfg.L) {
					fail("fallback-not-local/"+state, fmt.Sprintf("effective limit %d, not the local limit (what the server last said about this name: %v)", E, s.allowed))
					return
				}
			case inRange && !isAllowed:
				kind := "other"
				if others[s.Name][int32(E)] {
					kind = "quota-of-another-schema"
				}
				fail("quota-not-applied/"+kind, fmt.Sprintf("effective limit %d; the last answer carried %v for this name (local %d)", E, s.allowed, cfg.L))
				return
			case inRange && fresh:
				r.Count("multi_exact_quota_checks", 1)
			}
		}
		h.Steps = append(h.Steps, st)
	}
	if r.WantSample() && len(ss) >= 3 {
		r.Sample(map[string]interface{}{"kind": "multi-schema-history", "history": h})
	}
}

func short(s string) string {
	if len(s) > 24 {
		return s[:20] + fmt.Sprintf("…(%d)", len(s))
	}
	return s
}

// drain is probeBucket for an arbitrary limiter object.
func drain(fc flowcontrol.FlowControl, cap int) (n int, t0, t1 int64) {
	t0 = bed.Now()
	t1 = t0
	for n < cap && fc.TryAcquire() {
		n++
		t1 = bed.Now()
		fc.Release()
	}
	return
}
