package c09

import (
	"fmt"
	"math"
	"testing"
	"time"

	metav1 "k8s.io/apimachinery/pkg/apis/meta/v1"

	proxyv1alpha1 "github.com/kubewharf/kubegateway/pkg/apis/proxy/v1alpha1"

	"verifharness/bed"
	"verifharness/vkit"
)

func TestCheck(t *testing.T) {
	vkit.Run(t, "C09", "exploration", func(r *vkit.R) {
		r.Rule("Real flowcontrols.UpstreamLimiter in 'remote' mode over a scripted clientsets.ClientSets whose fake gateway clientsets answer " +
			"'update ratelimitconditions/status' (allocate) and 'create ratelimitconditions/acquire' (count) from reply functions. " +
			"(A) allocate strategy: seeded histories of steps {grant(quota,burst) with quota in {honest,0,1,local,global,global+1,2*global,2^31-1,-1,-5,-2^31}, " +
			"item omitted, error, timeout, ClientFor failure, stale (an earlier reply again), readiness flips}, one synchronous round trip per step " +
			"(VerifReconcileOnce), effective limit probed after every step through GetOrDefault(name) exactly as the dispatcher does. " +
			"(B) count strategy, deterministic: replies injected one at a time through SetLimit(VerifNewAcquireResult) on the real wrapper, probe after each. " +
			"(C) count/allocate strategy in real time: limiters run in parallel with the real worker goroutines (300 ms wait, 100 ms batches, 2 s ticker) " +
			"against scenario reply functions (honest, hostile limits, errors, flaps, delays/re-ordering, timeouts, omitted items, readiness flaps); " +
			"shadow in-flight counter against the global max, sound window bound against (global qps, global burst). " +
			"(E) deterministic carry-over cases for both strategies and both directions: hold what the limiter in effect admits, switch local<->remote (readiness flip / first granted quota q with local+q > global), admit until refused, count what is in flight at once. " +
			"(I) one limiter with 2-4 schemas (names with case variants, '/', ':', '%', blanks, non-ASCII, 260 chars; odd cluster names / client ids; local 0, local = global, global 1, global 2^31-1): answers with items for subsets in random order, duplicate / unknown / case-variant / deleted names; gate off/on (ResetLimiter), reconfigure, delete and re-create under the same name; per-schema oracle as in (A), a re-created schema counts as never synced. " +
			"(J) a schema switched between a global strategy and strategy local (same name and type) by spec updates a fixed number of times, concurrent with back-to-back reconcile rounds and requests, under schedule points: no panic; at quiescence strategy local => exactly local, global + one answer => the quota. " +
			"(H) count strategy, max in flight: a fixed number of rounds in which one accepted server answer with a large limit races (swept delay) with the propagation of a global limit lowered to 1; judged only at quiescence (both returned): effective limit <= 1. " +
			"(G) idle flows, count strategy, healthy server: traffic, 9 s without any attempt (longer than the counter's reset check), traffic again; with local << granted the instance must still be on the server-granted quota (a generous fraction is demanded). " +
			"(F) bounded progress: healthy -> outage (error answers | acquire calls hanging beyond the 500 ms timeout | not ready | ClientFor failing) -> healthy, callers trying throughout; > 0 admissions demanded after a generous grace during the outage and from 5 s to >= 8 s after it. " +
			"(A) and (B) also contain reconfiguration steps (UpstreamLimiter.Sync with changed local/global limits while the server is ok / failing / not ready); the oracle follows the current limits once they were propagated. " +
			"(D) the real clientsets.ClientSets (1 s heartbeat, 5 s hysteresis) against a stub limiter service with TWO shards and two leaders (HTTP servers), one upstream cluster per shard, each with its own real UpstreamLimiter: the leader of one shard goes down while the other stays healthy (both directions), then recovers; probes judged by the readiness reported for that upstream before and after each probe. " +
			"Non-trivial = the history contains at least one non-honest reply or failure; distinct = hash of (schema, step list / scenario).")
		r.Assume("the global limit of a token-bucket schema is the pair (global qps, global burst): admissions in any window of length T are at most burst + qps*T")
		r.Assume("ill-typed answers (item without detail, of the other type, with both details, with another strategy) are inside 'whatever the limiter server answers': judged by '<= global' and 'local while not ready / never synced' only")
		r.Assume("token buckets only: across a switch between the local and the remote limiter object both buckets hold tokens (two buckets by design); the real-time readiness-flap / first-sync scenarios are judged against the sum of the two buckets. Max-in-flight is judged against the global max in every scenario; an excess explained by requests of both limiter objects being in flight at once has its own signature (carryover-across-local-remote-switch)")

		allocatePhase(r)
		emptyDetailOutsideQuantifier(r)
		countDeterministicPhase(r)
		carryoverPhase(r)
		racePhase(r)
		multiPhase(r)
		// schedule points (check.conf SCHED_FILES) perturb the interleavings of the two churn phases only: (H) depends on
		// tight timing, everything before it is sequential, everything after it is judged on long real-time windows
		vkit.Sched.Enable(uint64(r.Seed), 0.04, 0.02, 0.002)
		schemaChurnPhase(r)
		strategyChurnPhase(r)
		vkit.Sched.Disable()
		r.ReportSched()
		// (D) runs next to (C): both are mostly waiting
		// the PRNG streams of the concurrent phases are forked here, on this goroutine (Fork advances the parent)
		hbRng, recRng, idleRng, rtRng := r.Rng.Fork("heartbeat"), r.Rng.Fork("recovery"), r.Rng.Fork("idle"), r.Rng.Fork("realtime")
		hbDone := make(chan struct{})
		go func() { defer close(hbDone); heartbeatPhase(r, hbRng) }()
		recDone := make(chan struct{})
		go func() { defer close(recDone); recoveryPhase(r, recRng) }()
		idleDone := make(chan struct{})
		go func() { defer close(idleDone); idlePhase(r, idleRng) }()
		realtimePhase(r, rtRng)
		<-hbDone
		<-recDone
		<-idleDone

		r.Require(r.Counter("allocate_steps") >= int64(r.N(15000, 400000)), "too few allocate steps")
		r.Require(r.Counter("allocate_probe_remote_in_effect") > 200, "the remote limiter was hardly ever in effect during allocate probes")
		r.Require(r.Counter("allocate_probe_local_in_effect") > 200, "the local fallback was hardly ever in effect during allocate probes")
		r.Require(r.Counter("count_det_steps") >= 100, "too few deterministic count-strategy steps")
		r.Require(r.Counter("carryover_cases") >= int64(r.N(20, 200)) && r.Counter("carryover_tb_cases") >= int64(r.N(10, 100)), "too few deterministic carry-over cases completed")
		r.Require(r.Counter("multi_steps") >= int64(r.N(4000, 80000)) && r.Counter("multi_exact_quota_checks") >= int64(r.N(200, 5000)) && r.Counter("multi_probes_remote_may_be_in_effect") >= int64(r.N(1000, 20000)) &&
			r.Counter("multi_gate_toggles") >= int64(r.N(100, 3000)) && r.Counter("multi_recreates") >= int64(r.N(40, 1000)) && r.Counter("multi_items_duplicate_name") >= int64(r.N(100, 5000)) && r.Counter("multi_items_case_variant_of_existing") >= int64(r.N(50, 2000)) &&
			r.Counter("multi_boundary_local_0") >= int64(r.N(20, 500)) && r.Counter("multi_boundary_global_1") >= int64(r.N(20, 500)) && r.Counter("multi_boundary_global_maxint32") >= int64(r.N(20, 500)),
			"the multi-schema phase did not exercise enough answers / gate toggles / re-creations / boundary configurations")
		r.Require(r.Counter("allocate_probes_huge_global") >= int64(r.N(100, 2000)) && r.Counter("allocate_illtyped_no-detail")+r.Counter("allocate_illtyped_other-type")+r.Counter("allocate_illtyped_both-details")+r.Counter("allocate_illtyped_other-strategy") >= int64(r.N(150, 3000)),
			"too few probes under huge global limits / too few ill-typed answers")
		r.Require(r.Counter("race_rounds") >= int64(r.N(14000, 60000)), "too few answer-vs-reconfigure race rounds completed")
		r.Require(r.Counter("idle_checks") >= int64(r.N(3, 10)), "too few idle-flow checks were decided")
		r.Require(r.Counter("rec_recovery_checks") >= int64(r.N(10, 40)) && r.Counter("rec_fallback_checks") >= int64(r.N(8, 32)) && r.Counter("rec_fallback_limit_checks") >= int64(r.N(2, 6)), "too few outage/recovery progress checks were decided")
		r.Require(r.Counter("allocate_reconfigurations") >= 100 && r.Counter("count_det_reconfigurations") >= 50, "too few reconfiguration steps")
		r.Require(r.Counter("rt_acquire_replies") >= 500, "the count-strategy workers hardly ever reached the stub server")
		r.Require(r.Counter("rt_admissions") >= 2000, "too few admissions in the real-time phase")
		r.Require(r.Counter("hb_outages_reached_not_ready") >= int64(r.N(3, 12)) && r.Counter("hb_recoveries_observed") >= int64(r.N(3, 12)) &&
			r.Counter("hb_reshard_to_dead_reached_not_ready") >= int64(r.N(1, 3)) && r.Counter("hb_reshard_to_healthy_quota_observed") >= int64(r.N(1, 3)), "too few outage/recovery cycles of the real client set were observed")
	})
}

// ---------------------------------------------------------------------------------------------------------------------
// (A) allocate strategy
// ---------------------------------------------------------------------------------------------------------------------

type allocStep struct {
	Kind  string `json:"kind"` // grant | omit | error | timeout | unknown | stale | none (readiness only)
	Q     int32  `json:"quota,omitempty"`
	B     int32  `json:"burst,omitempty"`
	Ready bool   `json:"ready"`
	// illtyped: which way the item deviates from the schema's type
	Variant string `json:"variant,omitempty"`
	// reconfig: the schema's new limits (spec update of the UpstreamCluster), applied with UpstreamLimiter.Sync
	NL  int32 `json:"newLocal,omitempty"`
	NG  int32 `json:"newGlobal,omitempty"`
	NLB int32 `json:"newLocalBurst,omitempty"`
	NGB int32 `json:"newGlobalBurst,omitempty"`
	// observation
	E  int     `json:"effective"`              // admitted by the probe (max-in-flight: exact effective limit, capped at global+5)
	Dt float64 `json:"probeSeconds,omitempty"` // token bucket: length of the probe window
}

type allocHistory struct {
	Cfg   schemaCfg   `json:"schema"`
	Steps []allocStep `json:"steps"`
}

func quotaClass(q, g int32) string {
	switch {
	case q < 0:
		return "quota-negative"
	case q == 0:
		return "quota-zero"
	case q > g:
		return "quota-above-global"
	}
	return "quota-in-range"
}

func burstClass(b, gb int32) string {
	switch {
	case b < 0:
		return "burst-negative"
	case b > gb:
		return "burst-above-global"
	}
	return "burst-in-range"
}

// grantClass names the first out-of-range feature of a granted item (the minimal discriminating feature for signatures).
func grantClass(cfg schemaCfg, q, b int32) string {
	qc := quotaClass(q, cfg.G)
	if cfg.Type == "maxinflight" {
		return qc
	}
	// one class per item, by the feature most likely to be the cause on its own: a negative number (wraps to ~4.29e9), a
	// zero qps (the pinned x/time/rate admits everything at rate 0), a burst above the global burst, a qps above the global qps
	bc := burstClass(b, cfg.GB)
	switch {
	case qc == "quota-negative":
		return qc
	case bc == "burst-negative":
		return bc
	case qc == "quota-zero":
		return qc
	case bc == "burst-above-global":
		return bc
	}
	return qc
}

// hugeLimits: global limits in the upper int32 range and token-bucket rates that float32 cannot represent exactly (>= 2^24)
var hugeLimits = []int32{math.MaxInt32, 1<<30 + 7, 1<<24 + 1, 1 << 30}

func genAllocCfg(g *vkit.Rand) schemaCfg {
	c := schemaCfg{Strategy: string(proxyv1alpha1.GlobalAllocateLimit)}
	if g.Chance(0.04) {
		c.G = g.PickI32(hugeLimits)
		if g.Bool() {
			c.Type, c.L = "maxinflight", int32(g.Range(1, 9))
		} else {
			c.Type, c.GB = "tokenbucket", c.G
			c.L = int32(g.Range(20, 100))
			c.LB = int32(g.Range(int(c.L), 200))
		}
		return c
	}
	if g.Chance(0.6) {
		c.Type = "maxinflight"
		c.G = int32(g.Range(2, 60))
		c.L = int32(g.Range(1, int(c.G)))
		switch g.Intn(20) { // boundary configurations
		case 0, 1:
			c.L = c.G
		case 2:
			c.L = 0
		case 3:
			c.G, c.L = 1, int32(g.Intn(2))
		}
	} else {
		c.Type = "tokenbucket"
		c.G = int32(g.Range(50, 400))
		c.L = int32(g.Range(20, int(c.G)))
		if g.Bool() {
			// the shape admission accepts: burst >= qps for the local and the global bucket
			c.GB = int32(g.Range(int(c.G), 2*int(c.G)))
			c.LB = int32(g.Range(int(c.L), int(c.GB)))
		} else {
			c.GB = int32(g.Range(5, 80))
			c.LB = int32(g.Range(1, int(c.GB)))
		}
	}
	return c
}

func genQuota(g *vkit.Rand, cfg schemaCfg) int32 {
	G := cfg.G
	switch g.Intn(16) {
	case 0:
		return 0
	case 1:
		return 1
	case 2:
		return G
	case 3:
		return G + 1
	case 4:
		return math.MaxInt32
	case 5:
		return -1
	case 6:
		return math.MinInt32
	case 7:
		return -5
	case 8:
		return cfg.L
	case 9:
		return 2 * G
	case 10:
		return 10 * G
	}
	return int32(g.Range(1, int(G))) // "honest": what a correct server may allocate
}

func genBurst(g *vkit.Rand, cfg schemaCfg, q int32) int32 {
	GB := cfg.GB
	switch g.Intn(12) {
	case 0:
		return 0
	case 1:
		return GB
	case 2:
		return GB + 1
	case 3:
		return math.MaxInt32
	case 4:
		return -1
	case 5:
		return 3 * GB
	}
	// the server's formula: ceil(next/total*burst)
	if q >= 1 && q <= cfg.G {
		return int32(math.Ceil(float64(q) / float64(cfg.G) * float64(GB)))
	}
	return int32(g.Range(1, int(GB)))
}

func genAllocHistory(g *vkit.Rand, n int) *allocHistory {
	h := &allocHistory{Cfg: genAllocCfg(g)}
	ready := g.Chance(0.7)
	for i := 0; i < n; i++ {
		if g.Chance(0.15) {
			ready = !ready
		}
		st := allocStep{Ready: ready}
		switch x := g.Intn(100); {
		case x < 58:
			st.Kind = "grant"
			st.Q = genQuota(g, h.Cfg)
			if h.Cfg.Type == "tokenbucket" {
				st.B = genBurst(g, h.Cfg, st.Q)
			}
		case x < 66:
			st.Kind = "omit"
		case x < 76:
			st.Kind = "error"
		case x < 80:
			st.Kind = "timeout"
		case x < 88:
			st.Kind = "unknown"
		case x < 92:
			st.Kind = "stale"
		case x < 94:
			// "whatever the limiter server answers": an item for this schema that is not of the schema's type
			st.Kind = "illtyped"
			st.Variant = g.Pick([]string{"no-detail", "other-type", "both-details", "other-strategy"})
			st.Q = genQuota(g, h.Cfg)
			st.B = int32(g.Range(1, 200))
		case x < 97:
			// spec update: new limits of the same type (local <= global)
			st.Kind = "reconfig"
			nc := genAllocCfg(g)
			for nc.Type != h.Cfg.Type {
				nc = genAllocCfg(g)
			}
			st.NL, st.NG, st.NLB, st.NGB = nc.L, nc.G, nc.LB, nc.GB
		default:
			st.Kind = "none"
		}
		h.Steps = append(h.Steps, st)
	}
	return h
}

func (h *allocHistory) hash() uint64 {
	s := fmt.Sprintf("%+v", h.Cfg)
	for _, st := range h.Steps {
		s += fmt.Sprintf("|%s%s,%d,%d,%v,%d,%d,%d,%d", st.Kind, st.Variant, st.Q, st.B, st.Ready, st.NL, st.NG, st.NLB, st.NGB)
	}
	return vkit.Hash64(s)
}

func (h *allocHistory) nontrivial() bool {
	for _, st := range h.Steps {
		if st.Kind != "grant" || !st.Ready || st.Q < 1 || st.Q > h.Cfg.G {
			return true
		}
	}
	return false
}

// item builds the reply item for (q,b) keeping the schema's type and strategy.
func allocItem(cfg schemaCfg, q, b int32) proxyv1alpha1.RateLimitItemConfiguration {
	it := proxyv1alpha1.RateLimitItemConfiguration{Name: schemaName, Strategy: proxyv1alpha1.GlobalAllocateLimit}
	if cfg.Type == "maxinflight" {
		it.MaxRequestsInflight = &proxyv1alpha1.MaxRequestsInflightFlowControlSchema{Max: q}
	} else {
		it.TokenBucket = &proxyv1alpha1.TokenBucketFlowControlSchema{QPS: q, Burst: b}
	}
	return it
}

func allocReply(req *proxyv1alpha1.RateLimitCondition, items ...proxyv1alpha1.RateLimitItemConfiguration) *proxyv1alpha1.RateLimitCondition {
	out := &proxyv1alpha1.RateLimitCondition{}
	if req != nil {
		out = req.DeepCopy()
	} else {
		out.ObjectMeta = metav1.ObjectMeta{Name: "c"}
	}
	out.Spec.LimitItemConfigurations = items
	return out
}

// probeInflight is the max-in-flight probe: acquire until refused (capped), release everything. Single goroutine, so the
// optimistic semaphore has no spurious refusals and the result is the exact effective limit.
func probeInflight(g *gateway, cap int) int {
	fc := g.fc()
	n := 0
	for n < cap && fc.TryAcquire() {
		n++
	}
	for i := 0; i < n; i++ {
		fc.Release()
	}
	return n
}

// probeBucket drains the token bucket in effect: returns the number admitted (capped) and the window [first call, last
// admitted return] on the one monotonic clock. Sound use: n <= burst + qps*(t1-t0) for whatever (qps,burst) was in
// effect during the window, whatever the bucket's fill level was.
func probeBucket(g *gateway, cap int) (n int, t0, t1 int64) {
	fc := g.fc()
	t0 = bed.Now()
	t1 = t0
	for n < cap && fc.TryAcquire() {
		n++
		t1 = bed.Now()
		fc.Release()
	}
	return n, t0, t1
}

// probeCap bounds a probe: limit+extra, but never more than 400 acquisitions (limits up to 2^31-1 are generated; what a
// capped probe cannot tell apart is not judged).
func probeCap(limit int32, extra int) int {
	if int64(limit)+int64(extra) > 400 {
		return 400
	}
	return int(limit) + extra
}

func clampI32(v, lo, hi int32) int32 {
	if v < lo {
		return lo
	}
	if v > hi {
		return hi
	}
	return v
}

func allocatePhase(r *vkit.R) {
	nHist := r.N(600, 12000)
	stepsPer := r.N(30, 48)
	r.Parallel(nHist, 16, func(i int, g *vkit.Rand) {
		h := genAllocHistory(g, stepsPer)
		// a few histories are fixed shapes so that every seed covers the classic fault positions
		switch i {
		case 0: // negative quota as a later answer
			h.Cfg = schemaCfg{Strategy: string(proxyv1alpha1.GlobalAllocateLimit), Type: "maxinflight", L: 5, G: 20}
			h.Steps = []allocStep{{Kind: "grant", Q: 10, Ready: true}, {Kind: "grant", Q: -5, Ready: true}, {Kind: "error", Ready: true}, {Kind: "grant", Q: 7, Ready: true}}
		case 1: // above-global quota as the first answer
			h.Cfg = schemaCfg{Strategy: string(proxyv1alpha1.GlobalAllocateLimit), Type: "maxinflight", L: 5, G: 20}
			h.Steps = []allocStep{{Kind: "grant", Q: 21, Ready: true}, {Kind: "grant", Q: 22, Ready: true}, {Kind: "unknown", Ready: true}, {Kind: "none", Ready: false}, {Kind: "grant", Q: 3, Ready: true}}
		case 2: // never synced, then recovery
			h.Cfg = schemaCfg{Strategy: string(proxyv1alpha1.GlobalAllocateLimit), Type: "maxinflight", L: 4, G: 9}
			h.Steps = []allocStep{{Kind: "error", Ready: true}, {Kind: "unknown", Ready: true}, {Kind: "omit", Ready: true}, {Kind: "grant", Q: 6, Ready: false}, {Kind: "none", Ready: true}, {Kind: "grant", Q: 8, Ready: true}}
		}
		runAllocHistory(r, h, g)
	})
}

// emptyDetailOutsideQuantifier runs the one reply shape that is deliberately NOT judged: an item with the right name but
// neither a max-in-flight nor a token-bucket detail (an ill-typed reply; the quantifier ranges over quotas and failures of
// well-typed replies). What the gateway does with it is written to the evidence.
func emptyDetailOutsideQuantifier(r *vkit.R) {
	cfg := schemaCfg{Strategy: string(proxyv1alpha1.GlobalAllocateLimit), Type: "maxinflight", L: 5, G: 20}
	gw := newGateway(cfg, "gw-1", 1)
	defer gw.close()
	gw.cs.setReady(true)
	obs := map[string]interface{}{"schema": cfg, "judged": false}
	gw.cs.setAllocate(func(req *proxyv1alpha1.RateLimitCondition) (*proxyv1alpha1.RateLimitCondition, error) {
		return allocReply(req, allocItem(cfg, 10, 0)), nil
	})
	if p := vkit.Safely(func() { gw.reconcileOnce(); obs["effective_after_grant_10"] = probeInflight(gw, 25) }); p != nil {
		obs["panic"] = fmt.Sprint(p)
	}
	gw.cs.setAllocate(func(req *proxyv1alpha1.RateLimitCondition) (*proxyv1alpha1.RateLimitCondition, error) {
		return allocReply(req, proxyv1alpha1.RateLimitItemConfiguration{Name: schemaName, Strategy: proxyv1alpha1.GlobalAllocateLimit}), nil
	})
	if p := vkit.Safely(func() {
		gw.reconcileOnce()
		obs["effective_after_empty_detail_reply_probe_capped_at_25"] = probeInflight(gw, 25)
	}); p != nil {
		obs["panic"] = fmt.Sprint(p)
	}
	r.Set("outside_quantifier_empty_detail_reply", obs)
}

func runAllocHistory(r *vkit.R, h *allocHistory, g *vkit.Rand) {
	cfg := h.Cfg
	gw := newGateway(cfg, "gw-1", 1)
	defer gw.close()
	isTB := cfg.Type == "tokenbucket"

	type grant struct{ q, b int32 }
	var (
		grants     []grant // delivered grants so far
		synced     bool    // some grant was delivered (a remote limiter exists)
		last       grant   // the last delivered grant
		nontrivial = h.nontrivial()
		origin     = "first-answer"
		tainted    bool  // an exceeds-global violation was already reported for this history
		applied    = cfg // the configuration under which the remote limiter was last synced (a delivered answer)
		// ill-typed answers (item without detail / of the other type / with both details / with another strategy) are
		// answers the gateway must survive: judged are only "<= global" and "local while not ready / never synced"; what
		// exactly is in force after one of them is left open until the next well-typed grant
		ill         string
		ambiguous   bool
		maybeSynced bool
	)
	if nontrivial {
		r.Distinct(h.hash())
	}

	for si := range h.Steps {
		st := &h.Steps[si]
		gw.cs.setReady(st.Ready)
		gw.cs.setUnknown(false)
		delivered := false
		var cur grant
		roundTrip := true
		switch st.Kind {
		case "grant":
			cur = grant{st.Q, st.B}
			delivered = true
			gw.cs.setAllocate(func(req *proxyv1alpha1.RateLimitCondition) (*proxyv1alpha1.RateLimitCondition, error) {
				return allocReply(req, allocItem(cfg, cur.q, cur.b)), nil
			})
		case "stale":
			// an earlier reply again (what a delayed / re-ordered answer looks like to the synchronous round trip)
			if len(grants) == 0 {
				cur = grant{int32(g.Range(1, int(cfg.G))), clampI32(cfg.GB/2, 1, cfg.GB)}
			} else {
				cur = grants[g.Intn(len(grants))]
			}
			st.Q, st.B = cur.q, cur.b
			delivered = true
			gw.cs.setAllocate(func(req *proxyv1alpha1.RateLimitCondition) (*proxyv1alpha1.RateLimitCondition, error) {
				return allocReply(req, allocItem(cfg, cur.q, cur.b)), nil
			})
		case "omit":
			other := allocItem(cfg, cfg.G, cfg.GB)
			other.Name = "some-other-schema"
			withOther := g.Bool()
			gw.cs.setAllocate(func(req *proxyv1alpha1.RateLimitCondition) (*proxyv1alpha1.RateLimitCondition, error) {
				if withOther {
					return allocReply(req, other), nil
				}
				return allocReply(req), nil
			})
		case "error":
			gw.cs.setAllocate(func(req *proxyv1alpha1.RateLimitCondition) (*proxyv1alpha1.RateLimitCondition, error) {
				return nil, fmt.Errorf("upstream %s, shard 0, leader is limiter-1", clusterName)
			})
		case "timeout":
			gw.cs.setAllocate(func(req *proxyv1alpha1.RateLimitCondition) (*proxyv1alpha1.RateLimitCondition, error) {
				return nil, fmt.Errorf("Put \"https://limiter/apis/proxy.kubegateway.io/v1alpha1/ratelimitconditions/x/status\": context deadline exceeded (Client.Timeout exceeded while awaiting headers)")
			})
		case "illtyped":
			it := proxyv1alpha1.RateLimitItemConfiguration{Name: schemaName, Strategy: proxyv1alpha1.GlobalAllocateLimit}
			mi := &proxyv1alpha1.MaxRequestsInflightFlowControlSchema{Max: st.Q}
			tb := &proxyv1alpha1.TokenBucketFlowControlSchema{QPS: st.Q, Burst: st.B}
			switch st.Variant {
			case "other-type":
				if isTB {
					it.MaxRequestsInflight = mi
				} else {
					it.TokenBucket = tb
				}
			case "both-details":
				it.MaxRequestsInflight, it.TokenBucket = mi, tb
			case "other-strategy":
				it = allocItem(cfg, st.Q, st.B)
				it.Strategy = proxyv1alpha1.GlobalCountLimit
			}
			gw.cs.setAllocate(func(req *proxyv1alpha1.RateLimitCondition) (*proxyv1alpha1.RateLimitCondition, error) {
				return allocReply(req, it), nil
			})
			ill, ambiguous = st.Variant, true
			if st.Variant == "both-details" || st.Variant == "other-strategy" {
				maybeSynced = true // the part that fits the schema may legitimately have been applied ...
				if cfg.G > applied.G {
					applied.G = cfg.G // ... and with it a raised global limit may have been propagated
				}
				if cfg.GB > applied.GB {
					applied.GB = cfg.GB
				}
			}
			r.Count("allocate_illtyped_"+st.Variant, 1)
		case "unknown":
			gw.cs.setUnknown(true)
		case "none":
			roundTrip = false
		case "reconfig":
			// the local limit follows at once (localWrapper.Sync); the changed global limit reaches the remote limiter with
			// the next answer (remoteWrapper.Sync clamps against the configuration current at that time)
			roundTrip = false
			cfg.L, cfg.G, cfg.LB, cfg.GB = st.NL, st.NG, st.NLB, st.NGB
			gw.cfg = cfg
			if p := vkit.Safely(func() {
				gw.lim.Sync(proxyv1alpha1.FlowControl{Schemas: []proxyv1alpha1.FlowControlSchema{cfg.schema()}})
			}); p != nil {
				r.Violation(fmt.Sprintf("C09/allocate-%s/panic/reconfigure", cfg.Type), fmt.Sprintf("UpstreamLimiter.Sync panicked: %v", p), h)
				return
			}
			r.Count("allocate_reconfigurations", 1)
		}

		before := gw.cs.allocCalls
		if roundTrip {
			if p := vkit.Safely(func() { gw.reconcileOnce() }); p != nil {
				r.Violation(fmt.Sprintf("C09/allocate-%s/panic/reconcile/%s", cfg.Type, st.Kind),
					fmt.Sprintf("the allocate round trip panicked on a %s reply: %v", st.Kind, p), h)
				return
			}
			if st.Kind != "unknown" && gw.cs.allocCalls == before {
				r.Inconclusive("allocate round trip did not reach the stub server")
				return
			}
		}
		if delivered {
			// attribution: is the configuration in effect still the one the FIRST answer installed? (an identical answer
			// again changes nothing)
			if !synced {
				origin = "first-answer"
			} else if cur != last {
				origin = "later-answer"
			}
			synced = true
			ill, ambiguous, maybeSynced = "", false, false
			last = cur
			grants = append(grants, cur)
			applied = cfg // remoteWrapper.Sync ran: the remote limiter now knows the current global limit
		}
		r.Count("allocate_steps", 1)
		r.Count("allocate_step_"+st.Kind, 1)
		r.Eval(1)

		// ---- probe + oracle ----
		// The oracle judges against the CURRENT configuration: the local limit as soon as Sync returned, the global limit
		// once it was propagated to the remote limiter (= the next delivered answer). Until then the remote limiter is
		// judged against the global limit it was last synced under; a remote limit above the new global limit in that
		// window is counted (allocate_reconfig_unpropagated_above_new_global), not judged.
		current := cfg
		cfg := cfg
		remoteMayBeInEffect := st.Ready && synced
		if remoteMayBeInEffect {
			cfg.G, cfg.GB = applied.G, applied.GB
		}
		gBound, gbBound := cfg.G, cfg.GB // "never more than global"; a fallback to the (new, larger) local limit is legitimate too
		if cfg.L > gBound {
			gBound = cfg.L
		}
		if cfg.LB > gbBound {
			gbBound = cfg.LB
		}
		position := origin
		gc := grantClass(cfg, last.q, last.b)
		if ill != "" {
			position, gc = "ill-typed-reply", ill
		}
		state := "ready-synced"
		switch {
		case !st.Ready:
			state = "not-ready"
		case !synced:
			state = "never-synced"
		case !delivered:
			state = "failing-after-sync"
		}

		if !isTB {
			var E int
			capMI := probeCap(gBound, 5)
			if cfg.G > 1<<20 {
				r.Count("allocate_probes_huge_global", 1)
			}
			if p := vkit.Safely(func() { E = probeInflight(gw, capMI) }); p != nil {
				r.Violation(fmt.Sprintf("C09/allocate-maxinflight/panic/admission/%s", state), fmt.Sprintf("TryAcquire/Release panicked: %v", p), h)
				return
			}
			st.E = E
			if E == int(cfg.L) {
				r.Count("allocate_probe_local_in_effect", 1)
			} else {
				r.Count("allocate_probe_remote_in_effect", 1)
			}
			if remoteMayBeInEffect && E > int(current.G) && E <= int(gBound) {
				r.Count("allocate_reconfig_unpropagated_above_new_global", 1)
			}
			switch {
			case E > int(gBound):
				r.Violation(fmt.Sprintf("C09/allocate-maxinflight/exceeds-global/%s/%s", position, gc),
					fmt.Sprintf("max-in-flight schema local=%d global=%d, allocate strategy: after step %d (%s, last delivered quota %d, %s) the gateway admitted %d concurrent requests (probe capped at global+5)",
						cfg.L, cfg.G, si, st.Kind, last.q, position, E), trimmed(h, si))
				tainted = true
				continue // later steps: only "<= global" is judged (other clauses could be consequences of this defect)
			case tainted:
			case ambiguous && (state == "failing-after-sync" || (state == "never-synced" && maybeSynced)):
				r.Count("allocate_illtyped_probes_only_global_judged", 1)
			case state == "not-ready" || state == "never-synced":
				if E != int(cfg.L) {
					r.Violation(fmt.Sprintf("C09/allocate-maxinflight/fallback-not-local/%s", state),
						fmt.Sprintf("max-in-flight schema local=%d global=%d: state %s at step %d but the effective limit is %d, not the local limit", cfg.L, cfg.G, state, si, E), trimmed(h, si))
					return
				}
			case state == "failing-after-sync":
				// {local, last granted quota}; a last quota outside [1,global] may have been clamped either way: any value <= global
				if last.q >= 1 && last.q <= cfg.G && int(last.q) < capMI && E != int(cfg.L) && E != int(last.q) {
					r.Violation("C09/allocate-maxinflight/fallback-not-local/failing-after-sync",
						fmt.Sprintf("max-in-flight schema local=%d global=%d: server failing at step %d (%s) after quota %d; effective limit %d is neither the local limit nor the last granted quota", cfg.L, cfg.G, si, st.Kind, last.q, E), trimmed(h, si))
					return
				}
			default: // ready, grant delivered in this step
				if last.q >= 1 && last.q <= cfg.G && int(last.q) < capMI {
					r.Count("allocate_recovery_checks", 1)
					if E != int(last.q) {
						r.Violation(fmt.Sprintf("C09/allocate-maxinflight/quota-not-applied/%s", position),
							fmt.Sprintf("max-in-flight schema local=%d global=%d: server granted quota %d at step %d (ready) but the effective limit is %d", cfg.L, cfg.G, last.q, si, E), trimmed(h, si))
						return
					}
				}
			}
			continue
		}

		// token bucket: sound one-sided window bounds, per probe
		cap := probeCap(gbBound, 5)
		if cfg.G > 1<<20 {
			r.Count("allocate_probes_huge_global", 1)
		}
		var n int
		var t0, t1 int64
		if p := vkit.Safely(func() { n, t0, t1 = probeBucket(gw, cap) }); p != nil {
			r.Violation(fmt.Sprintf("C09/allocate-tokenbucket/panic/admission/%s", state), fmt.Sprintf("TryAcquire/Release panicked: %v", p), h)
			return
		}
		// sampled second look after a short sleep: exposes a rate (not only a burst) far above the bound; one window
		// from the first call of the first drain to the last admission of the second
		if g.Chance(0.12) {
			time.Sleep(15 * time.Millisecond)
			var n2 int
			var u1 int64
			if p := vkit.Safely(func() { n2, _, u1 = probeBucket(gw, cap) }); p == nil && n2 > 0 {
				n += n2
				t1 = u1
			}
			r.Count("allocate_tb_rate_probes", 1)
		}
		dt := float64(t1-t0) / 1e9
		st.E, st.Dt = n, dt
		bound := func(q, b int32) float64 { return float64(b) + float64(q)*dt + 1 } // +1: float rounding slack
		remoteInEffect := state == "ready-synced" || state == "failing-after-sync"
		if remoteInEffect {
			r.Count("allocate_probe_remote_in_effect", 1)
		} else {
			r.Count("allocate_probe_local_in_effect", 1)
		}
		switch {
		case float64(n) > bound(gBound, gbBound):
			r.Violation(fmt.Sprintf("C09/allocate-tokenbucket/exceeds-global/%s/%s", position, gc),
				fmt.Sprintf("token-bucket schema local=(%d qps, burst %d) global=(%d qps, burst %d), allocate strategy: after step %d (%s, last delivered (qps %d, burst %d), %s) the gateway admitted %d requests within %.6fs (probe capped at global burst+5); the global bucket allows at most %.1f",
					cfg.L, cfg.LB, cfg.G, cfg.GB, si, st.Kind, last.q, last.b, position, n, dt, bound(gBound, gbBound)-1), trimmed(h, si))
			tainted = true
			continue
		case tainted:
		case ambiguous && (state == "failing-after-sync" || (state == "never-synced" && maybeSynced)):
			r.Count("allocate_illtyped_probes_only_global_judged", 1)
		case !remoteInEffect:
			if float64(n) > bound(cfg.L, cfg.LB) {
				r.Violation(fmt.Sprintf("C09/allocate-tokenbucket/fallback-not-local/%s", state),
					fmt.Sprintf("token-bucket schema local=(%d,%d) global=(%d,%d): state %s at step %d but %d requests were admitted within %.6fs, more than the local bucket allows", cfg.L, cfg.LB, cfg.G, cfg.GB, state, si, n, dt), trimmed(h, si))
				return
			}
		case state == "failing-after-sync":
			qc, bc := clampI32(last.q, 0, cfg.G), clampI32(last.b, 0, cfg.GB)
			if qc < cfg.L {
				qc = cfg.L
			}
			if bc < cfg.LB {
				bc = cfg.LB
			}
			if float64(n) > bound(qc, bc) {
				r.Violation(fmt.Sprintf("C09/allocate-tokenbucket/fallback-not-local/failing-after-sync/%s/%s", position, gc),
					fmt.Sprintf("token-bucket schema local=(%d,%d) global=(%d,%d): server failing at step %d after grant (%d,%d); %d admitted within %.6fs exceeds both the local bucket and the last granted one", cfg.L, cfg.LB, cfg.G, cfg.GB, si, last.q, last.b, n, dt), trimmed(h, si))
				return
			}
		default:
			if last.q >= 1 && last.q <= cfg.G && last.b >= 0 && last.b <= cfg.GB {
				r.Count("allocate_recovery_checks", 1)
				if float64(n) > bound(last.q, last.b) {
					r.Violation(fmt.Sprintf("C09/allocate-tokenbucket/quota-not-applied/%s/above", position),
						fmt.Sprintf("token-bucket schema local=(%d,%d) global=(%d,%d): server granted (%d qps, burst %d) at step %d (ready) but %d requests were admitted within %.6fs", cfg.L, cfg.LB, cfg.G, cfg.GB, last.q, last.b, si, n, dt), trimmed(h, si))
					return
				}
				// lower side (sampled): a bucket of rate q that was just drained must admit one request 1.5/q later
				if last.b >= 1 && last.q >= 40 && g.Chance(0.25) {
					time.Sleep(time.Duration(1.5/float64(last.q)*1e9)*time.Nanosecond + time.Millisecond)
					ok := false
					if p := vkit.Safely(func() {
						fc := gw.fc()
						ok = fc.TryAcquire()
						if ok {
							fc.Release()
						}
					}); p == nil {
						r.Count("allocate_tb_lower_checks", 1)
						if !ok {
							r.Violation(fmt.Sprintf("C09/allocate-tokenbucket/quota-not-applied/%s/below", position),
								fmt.Sprintf("token-bucket schema local=(%d,%d) global=(%d,%d): server granted (%d qps, burst %d) at step %d (ready); the drained bucket refused a request %.1f ms later", cfg.L, cfg.LB, cfg.G, cfg.GB, last.q, last.b, si, 1.5/float64(last.q)*1e3+1), trimmed(h, si))
							return
						}
					}
				}
			}
		}
	}
	if r.WantSample() && nontrivial {
		r.Sample(map[string]interface{}{"kind": "allocate-history", "history": h})
	}
}

// trimmed returns the history up to and including step si (the witness).
func trimmed(h *allocHistory, si int) *allocHistory {
	out := &allocHistory{Cfg: h.Cfg}
	out.Steps = append(out.Steps, h.Steps[:si+1]...)
	return out
}
