package c09

import (
	"context"
	"encoding/json"
	"fmt"
	"io"
	"net/http"
	"net/http/httptest"
	"strings"
	"sync"
	"sync/atomic"
	"time"

	metav1 "k8s.io/apimachinery/pkg/apis/meta/v1"
	"k8s.io/client-go/rest"

	proxyv1alpha1 "github.com/kubewharf/kubegateway/pkg/apis/proxy/v1alpha1"
	"github.com/kubewharf/kubegateway/pkg/flowcontrols"
	"github.com/kubewharf/kubegateway/pkg/flowcontrols/flowcontrol"
	"github.com/kubewharf/kubegateway/pkg/ratelimiter/clientsets"

	"verifharness/vkit"
)

// ---------------------------------------------------------------------------------------------------------------------
// (D) the REAL clientsets.ClientSets (endpoint sync every 2 s, heartbeat every 1 s, 5 s hysteresis before
// "not ready") against a stub limiter HTTP server, and the real 2 s reconcile ticker. One outage and one recovery per
// gateway. Every step waits for an observed event (generous watchdog = inconclusive); every probe is judged by the
// readiness the client set reported immediately before AND after it (readiness only changes on heartbeat ticks).
// ---------------------------------------------------------------------------------------------------------------------

type stubLimiterServer struct {
	srv     *httptest.Server
	healthy int32
	quota   int32
	cfg     schemaCfg
	mu      sync.Mutex
	hb      int64
	alloc   int64
}

func newStubLimiterServer(cfg schemaCfg, quota int32) *stubLimiterServer {
	s := &stubLimiterServer{cfg: cfg, healthy: 1, quota: quota}
	s.srv = httptest.NewServer(http.HandlerFunc(s.serve))
	return s
}

func (s *stubLimiterServer) serve(w http.ResponseWriter, req *http.Request) {
	body, _ := io.ReadAll(req.Body)
	ok := atomic.LoadInt32(&s.healthy) != 0
	writeJSON := func(code int, v interface{}) {
		w.Header().Set("Content-Type", "application/json")
		w.WriteHeader(code)
		_ = json.NewEncoder(w).Encode(v)
	}
	fail := func() {
		writeJSON(500, &metav1.Status{TypeMeta: metav1.TypeMeta{Kind: "Status", APIVersion: "v1"}, Status: "Failure", Code: 500, Reason: metav1.StatusReasonInternalError, Message: "limiter is down"})
	}
	switch {
	case req.URL.Path == clientsets.ServerInfoUrl:
		// endpoint discovery keeps working (it is a different server in production: any member of the service)
		writeJSON(200, &proxyv1alpha1.RateLimitServerInfo{Server: s.srv.URL, ID: "limiter-0", ShardCount: 1, ManagedShards: []int32{0},
			Endpoints: []proxyv1alpha1.EndpointInfo{{Leader: s.srv.URL, ShardID: 0}}})
	case req.URL.Path == clientsets.HeartBeatUrl:
		atomic.AddInt64(&s.hb, 1)
		if !ok {
			fail()
			return
		}
		w.WriteHeader(200)
		_, _ = w.Write([]byte("ok"))
	case strings.HasSuffix(req.URL.Path, "/status") && req.Method == http.MethodPut:
		atomic.AddInt64(&s.alloc, 1)
		if !ok {
			fail()
			return
		}
		in := &proxyv1alpha1.RateLimitCondition{}
		_ = json.Unmarshal(body, in)
		out := allocReply(in, allocItem(s.cfg, atomic.LoadInt32(&s.quota), 0))
		out.TypeMeta = metav1.TypeMeta{Kind: "RateLimitCondition", APIVersion: proxyv1alpha1.SchemeGroupVersion.String()}
		writeJSON(200, out)
	default:
		fail()
	}
}

func heartbeatPhase(r *vkit.R) {
	n := r.N(4, 24)
	var wg sync.WaitGroup
	base := r.Rng.Fork("heartbeat")
	for i := 0; i < n; i++ {
		g := base.Sub(i)
		wg.Add(1)
		go func() {
			defer wg.Done()
			runHeartbeatCase(r, g)
		}()
	}
	wg.Wait()
}

func runHeartbeatCase(r *vkit.R, g *vkit.Rand) {
	G := int32(g.Range(8, 30))
	L := int32(g.Range(1, int(G)-3))
	cfg := schemaCfg{Strategy: string(proxyv1alpha1.GlobalAllocateLimit), Type: "maxinflight", L: L, G: G}
	pick := func(not ...int32) int32 {
		for {
			q := int32(g.Range(1, int(G)))
			okq := q != L
			for _, x := range not {
				if q == x {
					okq = false
				}
			}
			if okq {
				return q
			}
		}
	}
	q0 := pick()
	q2 := pick(q0)
	srv := newStubLimiterServer(cfg, q0)
	defer srv.srv.Close()

	ctx, cancel := context.WithCancel(context.Background())
	defer cancel()
	cs := clientsets.NewClientSetsWithRestConfig(ctx, srv.srv.URL, "c09", &rest.Config{Host: srv.srv.URL})
	lim := flowcontrols.NewUpstreamLimiter(ctx, clusterName, "", cs)
	lim.Sync(proxyv1alpha1.FlowControl{Schemas: []proxyv1alpha1.FlowControlSchema{cfg.schema()}})
	lim.ResetLimiter(flowcontrol.RemoteFlowControls)
	defer func() {
		flowcontrols.VerifStop(lim)
		for _, c := range lim.AllFlowControls() {
			c.Stop()
		}
	}()

	type obs struct {
		Phase         string `json:"phase"`
		ReadyBefore   bool   `json:"readyBefore"`
		ReadyAfter    bool   `json:"readyAfter"`
		E             int    `json:"effective"`
		ServerHealthy bool   `json:"serverHealthy"`
	}
	var trace []obs
	granted := map[int]bool{int(q0): true} // quotas the server has been configured to grant so far
	violated := false
	probe := func(phase string) obs {
		o := obs{Phase: phase, ServerHealthy: atomic.LoadInt32(&srv.healthy) != 0}
		o.ReadyBefore = cs.IsReady(clusterName)
		fc := lim.GetOrDefault(schemaName)
		n := 0
		if p := vkit.Safely(func() {
			for n < int(G)+5 && fc.TryAcquire() {
				n++
			}
			for i := 0; i < n; i++ {
				fc.Release()
			}
		}); p != nil {
			r.Count("hb_admission_panics_not_judged", 1)
			o.E = -1
			return o
		}
		o.ReadyAfter = cs.IsReady(clusterName)
		o.E = n
		if len(trace) == 0 || trace[len(trace)-1] != o {
			trace = append(trace, o)
		}
		r.Count("hb_probes", 1)
		if violated {
			return o
		}
		witness := func() interface{} { return map[string]interface{}{"schema": cfg, "q0": q0, "q2": q2, "trace": trace} }
		switch {
		case n > int(G):
			violated = true
			r.Violation("C09/allocate-maxinflight/exceeds-global/real-heartbeat", fmt.Sprintf("max-in-flight local=%d global=%d, real client set: %d admitted at once in phase %s", L, G, n, phase), witness())
		case !o.ReadyBefore && !o.ReadyAfter:
			r.Count("hb_probes_not_ready", 1)
			if n != int(L) {
				violated = true
				r.Violation("C09/allocate-maxinflight/fallback-not-local/not-ready",
					fmt.Sprintf("max-in-flight local=%d global=%d, real client set (heartbeat hysteresis): the client set reports not ready before and after the probe but the effective limit is %d (phase %s)", L, G, n, phase), witness())
			}
		case o.ReadyBefore && o.ReadyAfter:
			r.Count("hb_probes_ready", 1)
			if n != int(L) && !granted[n] {
				violated = true
				r.Violation("C09/allocate-maxinflight/fallback-not-local/failing-after-sync",
					fmt.Sprintf("max-in-flight local=%d global=%d, real client set: effective limit %d is neither the local limit nor a quota the server ever granted (%d, %d) (phase %s)", L, G, n, q0, q2, phase), witness())
			}
		}
		return o
	}
	waitFor := func(phase string, d time.Duration, cond func(o obs) bool) bool {
		deadline := time.Now().Add(d)
		for time.Now().Before(deadline) {
			if cond(probe(phase)) {
				return true
			}
			time.Sleep(50 * time.Millisecond)
		}
		return false
	}

	r.Eval(1)
	r.Distinct(vkit.Hash64(fmt.Sprintf("hb|%+v|%d|%d", cfg, q0, q2)))
	// 1. discovery + first heartbeat + first allocate round trip
	if !waitFor("startup", 40*time.Second, func(o obs) bool { return o.ReadyBefore && o.ReadyAfter && o.E == int(q0) }) {
		if !violated {
			r.Inconclusive("real client set: the first granted quota was not observed within 40 s")
		}
		return
	}
	// 2. outage: heartbeats and allocate calls fail; ready must hold for the hysteresis, then drop
	atomic.StoreInt32(&srv.healthy, 0)
	if !waitFor("outage", 60*time.Second, func(o obs) bool { return !o.ReadyBefore && !o.ReadyAfter }) {
		if !violated {
			r.Inconclusive("real client set: never reported not ready within 60 s of failing heartbeats")
		}
		return
	}
	r.Count("hb_outages_reached_not_ready", 1)
	waitFor("outage-not-ready", 1500*time.Millisecond, func(o obs) bool { return false })
	// 3. recovery with a different quota
	atomic.StoreInt32(&srv.quota, q2)
	granted[int(q2)] = true
	atomic.StoreInt32(&srv.healthy, 1)
	if !waitFor("recovery", 60*time.Second, func(o obs) bool { return o.ReadyBefore && o.ReadyAfter && o.E == int(q2) }) {
		if !violated {
			r.Inconclusive("real client set: the quota granted after recovery was not observed within 60 s")
		}
		return
	}
	r.Count("hb_recoveries_observed", 1)
	if r.WantSample() {
		r.Sample(map[string]interface{}{"kind": "real-heartbeat-case", "schema": cfg, "q0": q0, "q2": q2, "trace": trace})
	}
}
