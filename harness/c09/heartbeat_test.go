package c09

import (
	"context"
	"encoding/json"
	"fmt"
	"io"
	"net/http"
	"net/http/httptest"
	"strings"
	"sync"
	"sync/atomic"
	"time"

	metav1 "k8s.io/apimachinery/pkg/apis/meta/v1"
	"k8s.io/client-go/rest"

	proxyv1alpha1 "github.com/kubewharf/kubegateway/pkg/apis/proxy/v1alpha1"
	"github.com/kubewharf/kubegateway/pkg/flowcontrols"
	"github.com/kubewharf/kubegateway/pkg/flowcontrols/flowcontrol"
	"github.com/kubewharf/kubegateway/pkg/ratelimiter/clientsets"
	limitutil "github.com/kubewharf/kubegateway/pkg/ratelimiter/util"

	"verifharness/bed"
	"verifharness/vkit"
)

// ---------------------------------------------------------------------------------------------------------------------
// (D) the REAL clientsets.ClientSets (endpoint sync every 2 s, heartbeat every 1 s, 5 s hysteresis before "not ready")
// against a sharded stub limiter service: two shards, each with its own leader (an HTTP server); one real client set (as
// in a gateway process) serves two real UpstreamLimiters, one per upstream cluster, the cluster names chosen so that one
// hashes to each shard (util.GetShardID). Real 2 s reconcile ticker. Per case: the leader of ONE shard goes down
// (heartbeats and allocate calls answered 500) for longer than the hysteresis while the other stays healthy, then it
// recovers with a different quota.
//
// Every probe of an upstream is judged by the readiness the client set reported for THAT upstream immediately before AND
// after the probe (readiness only changes on heartbeat ticks):
//   not ready -> effective limit = local; ready -> effective limit in {local, a quota the server granted}; always <= global.
// Waiting for an event (first quota, "not ready", recovered quota) has a generous watchdog = inconclusive, with one
// exception that is an observation, not a timeout: the stub logs every heartbeat it receives; if the dead leader has
// answered >= 10 consecutive heartbeats with an error over >= 8 s (twice what the hysteresis needs) and the client set
// still reports the upstream of that shard ready, before and after a probe that finds a limit other than the local one,
// the instance is not enforcing the local limit while its limiter server is down.
// ---------------------------------------------------------------------------------------------------------------------

type hbRec struct {
	at int64
	ok bool
}

type leaderStub struct {
	shard   int
	srv     *httptest.Server
	healthy int32
	mu      sync.Mutex
	hb      []hbRec
	svc     *shardedLimiter
}

type shardedLimiter struct {
	leaders   []*leaderStub
	mu        sync.Mutex
	quota     map[string]int32     // upstream cluster -> quota an allocate call is answered with
	cfg       map[string]schemaCfg // upstream cluster -> schema
	misrouted int64                // allocate calls that reached the leader of another shard
	topo      []int                // shard -> index of its leader; len(topo) = the shard count the service publishes (re-sharding changes it)
	served    map[string][]int64   // upstream cluster -> times of the allocate calls that were answered with a quota
}

func newShardedLimiter(n int) *shardedLimiter {
	s := &shardedLimiter{quota: map[string]int32{}, cfg: map[string]schemaCfg{}, served: map[string][]int64{}}
	for i := 0; i < n; i++ {
		s.topo = append(s.topo, i)
		l := &leaderStub{shard: i, healthy: 1, svc: s}
		l.srv = bed.NewServer(http.HandlerFunc(l.serve))
		s.leaders = append(s.leaders, l)
	}
	return s
}

func (s *shardedLimiter) close() {
	for _, l := range s.leaders {
		l.srv.Close()
	}
}

func (s *shardedLimiter) setTopology(t []int) {
	s.mu.Lock()
	s.topo = append([]int(nil), t...)
	s.mu.Unlock()
}

func (s *shardedLimiter) topology() []int {
	s.mu.Lock()
	defer s.mu.Unlock()
	return append([]int(nil), s.topo...)
}

// servedSince counts the allocate calls for an upstream that were answered with a quota at or after t.
func (s *shardedLimiter) servedSince(upstream string, t int64) int {
	s.mu.Lock()
	defer s.mu.Unlock()
	n := 0
	for _, at := range s.served[upstream] {
		if at >= t {
			n++
		}
	}
	return n
}

// okStreakSince returns the number of consecutive answered heartbeats at the end of the log that were received at or after
// t, and the time of the first of them.
func (l *leaderStub) okStreakSince(t int64) (n int, since int64) {
	l.mu.Lock()
	defer l.mu.Unlock()
	for i := len(l.hb) - 1; i >= 0 && l.hb[i].ok && l.hb[i].at >= t; i-- {
		n++
		since = l.hb[i].at
	}
	return
}

func (s *shardedLimiter) setQuota(upstream string, q int32) {
	s.mu.Lock()
	s.quota[upstream] = q
	s.mu.Unlock()
}

// failedStreak returns the number of consecutive failed heartbeats at the end of the log and the time of the first of them.
func (l *leaderStub) failedStreak() (n int, since int64) {
	l.mu.Lock()
	defer l.mu.Unlock()
	for i := len(l.hb) - 1; i >= 0 && !l.hb[i].ok; i-- {
		n++
		since = l.hb[i].at
	}
	return
}

func (l *leaderStub) serve(w http.ResponseWriter, req *http.Request) {
	body, _ := io.ReadAll(req.Body)
	ok := atomic.LoadInt32(&l.healthy) != 0
	writeJSON := func(code int, v interface{}) {
		w.Header().Set("Content-Type", "application/json")
		w.WriteHeader(code)
		_ = json.NewEncoder(w).Encode(v)
	}
	fail := func() {
		writeJSON(500, &metav1.Status{TypeMeta: metav1.TypeMeta{Kind: "Status", APIVersion: "v1"}, Status: "Failure", Code: 500, Reason: metav1.StatusReasonInternalError, Message: "limiter is down"})
	}
	switch {
	case req.URL.Path == clientsets.ServerInfoUrl:
		// endpoint discovery keeps working (any member of the service answers it, the leader table does not change)
		topo := l.svc.topology()
		info := &proxyv1alpha1.RateLimitServerInfo{Server: l.srv.URL, ID: fmt.Sprintf("limiter-%d", l.shard), ShardCount: int32(len(topo))}
		for shard, li := range topo {
			info.Endpoints = append(info.Endpoints, proxyv1alpha1.EndpointInfo{Leader: l.svc.leaders[li].srv.URL, ShardID: int32(shard)})
			if li == l.shard {
				info.ManagedShards = append(info.ManagedShards, int32(shard))
			}
		}
		writeJSON(200, info)
	case req.URL.Path == clientsets.HeartBeatUrl:
		l.mu.Lock()
		l.hb = append(l.hb, hbRec{at: bed.Now(), ok: ok})
		l.mu.Unlock()
		if !ok {
			fail()
			return
		}
		w.WriteHeader(200)
		_, _ = w.Write([]byte("ok"))
	case strings.HasSuffix(req.URL.Path, "/status") && req.Method == http.MethodPut:
		if !ok {
			fail()
			return
		}
		in := &proxyv1alpha1.RateLimitCondition{}
		_ = json.Unmarshal(body, in)
		up := in.Spec.UpstreamCluster
		if topo := l.svc.topology(); topo[limitutil.GetShardID(up, len(topo))] != l.shard {
			atomic.AddInt64(&l.svc.misrouted, 1) // may happen for a moment right after a re-sharding
		}
		l.svc.mu.Lock()
		q, cfg := l.svc.quota[up], l.svc.cfg[up]
		l.svc.served[up] = append(l.svc.served[up], bed.Now())
		l.svc.mu.Unlock()
		out := allocReply(in, allocItem(cfg, q, 0))
		out.TypeMeta = metav1.TypeMeta{Kind: "RateLimitCondition", APIVersion: proxyv1alpha1.SchemeGroupVersion.String()}
		writeJSON(200, out)
	default:
		fail()
	}
}

func heartbeatPhase(r *vkit.R, base *vkit.Rand) {
	n := r.N(6, 24)
	var wg sync.WaitGroup
	for i := 0; i < n; i++ {
		g := base.Sub(i)
		dead := i % 2 // which shard's leader goes down: both directions in every run
		kind := i % 6
		wg.Add(1)
		go func() {
			defer wg.Done()
			switch kind {
			case 4:
				runReshardCase(r, g, true)
			case 5:
				runReshardCase(r, g, false)
			default:
				runHeartbeatCase(r, g, dead)
			}
		}()
	}
	wg.Wait()
}

// hbUpstream is one upstream cluster of the gateway: its own real UpstreamLimiter over the shared real client set.
type hbUpstream struct {
	name    string
	shard   int
	cfg     schemaCfg
	q0, q2  int32
	lim     flowcontrols.UpstreamLimiter
	granted map[int]bool
}

type hbObs struct {
	Phase       string `json:"phase"`
	Upstream    string `json:"upstream"`
	Shard       int    `json:"shard"`
	ReadyBefore bool   `json:"readyBefore"`
	ReadyAfter  bool   `json:"readyAfter"`
	E           int    `json:"effective"`
	LeaderUp    bool   `json:"leaderHealthy"`
}

func runHeartbeatCase(r *vkit.R, g *vkit.Rand, dead int) {
	const shards = 2
	svc := newShardedLimiter(shards)
	defer svc.close()

	ctx, cancel := context.WithCancel(context.Background())
	defer cancel()
	// the service address lists every member; ONE client set per gateway process
	var addrs []string
	for _, l := range svc.leaders {
		addrs = append(addrs, l.srv.URL)
	}
	cs := clientsets.NewClientSetsWithRestConfig(ctx, strings.Join(addrs, ","), "c09", &rest.Config{Host: addrs[0]})

	// one upstream cluster per shard
	ups := make([]*hbUpstream, shards)
	salt := g.Intn(1 << 20)
	for i := 0; ; i++ {
		name := fmt.Sprintf("c09-%d-%d.example", salt, i)
		sh := limitutil.GetShardID(name, shards)
		if ups[sh] == nil {
			G := int32(g.Range(8, 30))
			L := int32(g.Range(1, int(G)-3))
			u := &hbUpstream{name: name, shard: sh, cfg: schemaCfg{Strategy: string(proxyv1alpha1.GlobalAllocateLimit), Type: "maxinflight", L: L, G: G}}
			pick := func(not ...int32) int32 {
				for {
					q := int32(g.Range(1, int(G)))
					okq := q != L
					for _, x := range not {
						okq = okq && q != x
					}
					if okq {
						return q
					}
				}
			}
			u.q0 = pick()
			u.q2 = pick(u.q0)
			u.granted = map[int]bool{int(u.q0): true}
			ups[sh] = u
		}
		if ups[0] != nil && ups[1] != nil {
			break
		}
	}
	for _, u := range ups {
		svc.mu.Lock()
		svc.cfg[u.name], svc.quota[u.name] = u.cfg, u.q0
		svc.mu.Unlock()
		u.lim = flowcontrols.NewUpstreamLimiter(ctx, u.name, "", cs)
		u.lim.Sync(proxyv1alpha1.FlowControl{Schemas: []proxyv1alpha1.FlowControlSchema{u.cfg.schema()}})
		u.lim.ResetLimiter(flowcontrol.RemoteFlowControls)
	}
	defer func() {
		for _, u := range ups {
			flowcontrols.VerifStop(u.lim)
			for _, c := range u.lim.AllFlowControls() {
				c.Stop()
			}
		}
	}()

	var trace []hbObs
	lastObs := map[string]hbObs{}
	violated := false
	witness := func() interface{} {
		w := map[string]interface{}{"deadShard": dead, "trace": trace}
		for _, u := range ups {
			w[fmt.Sprintf("shard%d", u.shard)] = map[string]interface{}{"upstream": u.name, "schema": u.cfg, "quotaBefore": u.q0, "quotaAfterRecovery": u.q2}
		}
		return w
	}
	probe := func(phase string, u *hbUpstream) hbObs {
		leader := svc.leaders[u.shard]
		o := hbObs{Phase: phase, Upstream: u.name, Shard: u.shard, LeaderUp: atomic.LoadInt32(&leader.healthy) != 0}
		o.ReadyBefore = cs.IsReady(u.name)
		fc := u.lim.GetOrDefault(schemaName)
		n := 0
		if p := vkit.Safely(func() {
			for n < int(u.cfg.G)+5 && fc.TryAcquire() {
				n++
			}
			for i := 0; i < n; i++ {
				fc.Release()
			}
		}); p != nil {
			r.Count("hb_admission_panics_not_judged", 1)
			o.E = -1
			return o
		}
		o.ReadyAfter = cs.IsReady(u.name)
		o.E = n
		if last, seen := lastObs[u.name]; !seen || last != o {
			trace = append(trace, o) // the witness keeps changes only
			lastObs[u.name] = o
		}
		r.Count("hb_probes", 1)
		if violated {
			return o
		}
		L, G := u.cfg.L, u.cfg.G
		switch {
		case n > int(G):
			violated = true
			r.Violation("C09/allocate-maxinflight/exceeds-global/real-heartbeat", fmt.Sprintf("max-in-flight local=%d global=%d, real client set: %d admitted at once for upstream %s in phase %s", L, G, n, u.name, phase), witness())
		case !o.ReadyBefore && !o.ReadyAfter:
			r.Count("hb_probes_not_ready", 1)
			if n != int(L) {
				violated = true
				r.Violation("C09/allocate-maxinflight/fallback-not-local/not-ready",
					fmt.Sprintf("max-in-flight local=%d global=%d, real client set (heartbeat hysteresis): the client set reports upstream %s (shard %d) not ready before and after the probe but the effective limit is %d (phase %s)", L, G, u.name, u.shard, n, phase), witness())
			}
		case o.ReadyBefore && o.ReadyAfter:
			r.Count("hb_probes_ready", 1)
			if n != int(L) && !u.granted[n] {
				violated = true
				r.Violation("C09/allocate-maxinflight/fallback-not-local/failing-after-sync",
					fmt.Sprintf("max-in-flight local=%d global=%d, real client set: effective limit %d of upstream %s is neither the local limit nor a quota the server ever granted (%d, %d) (phase %s)", L, G, n, u.name, u.q0, u.q2, phase), witness())
				break
			}
			// the observation that is not a timeout: the leader of this upstream's shard has failed >= 10 heartbeats in a
			// row over >= 8 s (the hysteresis is 5 s, heartbeats come every second) and the upstream is still "ready"
			// and still not on its local limit
			if streak, since := leader.failedStreak(); !o.LeaderUp && streak >= 10 && bed.Now()-since >= int64(8*time.Second) && n != int(L) {
				violated = true
				r.Violation("C09/allocate-maxinflight/fallback-not-local/dead-shard-leader-still-ready",
					fmt.Sprintf("max-in-flight local=%d global=%d, real client set, %d limiter shards: the leader of shard %d has answered the last %d heartbeats in a row with an error, for %.1fs, while the leader of the other shard is healthy; the client set still reports upstream %s (shard %d) ready before and after the probe and the instance still enforces the stale quota %d instead of the local limit",
						L, G, shards, u.shard, streak, float64(bed.Now()-since)/1e9, u.name, u.shard, n), witness())
			}
		}
		return o
	}
	// waitFor probes BOTH upstreams every 50 ms until cond holds for the observations of this round
	waitFor := func(phase string, d time.Duration, cond func(o []hbObs) bool) bool {
		deadline := time.Now().Add(d)
		for time.Now().Before(deadline) && !violated {
			o := []hbObs{probe(phase, ups[0]), probe(phase, ups[1])}
			if !violated && cond(o) {
				return true
			}
			time.Sleep(50 * time.Millisecond)
		}
		return false
	}
	readyWith := func(o hbObs, q int32) bool { return o.ReadyBefore && o.ReadyAfter && o.E == int(q) }
	notReady := func(o hbObs) bool { return !o.ReadyBefore && !o.ReadyAfter }

	r.Eval(1)
	r.Distinct(vkit.Hash64(fmt.Sprintf("hb|%d|%+v|%+v|%d|%d|%d|%d", dead, ups[0].cfg, ups[1].cfg, ups[0].q0, ups[1].q0, ups[0].q2, ups[1].q2)))
	D, S := ups[dead], ups[1-dead] // the upstream whose shard leader dies, and the one whose leader survives
	// 1. discovery + first heartbeats + first allocate round trips
	if !waitFor("startup", 40*time.Second, func(o []hbObs) bool { return readyWith(o[0], ups[0].q0) && readyWith(o[1], ups[1].q0) }) {
		if !violated {
			r.Inconclusive("real client set: the first granted quotas were not observed within 40 s")
		}
		return
	}
	// 2. the leader of one shard goes down; the other one stays healthy
	atomic.StoreInt32(&svc.leaders[dead].healthy, 0)
	survivorLostReady := false
	if !waitFor("outage", 60*time.Second, func(o []hbObs) bool {
		if notReady(o[S.shard]) {
			survivorLostReady = true
		}
		return notReady(o[D.shard])
	}) {
		if !violated {
			r.Inconclusive("real client set: never reported the upstream of the dead shard not ready within 60 s of failing heartbeats")
		}
		return
	}
	r.Count("hb_outages_reached_not_ready", 1)
	waitFor("outage-not-ready", 1500*time.Millisecond, func(o []hbObs) bool {
		if notReady(o[S.shard]) {
			survivorLostReady = true
		}
		return false
	})
	if violated {
		return
	}
	// the upstream of the healthy shard keeps its quota (it may only ever be on {local, quota}; here: still the quota)
	if o := probe("outage-survivor", S); readyWith(o, S.q0) {
		r.Count("hb_survivor_kept_quota", 1)
	}
	if survivorLostReady {
		r.Count("hb_survivor_reported_not_ready_observed", 1) // not demanded by the statement; written down
	}
	// 3. recovery with a different quota
	svc.setQuota(D.name, D.q2)
	D.granted[int(D.q2)] = true
	atomic.StoreInt32(&svc.leaders[dead].healthy, 1)
	if !waitFor("recovery", 60*time.Second, func(o []hbObs) bool { return readyWith(o[D.shard], D.q2) }) {
		if !violated {
			r.Inconclusive("real client set: the quota granted after recovery was not observed within 60 s")
		}
		return
	}
	r.Count("hb_recoveries_observed", 1)
	r.Count("hb_allocate_calls_misrouted", int(atomic.LoadInt64(&svc.misrouted)))
	if r.WantSample() {
		r.Sample(map[string]interface{}{"kind": "real-heartbeat-case", "case": witness()})
	}
}

// runReshardCase: the limiter service is RE-SHARDED while the gateway runs (the published shard count changes, so an
// upstream cluster moves to another shard, util.GetShardID(name, count)); the old and the new shard differ in health.
//
//	toDead:    1 shard (leader H, healthy) -> 2 shards, upstream U now on shard 1 whose leader D answers every heartbeat and
//	           allocate call with an error, upstream V stays on shard 0 (H). After the hysteresis U must be reported not
//	           ready and be on its local limit; V keeps its quota. Then D recovers with a new quota for U.
//	toHealthy: 2 shards (U on shard 1 = D, healthy) -> 1 shard (H) while D goes down for good: U is served by a healthy
//	           leader that grants it a new quota, which must take effect.
//
// Probes are judged as in runHeartbeatCase (readiness read before and after). Watchdogs are inconclusive except for two
// observations at the stub: (toDead) D has failed >= 10 heartbeats in a row over >= 8 s and U is still reported ready and
// not on its local limit; (toHealthy) since the re-sharding H, which leads U's shard now and grants U's new quota, has
// answered >= 10 heartbeats in a row over >= 8 s and U is still reported not ready (and therefore sits on its local limit).
func runReshardCase(r *vkit.R, g *vkit.Rand, toDead bool) {
	svc := newShardedLimiter(2)
	defer svc.close()
	H, D := svc.leaders[0], svc.leaders[1]
	if toDead {
		svc.setTopology([]int{0})
		atomic.StoreInt32(&D.healthy, 0)
	}
	ctx, cancel := context.WithCancel(context.Background())
	defer cancel()
	cs := clientsets.NewClientSetsWithRestConfig(ctx, H.srv.URL+","+D.srv.URL, "c09", &rest.Config{Host: H.srv.URL})

	mk := func(wantShardOf2 int) *hbUpstream {
		salt := g.Intn(1 << 20)
		for i := 0; ; i++ {
			name := fmt.Sprintf("c09-rs-%d-%d.example", salt, i)
			if limitutil.GetShardID(name, 2) != wantShardOf2 {
				continue
			}
			G := int32(g.Range(8, 30))
			L := int32(g.Range(1, int(G)-3))
			u := &hbUpstream{name: name, shard: wantShardOf2, cfg: schemaCfg{Strategy: string(proxyv1alpha1.GlobalAllocateLimit), Type: "maxinflight", L: L, G: G}}
			for u.q0 == 0 || u.q0 == L {
				u.q0 = int32(g.Range(1, int(G)))
			}
			for u.q2 == 0 || u.q2 == L || u.q2 == u.q0 {
				u.q2 = int32(g.Range(1, int(G)))
			}
			u.granted = map[int]bool{int(u.q0): true}
			return u
		}
	}
	U, V := mk(1), mk(0)
	for _, u := range []*hbUpstream{U, V} {
		svc.mu.Lock()
		svc.cfg[u.name], svc.quota[u.name] = u.cfg, u.q0
		svc.mu.Unlock()
		u.lim = flowcontrols.NewUpstreamLimiter(ctx, u.name, "", cs)
		u.lim.Sync(proxyv1alpha1.FlowControl{Schemas: []proxyv1alpha1.FlowControlSchema{u.cfg.schema()}})
		u.lim.ResetLimiter(flowcontrol.RemoteFlowControls)
	}
	defer func() {
		for _, u := range []*hbUpstream{U, V} {
			flowcontrols.VerifStop(u.lim)
			for _, c := range u.lim.AllFlowControls() {
				c.Stop()
			}
		}
	}()

	var trace []hbObs
	lastObs := map[string]hbObs{}
	violated := false
	var reshardedAt int64
	kindName := "resharded-to-dead-leader"
	if !toDead {
		kindName = "resharded-to-healthy-leader"
	}
	witness := func() interface{} {
		return map[string]interface{}{"case": kindName, "trace": trace,
			"U": map[string]interface{}{"upstream": U.name, "shardOf2": 1, "schema": U.cfg, "quotaBefore": U.q0, "quotaAfter": U.q2},
			"V": map[string]interface{}{"upstream": V.name, "shardOf2": 0, "schema": V.cfg, "quota": V.q0}}
	}
	probe := func(phase string, u *hbUpstream) hbObs {
		topo := svc.topology()
		sh := limitutil.GetShardID(u.name, len(topo))
		leader := svc.leaders[topo[sh]]
		o := hbObs{Phase: phase, Upstream: u.name, Shard: sh, LeaderUp: atomic.LoadInt32(&leader.healthy) != 0}
		o.ReadyBefore = cs.IsReady(u.name)
		fc := u.lim.GetOrDefault(schemaName)
		n := 0
		if p := vkit.Safely(func() {
			for n < int(u.cfg.G)+5 && fc.TryAcquire() {
				n++
			}
			for i := 0; i < n; i++ {
				fc.Release()
			}
		}); p != nil {
			r.Count("hb_admission_panics_not_judged", 1)
			o.E = -1
			return o
		}
		o.ReadyAfter = cs.IsReady(u.name)
		o.E = n
		if last, seen := lastObs[u.name]; !seen || last != o {
			trace = append(trace, o)
			lastObs[u.name] = o
		}
		r.Count("hb_probes", 1)
		if violated {
			return o
		}
		L, G := u.cfg.L, u.cfg.G
		switch {
		case n > int(G):
			violated = true
			r.Violation("C09/allocate-maxinflight/exceeds-global/real-heartbeat", fmt.Sprintf("max-in-flight local=%d global=%d, real client set, re-sharding: %d admitted at once for upstream %s in phase %s", L, G, n, u.name, phase), witness())
		case !o.ReadyBefore && !o.ReadyAfter:
			r.Count("hb_probes_not_ready", 1)
			if n != int(L) {
				violated = true
				r.Violation("C09/allocate-maxinflight/fallback-not-local/not-ready",
					fmt.Sprintf("max-in-flight local=%d global=%d, real client set, re-sharding: upstream %s reported not ready before and after the probe but the effective limit is %d (phase %s)", L, G, u.name, n, phase), witness())
				break
			}
			// toHealthy observation: the leader that serves this upstream since the re-sharding is healthy and has been for a long time
			if !toDead && u == U && reshardedAt != 0 {
				if streak, since := leader.okStreakSince(reshardedAt); streak >= 10 && bed.Now()-since >= int64(8*time.Second) {
					violated = true
					r.Violation("C09/allocate-maxinflight/quota-not-applied/"+kindName+"-still-not-ready",
						fmt.Sprintf("max-in-flight local=%d global=%d, real client set: the limiter service was re-sharded from 2 shards to 1; the leader that serves upstream %s since then has answered %d heartbeats in a row for %.1fs, yet the client set still reports the upstream not ready and the instance stays on its local limit instead of the quota %d that leader grants",
							L, G, u.name, streak, float64(bed.Now()-since)/1e9, u.q2), witness())
				}
			}
		case o.ReadyBefore && o.ReadyAfter:
			r.Count("hb_probes_ready", 1)
			if n != int(L) && !u.granted[n] {
				violated = true
				r.Violation("C09/allocate-maxinflight/fallback-not-local/failing-after-sync",
					fmt.Sprintf("max-in-flight local=%d global=%d, real client set, re-sharding: effective limit %d of upstream %s is neither the local limit nor a quota the server ever granted (phase %s)", L, G, n, u.name, phase), witness())
				break
			}
			if streak, since := leader.failedStreak(); toDead && u == U && reshardedAt != 0 && !o.LeaderUp && streak >= 10 && bed.Now()-since >= int64(8*time.Second) && n != int(L) {
				violated = true
				r.Violation("C09/allocate-maxinflight/fallback-not-local/"+kindName+"-still-ready",
					fmt.Sprintf("max-in-flight local=%d global=%d, real client set: the limiter service was re-sharded from 1 shard to 2 and upstream %s now belongs to shard 1, whose leader has answered the last %d heartbeats in a row with an error, for %.1fs (the leader of shard 0 is healthy); the client set still reports the upstream ready before and after the probe and the instance still enforces the old shard's quota %d instead of the local limit",
						L, G, u.name, streak, float64(bed.Now()-since)/1e9, n), witness())
			}
		}
		return o
	}
	waitFor := func(phase string, d time.Duration, cond func(u, v hbObs) bool) bool {
		deadline := time.Now().Add(d)
		for time.Now().Before(deadline) && !violated {
			u, v := probe(phase, U), probe(phase, V)
			if !violated && cond(u, v) {
				return true
			}
			time.Sleep(50 * time.Millisecond)
		}
		return false
	}
	readyWith := func(o hbObs, q int32) bool { return o.ReadyBefore && o.ReadyAfter && o.E == int(q) }
	notReady := func(o hbObs) bool { return !o.ReadyBefore && !o.ReadyAfter }

	r.Eval(1)
	r.Distinct(vkit.Hash64(fmt.Sprintf("hb-reshard|%v|%+v|%+v|%d|%d", toDead, U.cfg, V.cfg, U.q0, U.q2)))
	if !waitFor("startup", 40*time.Second, func(u, v hbObs) bool { return readyWith(u, U.q0) && readyWith(v, V.q0) }) {
		if !violated {
			r.Inconclusive("real client set, re-sharding case: the first granted quotas were not observed within 40 s")
		}
		return
	}
	// ---- re-sharding ----
	if toDead {
		svc.setTopology([]int{0, 1}) // D (down) leads the new shard 1
		reshardedAt = bed.Now()
		if !waitFor("resharded", 60*time.Second, func(u, v hbObs) bool { return notReady(u) }) {
			if !violated {
				r.Inconclusive("real client set, re-sharding case: the upstream that moved to the shard of a dead leader was never reported not ready within 60 s")
			}
			return
		}
		r.Count("hb_reshard_to_dead_reached_not_ready", 1)
		waitFor("resharded-not-ready", 1000*time.Millisecond, func(u, v hbObs) bool { return false })
		if violated {
			return
		}
		if o := probe("resharded-survivor", V); readyWith(o, V.q0) {
			r.Count("hb_survivor_kept_quota", 1)
		}
		svc.setQuota(U.name, U.q2)
		U.granted[int(U.q2)] = true
		atomic.StoreInt32(&D.healthy, 1)
		if !waitFor("recovery", 60*time.Second, func(u, v hbObs) bool { return readyWith(u, U.q2) }) {
			if !violated {
				r.Inconclusive("real client set, re-sharding case: the quota granted by the recovered leader of the new shard was not observed within 60 s")
			}
			return
		}
		r.Count("hb_reshard_recoveries_observed", 1)
		return
	}
	svc.setQuota(U.name, U.q2)
	U.granted[int(U.q2)] = true
	atomic.StoreInt32(&D.healthy, 0)
	svc.setTopology([]int{0}) // everything is served by H now
	reshardedAt = bed.Now()
	if !waitFor("resharded", 60*time.Second, func(u, v hbObs) bool { return readyWith(u, U.q2) }) {
		if !violated {
			r.Inconclusive("real client set, re-sharding case: the quota granted by the healthy leader of the merged shard was not observed within 60 s")
		}
		return
	}
	r.Count("hb_reshard_to_healthy_quota_observed", 1)
	// long enough for a stale "ready" to show its other face: the old leader D stays down past the hysteresis
	waitFor("resharded-old-leader-down", 11*time.Second, func(u, v hbObs) bool { return false })
	if !violated {
		if o := probe("resharded-late", U); readyWith(o, U.q2) {
			r.Count("hb_reshard_to_healthy_still_on_quota_after_hysteresis", 1)
		}
	}
}
