package c09

import (
	"context"
	"encoding/json"
	"fmt"
	"io"
	"net/http"
	"net/http/httptest"
	"strings"
	"sync"
	"sync/atomic"
	"time"

	metav1 "k8s.io/apimachinery/pkg/apis/meta/v1"
	"k8s.io/client-go/rest"

	proxyv1alpha1 "github.com/kubewharf/kubegateway/pkg/apis/proxy/v1alpha1"
	"github.com/kubewharf/kubegateway/pkg/flowcontrols"
	"github.com/kubewharf/kubegateway/pkg/flowcontrols/flowcontrol"
	"github.com/kubewharf/kubegateway/pkg/ratelimiter/clientsets"
	limitutil "github.com/kubewharf/kubegateway/pkg/ratelimiter/util"

	"verifharness/bed"
	"verifharness/vkit"
)

// ---------------------------------------------------------------------------------------------------------------------
// (D) the REAL clientsets.ClientSets (endpoint sync every 2 s, heartbeat every 1 s, 5 s hysteresis before "not ready")
// against a sharded stub limiter service: two shards, each with its own leader (an HTTP server); one real client set (as
// in a gateway process) serves two real UpstreamLimiters, one per upstream cluster, the cluster names chosen so that one
// hashes to each shard (util.GetShardID). Real 2 s reconcile ticker. Per case: the leader of ONE shard goes down
// (heartbeats and allocate calls answered 500) for longer than the hysteresis while the other stays healthy, then it
// recovers with a different quota.
//
// Every probe of an upstream is judged by the readiness the client set reported for THAT upstream immediately before AND
// after the probe (readiness only changes on heartbeat ticks):
//   not ready -> effective limit = local; ready -> effective limit in {local, a quota the server granted}; always <= global.
// Waiting for an event (first quota, "not ready", recovered quota) has a generous watchdog = inconclusive, with one
// exception that is an observation, not a timeout: the stub logs every heartbeat it receives; if the dead leader has
// answered >= 10 consecutive heartbeats with an error over >= 8 s (twice what the hysteresis needs) and the client set
// still reports the upstream of that shard ready, before and after a probe that finds a limit other than the local one,
// the instance is not enforcing the local limit while its limiter server is down.
// ---------------------------------------------------------------------------------------------------------------------

type hbRec struct {
	at int64
	ok bool
}

type leaderStub struct {
	shard   int
	srv     *httptest.Server
	healthy int32
	mu      sync.Mutex
	hb      []hbRec
	svc     *shardedLimiter
}

type shardedLimiter struct {
	leaders   []*leaderStub
	mu        sync.Mutex
	quota     map[string]int32     // upstream cluster -> quota an allocate call is answered with
	cfg       map[string]schemaCfg // upstream cluster -> schema
	misrouted int64                // allocate calls that reached the leader of another shard
}

func newShardedLimiter(n int) *shardedLimiter {
	s := &shardedLimiter{quota: map[string]int32{}, cfg: map[string]schemaCfg{}}
	for i := 0; i < n; i++ {
		l := &leaderStub{shard: i, healthy: 1, svc: s}
		l.srv = bed.NewServer(http.HandlerFunc(l.serve))
		s.leaders = append(s.leaders, l)
	}
	return s
}

func (s *shardedLimiter) close() {
	for _, l := range s.leaders {
		l.srv.Close()
	}
}

func (s *shardedLimiter) setQuota(upstream string, q int32) {
	s.mu.Lock()
	s.quota[upstream] = q
	s.mu.Unlock()
}

// failedStreak returns the number of consecutive failed heartbeats at the end of the log and the time of the first of them.
func (l *leaderStub) failedStreak() (n int, since int64) {
	l.mu.Lock()
	defer l.mu.Unlock()
	for i := len(l.hb) - 1; i >= 0 && !l.hb[i].ok; i-- {
		n++
		since = l.hb[i].at
	}
	return
}

func (l *leaderStub) serve(w http.ResponseWriter, req *http.Request) {
	body, _ := io.ReadAll(req.Body)
	ok := atomic.LoadInt32(&l.healthy) != 0
	writeJSON := func(code int, v interface{}) {
		w.Header().Set("Content-Type", "application/json")
		w.WriteHeader(code)
		_ = json.NewEncoder(w).Encode(v)
	}
	fail := func() {
		writeJSON(500, &metav1.Status{TypeMeta: metav1.TypeMeta{Kind: "Status", APIVersion: "v1"}, Status: "Failure", Code: 500, Reason: metav1.StatusReasonInternalError, Message: "limiter is down"})
	}
	switch {
	case req.URL.Path == clientsets.ServerInfoUrl:
		// endpoint discovery keeps working (any member of the service answers it, the leader table does not change)
		info := &proxyv1alpha1.RateLimitServerInfo{Server: l.srv.URL, ID: fmt.Sprintf("limiter-%d", l.shard), ShardCount: int32(len(l.svc.leaders)), ManagedShards: []int32{int32(l.shard)}}
		for _, x := range l.svc.leaders {
			info.Endpoints = append(info.Endpoints, proxyv1alpha1.EndpointInfo{Leader: x.srv.URL, ShardID: int32(x.shard)})
		}
		writeJSON(200, info)
	case req.URL.Path == clientsets.HeartBeatUrl:
		l.mu.Lock()
		l.hb = append(l.hb, hbRec{at: bed.Now(), ok: ok})
		l.mu.Unlock()
		if !ok {
			fail()
			return
		}
		w.WriteHeader(200)
		_, _ = w.Write([]byte("ok"))
	case strings.HasSuffix(req.URL.Path, "/status") && req.Method == http.MethodPut:
		if !ok {
			fail()
			return
		}
		in := &proxyv1alpha1.RateLimitCondition{}
		_ = json.Unmarshal(body, in)
		up := in.Spec.UpstreamCluster
		if limitutil.GetShardID(up, len(l.svc.leaders)) != l.shard {
			atomic.AddInt64(&l.svc.misrouted, 1)
		}
		l.svc.mu.Lock()
		q, cfg := l.svc.quota[up], l.svc.cfg[up]
		l.svc.mu.Unlock()
		out := allocReply(in, allocItem(cfg, q, 0))
		out.TypeMeta = metav1.TypeMeta{Kind: "RateLimitCondition", APIVersion: proxyv1alpha1.SchemeGroupVersion.String()}
		writeJSON(200, out)
	default:
		fail()
	}
}

func heartbeatPhase(r *vkit.R, base *vkit.Rand) {
	n := r.N(4, 24)
	var wg sync.WaitGroup
	for i := 0; i < n; i++ {
		g := base.Sub(i)
		dead := i % 2 // which shard's leader goes down: both directions in every run
		wg.Add(1)
		go func() {
			defer wg.Done()
			runHeartbeatCase(r, g, dead)
		}()
	}
	wg.Wait()
}

// hbUpstream is one upstream cluster of the gateway: its own real UpstreamLimiter over the shared real client set.
type hbUpstream struct {
	name    string
	shard   int
	cfg     schemaCfg
	q0, q2  int32
	lim     flowcontrols.UpstreamLimiter
	granted map[int]bool
}

type hbObs struct {
	Phase       string `json:"phase"`
	Upstream    string `json:"upstream"`
	Shard       int    `json:"shard"`
	ReadyBefore bool   `json:"readyBefore"`
	ReadyAfter  bool   `json:"readyAfter"`
	E           int    `json:"effective"`
	LeaderUp    bool   `json:"leaderHealthy"`
}

func runHeartbeatCase(r *vkit.R, g *vkit.Rand, dead int) {
	const shards = 2
	svc := newShardedLimiter(shards)
	defer svc.close()

	ctx, cancel := context.WithCancel(context.Background())
	defer cancel()
	// the service address lists every member; ONE client set per gateway process
	var addrs []string
	for _, l := range svc.leaders {
		addrs = append(addrs, l.srv.URL)
	}
	cs := clientsets.NewClientSetsWithRestConfig(ctx, strings.Join(addrs, ","), "c09", &rest.Config{Host: addrs[0]})

	// one upstream cluster per shard
	ups := make([]*hbUpstream, shards)
	salt := g.Intn(1 << 20)
	for i := 0; ; i++ {
		name := fmt.Sprintf("c09-%d-%d.example", salt, i)
		sh := limitutil.GetShardID(name, shards)
		if ups[sh] == nil {
			G := int32(g.Range(8, 30))
			L := int32(g.Range(1, int(G)-3))
			u := &hbUpstream{name: name, shard: sh, cfg: schemaCfg{Strategy: string(proxyv1alpha1.GlobalAllocateLimit), Type: "maxinflight", L: L, G: G}}
			pick := func(not ...int32) int32 {
				for {
					q := int32(g.Range(1, int(G)))
					okq := q != L
					for _, x := range not {
						okq = okq && q != x
					}
					if okq {
						return q
					}
				}
			}
			u.q0 = pick()
			u.q2 = pick(u.q0)
			u.granted = map[int]bool{int(u.q0): true}
			ups[sh] = u
		}
		if ups[0] != nil && ups[1] != nil {
			break
		}
	}
	for _, u := range ups {
		svc.mu.Lock()
		svc.cfg[u.name], svc.quota[u.name] = u.cfg, u.q0
		svc.mu.Unlock()
		u.lim = flowcontrols.NewUpstreamLimiter(ctx, u.name, "", cs)
		u.lim.Sync(proxyv1alpha1.FlowControl{Schemas: []proxyv1alpha1.FlowControlSchema{u.cfg.schema()}})
		u.lim.ResetLimiter(flowcontrol.RemoteFlowControls)
	}
	defer func() {
		for _, u := range ups {
			flowcontrols.VerifStop(u.lim)
			for _, c := range u.lim.AllFlowControls() {
				c.Stop()
			}
		}
	}()

	var trace []hbObs
	lastObs := map[string]hbObs{}
	violated := false
	witness := func() interface{} {
		w := map[string]interface{}{"deadShard": dead, "trace": trace}
		for _, u := range ups {
			w[fmt.Sprintf("shard%d", u.shard)] = map[string]interface{}{"upstream": u.name, "schema": u.cfg, "quotaBefore": u.q0, "quotaAfterRecovery": u.q2}
		}
		return w
	}
	probe := func(phase string, u *hbUpstream) hbObs {
		leader := svc.leaders[u.shard]
		o := hbObs{Phase: phase, Upstream: u.name, Shard: u.shard, LeaderUp: atomic.LoadInt32(&leader.healthy) != 0}
		o.ReadyBefore = cs.IsReady(u.name)
		fc := u.lim.GetOrDefault(schemaName)
		n := 0
		if p := vkit.Safely(func() {
			for n < int(u.cfg.G)+5 && fc.TryAcquire() {
				n++
			}
			for i := 0; i < n; i++ {
				fc.Release()
			}
		}); p != nil {
			r.Count("hb_admission_panics_not_judged", 1)
			o.E = -1
			return o
		}
		o.ReadyAfter = cs.IsReady(u.name)
		o.E = n
		if last, seen := lastObs[u.name]; !seen || last != o {
			trace = append(trace, o) // the witness keeps changes only
			lastObs[u.name] = o
		}
		r.Count("hb_probes", 1)
		if violated {
			return o
		}
		L, G := u.cfg.L, u.cfg.G
		switch {
		case n > int(G):
			violated = true
			r.Violation("C09/allocate-maxinflight/exceeds-global/real-heartbeat", fmt.Sprintf("max-in-flight local=%d global=%d, real client set: %d admitted at once for upstream %s in phase %s", L, G, n, u.name, phase), witness())
		case !o.ReadyBefore && !o.ReadyAfter:
			r.Count("hb_probes_not_ready", 1)
			if n != int(L) {
				violated = true
				r.Violation("C09/allocate-maxinflight/fallback-not-local/not-ready",
					fmt.Sprintf("max-in-flight local=%d global=%d, real client set (heartbeat hysteresis): the client set reports upstream %s (shard %d) not ready before and after the probe but the effective limit is %d (phase %s)", L, G, u.name, u.shard, n, phase), witness())
			}
		case o.ReadyBefore && o.ReadyAfter:
			r.Count("hb_probes_ready", 1)
			if n != int(L) && !u.granted[n] {
				violated = true
				r.Violation("C09/allocate-maxinflight/fallback-not-local/failing-after-sync",
					fmt.Sprintf("max-in-flight local=%d global=%d, real client set: effective limit %d of upstream %s is neither the local limit nor a quota the server ever granted (%d, %d) (phase %s)", L, G, n, u.name, u.q0, u.q2, phase), witness())
				break
			}
			// the observation that is not a timeout: the leader of this upstream's shard has failed >= 10 heartbeats in a
			// row over >= 8 s (the hysteresis is 5 s, heartbeats come every second) and the upstream is still "ready"
			// and still not on its local limit
			if streak, since := leader.failedStreak(); !o.LeaderUp && streak >= 10 && bed.Now()-since >= int64(8*time.Second) && n != int(L) {
				violated = true
				r.Violation("C09/allocate-maxinflight/fallback-not-local/dead-shard-leader-still-ready",
					fmt.Sprintf("max-in-flight local=%d global=%d, real client set, %d limiter shards: the leader of shard %d has answered the last %d heartbeats in a row with an error, for %.1fs, while the leader of the other shard is healthy; the client set still reports upstream %s (shard %d) ready before and after the probe and the instance still enforces the stale quota %d instead of the local limit",
						L, G, shards, u.shard, streak, float64(bed.Now()-since)/1e9, u.name, u.shard, n), witness())
			}
		}
		return o
	}
	// waitFor probes BOTH upstreams every 50 ms until cond holds for the observations of this round
	waitFor := func(phase string, d time.Duration, cond func(o []hbObs) bool) bool {
		deadline := time.Now().Add(d)
		for time.Now().Before(deadline) && !violated {
			o := []hbObs{probe(phase, ups[0]), probe(phase, ups[1])}
			if !violated && cond(o) {
				return true
			}
			time.Sleep(50 * time.Millisecond)
		}
		return false
	}
	readyWith := func(o hbObs, q int32) bool { return o.ReadyBefore && o.ReadyAfter && o.E == int(q) }
	notReady := func(o hbObs) bool { return !o.ReadyBefore && !o.ReadyAfter }

	r.Eval(1)
	r.Distinct(vkit.Hash64(fmt.Sprintf("hb|%d|%+v|%+v|%d|%d|%d|%d", dead, ups[0].cfg, ups[1].cfg, ups[0].q0, ups[1].q0, ups[0].q2, ups[1].q2)))
	D, S := ups[dead], ups[1-dead] // the upstream whose shard leader dies, and the one whose leader survives
	// 1. discovery + first heartbeats + first allocate round trips
	if !waitFor("startup", 40*time.Second, func(o []hbObs) bool { return readyWith(o[0], ups[0].q0) && readyWith(o[1], ups[1].q0) }) {
		if !violated {
			r.Inconclusive("real client set: the first granted quotas were not observed within 40 s")
		}
		return
	}
	// 2. the leader of one shard goes down; the other one stays healthy
	atomic.StoreInt32(&svc.leaders[dead].healthy, 0)
	survivorLostReady := false
	if !waitFor("outage", 60*time.Second, func(o []hbObs) bool {
		if notReady(o[S.shard]) {
			survivorLostReady = true
		}
		return notReady(o[D.shard])
	}) {
		if !violated {
			r.Inconclusive("real client set: never reported the upstream of the dead shard not ready within 60 s of failing heartbeats")
		}
		return
	}
	r.Count("hb_outages_reached_not_ready", 1)
	waitFor("outage-not-ready", 1500*time.Millisecond, func(o []hbObs) bool {
		if notReady(o[S.shard]) {
			survivorLostReady = true
		}
		return false
	})
	if violated {
		return
	}
	// the upstream of the healthy shard keeps its quota (it may only ever be on {local, quota}; here: still the quota)
	if o := probe("outage-survivor", S); readyWith(o, S.q0) {
		r.Count("hb_survivor_kept_quota", 1)
	}
	if survivorLostReady {
		r.Count("hb_survivor_reported_not_ready_observed", 1) // not demanded by the statement; written down
	}
	// 3. recovery with a different quota
	svc.setQuota(D.name, D.q2)
	D.granted[int(D.q2)] = true
	atomic.StoreInt32(&svc.leaders[dead].healthy, 1)
	if !waitFor("recovery", 60*time.Second, func(o []hbObs) bool { return readyWith(o[D.shard], D.q2) }) {
		if !violated {
			r.Inconclusive("real client set: the quota granted after recovery was not observed within 60 s")
		}
		return
	}
	r.Count("hb_recoveries_observed", 1)
	r.Count("hb_allocate_calls_misrouted", int(atomic.LoadInt64(&svc.misrouted)))
	if r.WantSample() {
		r.Sample(map[string]interface{}{"kind": "real-heartbeat-case", "case": witness()})
	}
}
