package c09

import (
	"context"
	"fmt"
	"net/url"
	"sync"
	"sync/atomic"
	"time"

	proxyv1alpha1 "github.com/kubewharf/kubegateway/pkg/apis/proxy/v1alpha1"

	"verifharness/bed"
	"verifharness/vkit"
)

// ---------------------------------------------------------------------------------------------------------------------
// (F) bounded progress through an outage and after it, real time, real worker / real ticker.
//
// "enforces the local limit rather than none" also means not zero, and "server-granted quotas take effect again once the
// server recovers" means requests are admitted again. Timeline per limiter: healthy server (1.2 s) -> outage of one kind
// (error answers | acquire calls that HANG longer than the 500 ms request timeout and then fail with a timeout error |
// client set not ready | ClientFor failing) -> the server is healthy again and grants everything it is asked for.
// Callers keep trying all the time (3 goroutines, one attempt every few ms, or one every 300 ms while the wrapper makes
// them wait).
// Verdicts demand only "> 0 admissions" over long windows with a minimum number of completed attempts, so scheduling
// cannot produce a false alarm:
//   no-fallback: between outage start + grace (far longer than the fallback needs: first error answer / first timeout /
//                immediately / the counter's 4-6 s reset check) and the end of the outage, >= 5 attempts, none admitted;
//   no-recovery: the run continues for >= 8 s after the end of the outage and until >= 10 attempts were started later than
//                5 s after the recovery; none of THOSE was admitted, although the stub server answered every request it received honestly (what
//                the gateway asked for and got in that window is part of the witness: a gateway that stopped asking for
//                tokens while its callers are refused is exactly the observation to judge).
// Too few attempts in a window (harness starvation) = not judged / inconclusive, never a violation.
// ---------------------------------------------------------------------------------------------------------------------

type recScenario struct {
	Cfg      schemaCfg `json:"schema"`
	Kind     string    `json:"outage"` // errors | timeouts | not-ready | unknown
	OutageMs int       `json:"outageMs"`
	GraceMs  int       `json:"graceMs"`
	Quota    int32     `json:"allocatedQuota,omitempty"` // allocate strategy: what the honest server grants
}

// After the end of the outage the run continues for recoveryRun; the recovery verdict looks only at attempts started later
// than lateAfter after the recovery. Why so late: answers to requests that were already on their way are granted by the
// recovered server, and the counter's own reset check (4-6 s without an answer) can put the wrapper into its local fallback
// for a moment AFTER the recovery; both admit a few requests without the server-granted quota having taken effect again.
const (
	recoveryRun = 8 * time.Second
	lateAfter   = 5 * time.Second
)

type attempt struct {
	t0, t1 int64
	ok     bool
}

func recScenarios(r *vkit.R, g *vkit.Rand) []recScenario {
	var out []recScenario
	kinds := []recScenario{
		{Kind: "errors", OutageMs: 2500, GraceMs: 1000},
		{Kind: "timeouts", OutageMs: 3500, GraceMs: 2000},
		{Kind: "not-ready", OutageMs: 1500, GraceMs: 500},
		{Kind: "unknown", OutageMs: 9000, GraceMs: 7000},
		// the acquire call keeps succeeding but its answers carry no result for the flow control (missing replies): only
		// the counter's reset check (4-6 s without an answer) can notice
		{Kind: "omitted", OutageMs: 9000, GraceMs: 7000},
	}
	for rep := 0; rep < r.N(1, 4); rep++ {
		for _, strategy := range []proxyv1alpha1.LimitStrategy{proxyv1alpha1.GlobalCountLimit, proxyv1alpha1.GlobalAllocateLimit} {
			for _, typ := range []string{"maxinflight", "tokenbucket"} {
				for _, k := range kinds {
					if strategy == proxyv1alpha1.GlobalAllocateLimit && (k.Kind == "timeouts" || k.Kind == "unknown" || k.Kind == "omitted") {
						continue // the allocate path keeps the last quota while failing: errors and not-ready cover it cheaply
					}
					sc := k
					sc.Cfg = schemaCfg{Strategy: string(strategy), Type: typ}
					if typ == "maxinflight" {
						sc.Cfg.G = int32(g.Range(6, 12))
						sc.Cfg.L = int32(g.Range(1, int(sc.Cfg.G)-1))
						sc.Quota = int32(g.Range(2, int(sc.Cfg.G)))
						if strategy == proxyv1alpha1.GlobalCountLimit && (k.Kind == "unknown" || k.Kind == "omitted") {
							// local >= the 3 callers, server-granted limit far above it: "still on the server's limit" and
							// "fell back to max(observed usage, local) = local" are easy to tell apart
							sc.Cfg.G = int32(g.Range(14, 20))
							sc.Cfg.L = int32(g.Range(3, 4))
							sc.Quota = int32(g.Range(10, int(sc.Cfg.G)))
						}
					} else {
						sc.Cfg.G = int32(g.Range(40, 100))
						sc.Cfg.GB = int32(g.Range(int(sc.Cfg.G), 2*int(sc.Cfg.G)))
						sc.Cfg.L = int32(g.Range(10, int(sc.Cfg.G)/2))
						sc.Cfg.LB = int32(g.Range(5, int(sc.Cfg.L)))
						sc.Quota = int32(g.Range(20, int(sc.Cfg.G)))
						if k.Kind == "omitted" {
							// a small token reserve (5 % of the global qps = 2-3): the handful of answers without a result
							// that 9 s produce are then certainly more than the reserve
							sc.Cfg.G = int32(g.Range(40, 60))
							sc.Cfg.GB = 2 * sc.Cfg.G
							sc.Cfg.L = int32(g.Range(10, 20))
							sc.Cfg.LB = sc.Cfg.L
						}
					}
					out = append(out, sc)
				}
			}
		}
	}
	return out
}

func recoveryPhase(r *vkit.R, g *vkit.Rand) {
	scs := recScenarios(r, g)
	r.Set("recovery_limiters", len(scs))
	var wg sync.WaitGroup
	for i := range scs {
		sc, rng := scs[i], g.Sub(i)
		wg.Add(1)
		go func() {
			defer wg.Done()
			runRecovery(r, sc, rng)
		}()
	}
	wg.Wait()
}

func runRecovery(r *vkit.R, sc recScenario, g *vkit.Rand) {
	cfg := sc.Cfg
	isCount := cfg.Strategy == string(proxyv1alpha1.GlobalCountLimit)
	isTB := cfg.Type == "tokenbucket"
	strat := "allocate"
	if isCount {
		strat = "count"
	}
	pool := 1
	if sc.Kind == "timeouts" {
		pool = 8 // the fake clientset holds its lock while a call hangs: several clientsets = several hanging calls at once
	}
	gw := newGateway(cfg, "gw-rec", pool)
	defer gw.close()

	var (
		outage      int32
		recoveredAt int64 // bed.Now() when the outage ended, 0 before
		// what the stub server saw after the recovery
		reqAfter, askedAfter, grantedAfter int64
		hung                               int64
		omitted                            int64 // answers without a result for the flow control
		// count strategy, max in flight, outage kinds that only the reset check can notice
		generous = isCount && !isTB && (sc.Kind == "unknown" || sc.Kind == "omitted")
	)
	gw.cs.setAcquire(func(req *proxyv1alpha1.RateLimitAcquire) (*proxyv1alpha1.RateLimitAcquire, error) {
		if atomic.LoadInt32(&outage) != 0 {
			switch sc.Kind {
			case "timeouts":
				// the server hangs; the real client gives up after LimitRequestTimeout (500 ms) with this error
				time.Sleep(550 * time.Millisecond)
				atomic.AddInt64(&hung, 1)
				return nil, &url.Error{Op: "Post", URL: "https://limiter/apis/proxy.kubegateway.io/v1alpha1/ratelimitconditions/" + clusterName + "/acquire", Err: context.DeadlineExceeded}
			case "errors":
				out := req.DeepCopy()
				for _, rq := range req.Spec.Requests {
					out.Status.Results = append(out.Status.Results, proxyv1alpha1.RateLimitAcquireResult{FlowControl: rq.FlowControl, Error: "limit store for upstream " + clusterName + " upstream shard 0 not found"})
				}
				return out, nil
			}
		}
		// honest server with plenty of capacity: everything asked is granted
		out := req.DeepCopy()
		if atomic.LoadInt32(&outage) != 0 && sc.Kind == "omitted" {
			atomic.AddInt64(&omitted, 1)
			return out, nil // a well-formed answer without a result for the flow control
		}
		after := atomic.LoadInt64(&recoveredAt) != 0
		for _, rq := range req.Spec.Requests {
			lim := rq.Tokens
			if generous && lim < sc.Quota {
				lim = sc.Quota // a server that leaves this instance plenty of room
			}
			out.Status.Results = append(out.Status.Results, proxyv1alpha1.RateLimitAcquireResult{FlowControl: rq.FlowControl, Accept: true, Limit: lim})
			if after {
				atomic.AddInt64(&askedAfter, int64(rq.Tokens))
				atomic.AddInt64(&grantedAfter, int64(rq.Tokens))
			}
		}
		if after {
			atomic.AddInt64(&reqAfter, 1)
		}
		return out, nil
	})
	gw.cs.setAllocate(func(req *proxyv1alpha1.RateLimitCondition) (*proxyv1alpha1.RateLimitCondition, error) {
		if atomic.LoadInt32(&outage) != 0 && sc.Kind == "errors" {
			return nil, fmt.Errorf("upstream %s, shard 0, leader is limiter-1", clusterName)
		}
		if atomic.LoadInt64(&recoveredAt) != 0 {
			atomic.AddInt64(&reqAfter, 1)
		}
		if isCount {
			return allocReply(req), nil
		}
		b := int32(0)
		if isTB {
			b = clampI32(cfg.GB/2, 1, cfg.GB)
		}
		return allocReply(req, allocItem(cfg, sc.Quota, b)), nil
	})
	gw.cs.setReady(true)
	if p := vkit.Safely(func() { gw.reconcileOnce() }); p != nil {
		r.Violation(fmt.Sprintf("C09/%s-%s/panic/reconcile", strat, cfg.Type), fmt.Sprintf("reconcile panicked: %v", p), sc)
		return
	}
	gw.cs.setParked(false) // from here on the limiter's own 2 s ticker does the allocate round trips

	var (
		mu   sync.Mutex
		atts []attempt
		stop = make(chan struct{})
		wg   sync.WaitGroup
	)
	for w := 0; w < 3; w++ {
		wg.Add(1)
		rng := g.Sub(w)
		go func() {
			defer wg.Done()
			for {
				select {
				case <-stop:
					return
				default:
				}
				a := attempt{t0: bed.Now()}
				if p := vkit.Safely(func() {
					fc := gw.fc()
					a.ok = fc.TryAcquire()
					a.t1 = bed.Now()
					if a.ok {
						time.Sleep(time.Duration(500+rng.Intn(1500)) * time.Microsecond)
						fc.Release()
					}
				}); p != nil {
					r.Count("rec_admission_panics_not_judged", 1)
					a.t1 = bed.Now()
				}
				mu.Lock()
				atts = append(atts, a)
				mu.Unlock()
				time.Sleep(time.Duration(3+rng.Intn(5)) * time.Millisecond)
			}
		}()
	}
	// window counts attempts that started at or after from and returned by to (0 = no upper end)
	window := func(from, to int64) (n, admitted int) {
		mu.Lock()
		defer mu.Unlock()
		for _, a := range atts {
			if a.t0 >= from && (to == 0 || a.t1 <= to) {
				n++
				if a.ok {
					admitted++
				}
			}
		}
		return
	}

	start := bed.Now()
	time.Sleep(1200 * time.Millisecond)
	// ---- outage ----
	tO := bed.Now()
	switch sc.Kind {
	case "not-ready":
		gw.cs.setReady(false)
	case "unknown":
		gw.cs.setUnknown(true)
	default:
		atomic.StoreInt32(&outage, 1)
	}
	time.Sleep(time.Duration(sc.OutageMs) * time.Millisecond)
	// still in the outage: is the instance still on the limit the server granted before it?
	stillOnServerLimit, heldAtEnd := false, 0
	if generous {
		vkit.Safely(func() {
			fc := gw.fc()
			for heldAtEnd < int(cfg.L)+3 && fc.TryAcquire() {
				heldAtEnd++
			}
			for i := 0; i < heldAtEnd; i++ {
				fc.Release()
			}
		})
		stillOnServerLimit = heldAtEnd > int(cfg.L)
	}
	outageSeconds := float64(bed.Now()-tO) / 1e9
	// ---- recovery ----
	tR := bed.Now()
	atomic.StoreInt64(&recoveredAt, tR)
	atomic.StoreInt32(&outage, 0)
	gw.cs.setReady(true)
	gw.cs.setUnknown(false)
	late := tR + int64(lateAfter)
	enough := vkit.WaitFor(40*time.Second, func() bool {
		time.Sleep(50 * time.Millisecond)
		n, _ := window(late, 0)
		return bed.Now()-tR >= int64(recoveryRun) && n >= 10
	})
	tEnd := bed.Now()
	close(stop)
	wg.Wait()

	r.Eval(1)
	r.Distinct(vkit.Hash64(fmt.Sprintf("rec|%+v", sc)))
	r.Count("rec_limiters_"+strat+"_"+cfg.Type+"_"+sc.Kind, 1)
	nH, admH := window(start, tO)
	nO, admO := window(tO+int64(sc.GraceMs)*int64(time.Millisecond), tR)
	nR, admR := window(tR, 0)
	nLate, admLate := window(late, 0)
	r.Count("rec_attempts", nH+nR)
	obs := map[string]interface{}{
		"scenario": sc, "healthy": []int{nH, admH}, "outageAfterGrace": []int{nO, admO}, "recovery": []int{nR, admR}, "recoveryLaterThan5s": []int{nLate, admLate},
		"recoverySeconds":            float64(tEnd-tR) / 1e9,
		"requestsAfterRecovery":      atomic.LoadInt64(&reqAfter),
		"tokensAskedAfterRecovery":   atomic.LoadInt64(&askedAfter),
		"tokensGrantedAfterRecovery": atomic.LoadInt64(&grantedAfter),
		"acquireCallsThatHung":       atomic.LoadInt64(&hung),
		"answersWithoutResult":       atomic.LoadInt64(&omitted),
		"heldAtEndOfOutage":          heldAtEnd,
	}
	r.Set(fmt.Sprintf("rec_observation_%s_%s_%s_g%d", strat, cfg.Type, sc.Kind, cfg.G), obs)
	if admH == 0 {
		r.Inconclusive(fmt.Sprintf("recovery scenario %s/%s/%s: nothing was admitted while the server was healthy (%d attempts): the scenario says nothing", strat, cfg.Type, sc.Kind, nH))
		return
	}
	if sc.Kind == "timeouts" && atomic.LoadInt64(&hung) == 0 {
		r.Inconclusive("recovery scenario timeouts: no acquire call reached the hanging server")
		return
	}
	describe := func() string {
		if isTB {
			return fmt.Sprintf("token-bucket schema local=(%d qps, burst %d) global=(%d qps, burst %d)", cfg.L, cfg.LB, cfg.G, cfg.GB)
		}
		return fmt.Sprintf("max-in-flight schema local=%d global=%d", cfg.L, cfg.G)
	}
	// fallback-not-local: for at least 8 s (twice what the counter's reset check needs) no answer has reached this flow
	// control (for "omitted": in at least 3 answered requests), the 3 callers never had more than 3 <= local requests in
	// flight, and the driver could still take more than `local` slots at once: the server's limit is still in force
	if generous {
		if outageSeconds >= 8 && (sc.Kind != "omitted" || atomic.LoadInt64(&omitted) >= 3) {
			r.Count("rec_fallback_limit_checks", 1)
			if stillOnServerLimit {
				r.Violation(fmt.Sprintf("C09/%s-%s/fallback-not-local/during-%s", strat, cfg.Type, sc.Kind),
					fmt.Sprintf("%s, count strategy, outage kind %q: the server accepted with limit %d while healthy; for %.1fs no answer has reached this flow control (%d answers without a result for it) and its 3 callers never held more than 3 requests at once, yet %d more requests could be taken at once (probe capped at local+3): the server-granted limit is still in force, not max(observed usage, local) = %d",
						describe(), sc.Kind, sc.Quota, outageSeconds, atomic.LoadInt64(&omitted), heldAtEnd, cfg.L), obs)
			}
		} else {
			r.Count("rec_fallback_limit_checks_skipped", 1)
		}
	}
	// no-fallback
	if nO >= 5 {
		r.Count("rec_fallback_checks", 1)
		if admO == 0 {
			r.Violation(fmt.Sprintf("C09/%s-%s/no-fallback/during-%s", strat, cfg.Type, sc.Kind),
				fmt.Sprintf("%s, %s strategy, outage kind %q: from %.1fs after the start of the outage until its end (%.1fs later) %d requests were tried and none was admitted; the local limit admits > 0",
					describe(), strat, sc.Kind, float64(sc.GraceMs)/1e3, float64(sc.OutageMs-sc.GraceMs)/1e3, nO), obs)
		}
	} else {
		r.Count("rec_fallback_checks_skipped_too_few_attempts", 1)
	}
	// no-recovery
	if !enough || nLate < 10 {
		r.Inconclusive(fmt.Sprintf("recovery scenario %s/%s/%s: callers completed only %d attempts later than 5 s after the recovery within 40 s (harness starvation)", strat, cfg.Type, sc.Kind, nLate))
		return
	}
	r.Count("rec_recovery_checks", 1)
	// judged on the attempts started later than 5 s after the recovery: answers to requests that were already on their way
	// when the outage ended (granted by the recovered server) must not count as "recovered"
	// The second form of "not recovered" is an observation at the stub, not a rate: in the whole time since the recovery
	// (>= 8 s) the gateway has not asked the healthy server for a single token/slot, while >= 10 of the late attempts of
	// its callers were refused. Whatever is still admitted then comes from the local fallback coming and going (reset
	// check -> fallback, empty resync accepted -> server mode without tokens), not from a server-granted quota.
	stoppedAsking := isCount && atomic.LoadInt64(&askedAfter) == 0 && nLate-admLate >= 10
	if admLate == 0 || stoppedAsking {
		what := "the gateway kept asking and was granted everything"
		if isCount && atomic.LoadInt64(&askedAfter) <= int64(admR) {
			what = "the gateway (all but) stopped asking the server for tokens/slots although its callers were being refused"
		}
		r.Violation(fmt.Sprintf("C09/%s-%s/no-recovery/after-%s", strat, cfg.Type, sc.Kind),
			fmt.Sprintf("%s, %s strategy, outage kind %q (%.1fs): the server has been healthy again for %.1fs and answered all %d requests it received honestly (asked %d, granted %d); %d requests were tried later than 5 s after the recovery, %d of them were admitted (%d admitted since the recovery in total): %s",
				describe(), strat, sc.Kind, float64(sc.OutageMs)/1e3, float64(tEnd-tR)/1e9, atomic.LoadInt64(&reqAfter), atomic.LoadInt64(&askedAfter), atomic.LoadInt64(&grantedAfter), nLate, admLate, admR, what), obs)
		return
	}
	if r.WantSample() && sc.Kind == "timeouts" {
		r.Sample(map[string]interface{}{"kind": "recovery-case", "observation": obs})
	}
}
