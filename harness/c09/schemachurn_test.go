package c09

import (
	"fmt"
	"sync"
	"sync/atomic"

	proxyv1alpha1 "github.com/kubewharf/kubegateway/pkg/apis/proxy/v1alpha1"

	"verifharness/vkit"
)

// schemaChurnPhase: global schemas are added to and removed from a cluster's flow-control spec a fixed number of times
// (UpstreamLimiter.Sync, as the controller's single worker does) while (a) a goroutine runs the body of the periodic
// reconcile back to back (VerifReconcileOnce = what the 2 s ticker runs) and (b) request goroutines obtain the limiter of
// the churned schema exactly as the dispatcher does (GetOrDefault + TryAcquire/Release).
// What is judged: neither the reconcile body nor a request may panic. The statement says that whatever the server
// answers the instance enforces a limit (the local one while not synced) "rather than none"; a reconcile loop that dies
// takes the whole gateway process with it (the real loop runs on its own goroutine: wait.Until re-panics after logging).
// On the unrepaired tree syncLocalFlowControls published a new schema's cache BEFORE its first Sync, so a reconcile round
// (getRateLimitItemStatus -> LocalFlowControl().Type()) or a request landing in that window dereferenced a nil limiter;
// first seen as a 1-in-60 crash of the C11 check's remote-limiter phase.
func schemaChurnPhase(r *vkit.R) {
	scen := r.N(6, 40)
	iters := r.N(1500, 8000)
	r.Parallel(scen, 6, func(i int, g *vkit.Rand) {
		cfg := schemaCfg{Strategy: "globalAllocate", Type: "maxinflight", L: 3, G: 9}
		if i%2 == 1 {
			cfg = schemaCfg{Strategy: "globalCount", Type: "tokenbucket", L: 50, LB: 50, G: 100, GB: 100}
		}
		gw := newGateway(cfg, fmt.Sprintf("churn-%d", i), 2)
		defer gw.close()
		gw.cs.setReady(true)
		gw.cs.setAllocate(func(req *proxyv1alpha1.RateLimitCondition) (*proxyv1alpha1.RateLimitCondition, error) {
			// honest echo: grant what the report lists (the check is not about quotas here)
			return req, nil
		})
		extra := func(k int) proxyv1alpha1.FlowControlSchema {
			s := cfg.schema()
			s.Name = fmt.Sprintf("extra-%d", k%3)
			return s
		}
		var stop int32
		var wg sync.WaitGroup
		var reconciles, requests int64
		report := func(where string, p interface{}) {
			r.Violation("C09/schema-churn/"+where+"-panics",
				fmt.Sprintf("%s panicked while a global schema was being added to / removed from the flow-control spec: %v", where, p),
				map[string]interface{}{"schema": cfg, "panic": fmt.Sprint(p)})
		}
		wg.Add(1)
		go func() {
			defer wg.Done()
			for atomic.LoadInt32(&stop) == 0 {
				if p := vkit.Safely(gw.reconcileOnce); p != nil {
					report("reconcile-round", p)
				}
				atomic.AddInt64(&reconciles, 1)
			}
		}()
		for w := 0; w < 3; w++ {
			wg.Add(1)
			go func(w int) {
				defer wg.Done()
				k := w
				for atomic.LoadInt32(&stop) == 0 {
					k++
					name := fmt.Sprintf("extra-%d", k%3)
					if p := vkit.Safely(func() {
						fc := gw.lim.GetOrDefault(name)
						if fc.TryAcquire() {
							fc.Release()
						}
					}); p != nil {
						report("request", p)
					}
					atomic.AddInt64(&requests, 1)
				}
			}(w)
		}
		base := cfg.schema()
		for n := 0; n < iters; n++ {
			schemas := []proxyv1alpha1.FlowControlSchema{base}
			if n%2 == 0 {
				schemas = append(schemas, extra(n/2))
			}
			if p := vkit.Safely(func() { gw.lim.Sync(proxyv1alpha1.FlowControl{Schemas: schemas}) }); p != nil {
				report("spec-sync", p)
			}
		}
		atomic.StoreInt32(&stop, 1)
		wg.Wait()
		r.Eval(1)
		r.Count("churn_scenarios", 1)
		r.Count("churn_spec_syncs", iters)
		r.Count("churn_reconcile_rounds_concurrent", int(reconciles))
		r.Count("churn_requests_concurrent", int(requests))
	})
	r.Require(r.Counter("churn_reconcile_rounds_concurrent") > 500 && r.Counter("churn_requests_concurrent") > 5000,
		"too few reconcile rounds / requests concurrent with schema churn")
}
