// Package c09 checks property C09: whatever the limiter server answers, a gateway instance never admits more than the
// schema's global limit, falls back to the local limit while the server is unknown / not ready / failing, and applies
// server-granted quotas again after recovery.
package c09

import (
	"context"
	"fmt"
	"sync"
	"sync/atomic"
	"time"

	"k8s.io/apimachinery/pkg/runtime"
	clienttesting "k8s.io/client-go/testing"

	proxyv1alpha1 "github.com/kubewharf/kubegateway/pkg/apis/proxy/v1alpha1"
	gatewayclientset "github.com/kubewharf/kubegateway/pkg/client/kubernetes"
	gatewayfake "github.com/kubewharf/kubegateway/pkg/client/kubernetes/fake"
	"github.com/kubewharf/kubegateway/pkg/flowcontrols"
	"github.com/kubewharf/kubegateway/pkg/flowcontrols/flowcontrol"
)

// allocateFn answers one allocate round trip (UpdateStatus of the instance's RateLimitCondition).
type allocateFn func(req *proxyv1alpha1.RateLimitCondition) (*proxyv1alpha1.RateLimitCondition, error)

// acquireFn answers one count-strategy acquire request.
type acquireFn func(req *proxyv1alpha1.RateLimitAcquire) (*proxyv1alpha1.RateLimitAcquire, error)

// stubClientSets is a scripted clientsets.ClientSets. The replies are FUNCTIONS installed by the harness (not queues),
// so a background round that the harness did not ask for consumes nothing.
//
// The fake clientset of client-go 0.18 holds its lock while a reactor runs; to let replies overtake each other (delayed /
// re-ordered replies) ClientFor hands out the members of a small pool of fake clientsets round-robin, all wired to the
// same reply functions.
type stubClientSets struct {
	id      string
	ready   int32 // IsReady
	unknown int32 // ClientFor fails ("server unknown")
	parked  int32 // ShardIDFor fails: the limiter's background reconcile goroutine keeps waiting (rounds are then driven by VerifReconcileOnce only)

	pool []*gatewayfake.Clientset
	next uint32

	mu       sync.Mutex
	allocate allocateFn
	acquire  acquireFn

	allocCalls      int64
	acquireCalls    int64
	acquireInflight int32 // acquire calls currently inside a reactor
	readyCalls      int64
}

func newStubClientSets(id string, poolSize int) *stubClientSets {
	s := &stubClientSets{id: id, parked: 1}
	for i := 0; i < poolSize; i++ {
		cs := gatewayfake.NewSimpleClientset()
		cs.PrependReactor("update", "ratelimitconditions", func(a clienttesting.Action) (bool, runtime.Object, error) {
			if a.GetSubresource() != "status" {
				return false, nil, nil
			}
			ua, ok := a.(clienttesting.UpdateAction)
			if !ok {
				return false, nil, nil
			}
			req, _ := ua.GetObject().(*proxyv1alpha1.RateLimitCondition)
			atomic.AddInt64(&s.allocCalls, 1)
			s.mu.Lock()
			fn := s.allocate
			s.mu.Unlock()
			if fn == nil {
				return true, nil, fmt.Errorf("stub: no allocate script")
			}
			ret, err := fn(req)
			if ret == nil {
				return true, nil, err
			}
			return true, ret, err
		})
		cs.PrependReactor("create", "ratelimitconditions", func(a clienttesting.Action) (bool, runtime.Object, error) {
			if a.GetSubresource() != "acquire" {
				return false, nil, nil
			}
			ca, ok := a.(clienttesting.CreateAction)
			if !ok {
				return false, nil, nil
			}
			req, _ := ca.GetObject().(*proxyv1alpha1.RateLimitAcquire)
			atomic.AddInt64(&s.acquireCalls, 1)
			atomic.AddInt32(&s.acquireInflight, 1)
			defer atomic.AddInt32(&s.acquireInflight, -1)
			s.mu.Lock()
			fn := s.acquire
			s.mu.Unlock()
			if fn == nil {
				return true, nil, fmt.Errorf("stub: no acquire script")
			}
			ret, err := fn(req)
			if ret == nil {
				return true, nil, err
			}
			return true, ret, err
		})
		s.pool = append(s.pool, cs)
	}
	return s
}

func (s *stubClientSets) GetAllClients() []gatewayclientset.Interface {
	var out []gatewayclientset.Interface
	for _, c := range s.pool {
		out = append(out, c)
	}
	return out
}

func (s *stubClientSets) ClientFor(cluster string) (gatewayclientset.Interface, error) {
	if atomic.LoadInt32(&s.unknown) != 0 {
		return nil, fmt.Errorf("server shard 0 has no leader")
	}
	i := atomic.AddUint32(&s.next, 1)
	return s.pool[int(i)%len(s.pool)], nil
}

func (s *stubClientSets) ShardIDFor(cluster string) (int, error) {
	if atomic.LoadInt32(&s.parked) != 0 {
		return -1, fmt.Errorf("shard count not synced")
	}
	return 0, nil
}

func (s *stubClientSets) IsReady(cluster string) bool {
	atomic.AddInt64(&s.readyCalls, 1)
	return atomic.LoadInt32(&s.ready) != 0
}

func (s *stubClientSets) ClientID() string { return s.id }

func (s *stubClientSets) setReady(b bool)   { atomic.StoreInt32(&s.ready, b2i(b)) }
func (s *stubClientSets) setUnknown(b bool) { atomic.StoreInt32(&s.unknown, b2i(b)) }
func (s *stubClientSets) setParked(b bool)  { atomic.StoreInt32(&s.parked, b2i(b)) }
func (s *stubClientSets) setAllocate(fn allocateFn) {
	s.mu.Lock()
	s.allocate = fn
	s.mu.Unlock()
}
func (s *stubClientSets) setAcquire(fn acquireFn) {
	s.mu.Lock()
	s.acquire = fn
	s.mu.Unlock()
}

func b2i(b bool) int32 {
	if b {
		return 1
	}
	return 0
}

// schemaCfg is one flow-control schema under test (local <= global).
type schemaCfg struct {
	Strategy string `json:"strategy"` // globalAllocate | globalCount
	Type     string `json:"type"`     // maxinflight | tokenbucket
	L        int32  `json:"local"`    // local max in flight / local qps
	G        int32  `json:"global"`   // global max in flight / global qps
	LB       int32  `json:"localBurst,omitempty"`
	GB       int32  `json:"globalBurst,omitempty"`
}

const schemaName = "fc"
const clusterName = "c09.example"

func (c schemaCfg) schema() proxyv1alpha1.FlowControlSchema {
	s := proxyv1alpha1.FlowControlSchema{Name: schemaName, Strategy: proxyv1alpha1.LimitStrategy(c.Strategy)}
	if c.Type == "maxinflight" {
		s.MaxRequestsInflight = &proxyv1alpha1.MaxRequestsInflightFlowControlSchema{Max: c.L}
		s.GlobalMaxRequestsInflight = &proxyv1alpha1.MaxRequestsInflightFlowControlSchema{Max: c.G}
	} else {
		s.TokenBucket = &proxyv1alpha1.TokenBucketFlowControlSchema{QPS: c.L, Burst: c.LB}
		s.GlobalTokenBucket = &proxyv1alpha1.TokenBucketFlowControlSchema{QPS: c.G, Burst: c.GB}
	}
	return s
}

// gateway is one real UpstreamLimiter in "remote" mode over a stub client set.
type gateway struct {
	cfg    schemaCfg
	cs     *stubClientSets
	lim    flowcontrols.UpstreamLimiter
	cancel context.CancelFunc
	local  flowcontrol.FlowControl // the object handed out while the remote limiter is not in effect
}

func newGateway(cfg schemaCfg, id string, pool int) *gateway {
	ctx, cancel := context.WithCancel(context.Background())
	cs := newStubClientSets(id, pool)
	lim := flowcontrols.NewUpstreamLimiter(ctx, clusterName, "", cs)
	lim.Sync(proxyv1alpha1.FlowControl{Schemas: []proxyv1alpha1.FlowControlSchema{cfg.schema()}})
	// exactly what ClusterInfo.Sync does when the GlobalRateLimiter feature gate is on
	lim.ResetLimiter(flowcontrol.RemoteFlowControls)
	// the stub is not ready yet: what the dispatcher gets now is the local fallback object. Its identity is only used to
	// attribute admissions to "the local limiter object" vs "the remote one" (whatever Load() chooses to hand out for the
	// fallback: the wrapper or the limiter behind it); the schema's type never changes in this check, so it is stable.
	return &gateway{cfg: cfg, cs: cs, lim: lim, cancel: cancel, local: lim.GetOrDefault(schemaName)}
}

// fc is how the dispatcher obtains the limiter for a request.
func (g *gateway) fc() flowcontrol.FlowControl { return g.lim.GetOrDefault(schemaName) }

func (g *gateway) reconcileOnce() { flowcontrols.VerifReconcileOnce(g.lim) }

func (g *gateway) close() {
	// Quiesce first: on this tree the goroutine that processes an acquire answer reads globalCounterManager.counterMap
	// without the lock (remote_counter.go, doAcquire), and stopping the limiter deletes from that map: tearing down with an
	// answer on its way can end the whole test process with "fatal error: concurrent map read and map write". That crash
	// is not what this check is about (and would make it flaky), so: no new requests, wait for the ones inside the stub,
	// give their goroutines time to finish.
	g.cs.setUnknown(true)
	for i := 0; i < 400 && atomic.LoadInt32(&g.cs.acquireInflight) != 0; i++ {
		time.Sleep(5 * time.Millisecond)
	}
	time.Sleep(20 * time.Millisecond)
	flowcontrols.VerifStop(g.lim)
	g.cancel()
	for _, c := range g.lim.AllFlowControls() {
		c.Stop()
	}
}
