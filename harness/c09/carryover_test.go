package c09

import (
	"fmt"
	"time"

	proxyv1alpha1 "github.com/kubewharf/kubegateway/pkg/apis/proxy/v1alpha1"
	"github.com/kubewharf/kubegateway/pkg/flowcontrols/flowcontrol"
	"github.com/kubewharf/kubegateway/pkg/flowcontrols/remote"

	"verifharness/vkit"
)

// ---------------------------------------------------------------------------------------------------------------------
// (E) in-flight requests carried across a local<->remote limiter switch, deterministic (one goroutine, no timing).
//
// The statement bounds what the instance admits by the global max-in-flight "whatever" the readiness does. The local and
// the remote limiter are two independent semaphores: requests admitted by one stay in flight (the dispatcher releases the
// object it acquired from) while Load() hands out the other. Scenario, exactly as a readiness flap / first sync plays out
// for long-running requests (watches):
//   local->remote: not ready; hold as many requests as the local limiter admits; the client set becomes ready and the
//                  server grants quota q (local+q > global, q <= global); admit until refused; count what is in flight.
//   remote->local: ready with quota q in effect; hold q; the client set becomes not ready; admit until refused.
// Classification (same rule as the real-time shadow counter): total > global with both objects in flight and each within
// its own limit = carry-over signature; anything else above global = a different signature.
// ---------------------------------------------------------------------------------------------------------------------

type carryCase struct {
	Cfg       schemaCfg `json:"schema"`
	Q         int32     `json:"grantedQuota"`
	Direction string    `json:"direction"` // local->remote | remote->local
	// observation
	HeldLocal  int `json:"inFlightAdmittedByLocalLimiter"`
	HeldRemote int `json:"inFlightAdmittedByRemoteLimiter"`
}

func carryoverPhase(r *vkit.R) {
	var cases []carryCase
	add := func(strategy proxyv1alpha1.LimitStrategy, L, G, q int32) {
		for _, d := range []string{"local->remote", "remote->local"} {
			cases = append(cases, carryCase{Cfg: schemaCfg{Strategy: string(strategy), Type: "maxinflight", L: L, G: G}, Q: q, Direction: d})
		}
	}
	g := r.Rng.Fork("carryover")
	for _, st := range []proxyv1alpha1.LimitStrategy{proxyv1alpha1.GlobalAllocateLimit, proxyv1alpha1.GlobalCountLimit} {
		add(st, 4, 7, 6) // the witness first seen with the real ticker: 4 + 6 = 10 > 7
		add(st, 5, 20, 20)
		for i := 0; i < r.N(4, 60); i++ {
			G := int32(g.Range(3, 14))
			L := int32(g.Range(1, int(G)))
			lo := G - L + 1 // local + q > global
			if c := G - 3; c > lo {
				lo = c // keeps the count-strategy probe short: at most 3 attempts wait 300 ms for the worker
			}
			if lo < 1+G/20 {
				lo = 1 + G/20
			}
			add(st, L, G, int32(g.Range(int(lo), int(G))))
		}
	}
	r.Parallel(len(cases), 32, func(i int, _ *vkit.Rand) { runCarryCase(r, cases[i]) })
	carryoverBucketCases(r)
}

func runCarryCase(r *vkit.R, c carryCase) {
	cfg := c.Cfg
	isCount := cfg.Strategy == string(proxyv1alpha1.GlobalCountLimit)
	sig, strat := sigCarryAllocate, "allocate"
	if isCount {
		sig, strat = sigCarryCount, "count"
	}
	gw := newGateway(cfg, "gw-1", 1)
	defer gw.close()
	gw.cs.setAllocate(func(req *proxyv1alpha1.RateLimitCondition) (*proxyv1alpha1.RateLimitCondition, error) {
		if isCount {
			return allocReply(req), nil
		}
		return allocReply(req, allocItem(cfg, c.Q, 0)), nil
	})
	// grant makes quota q the remote limit in effect (one real round trip; for the count strategy the wrapper is created by
	// that round trip, the worker is silenced and the accepted answer is applied through SetLimit as the worker would)
	grant := func() bool {
		if p := vkit.Safely(func() { gw.reconcileOnce() }); p != nil {
			r.Violation(fmt.Sprintf("C09/%s-maxinflight/panic/reconcile", strat), fmt.Sprintf("reconcile panicked: %v", p), c)
			return false
		}
		if !isCount {
			return true
		}
		gw.cs.setUnknown(true)
		cache := gw.lim.AllFlowControls()[schemaName]
		if cache == nil || cache.FlowControl() == nil {
			r.Inconclusive("count-strategy wrapper was not created by the reconcile round")
			return false
		}
		res := &proxyv1alpha1.RateLimitAcquireResult{FlowControl: schemaName, Accept: true, Limit: c.Q}
		req := &proxyv1alpha1.RateLimitAcquireRequest{FlowControl: schemaName}
		if p := vkit.Safely(func() { cache.FlowControl().SetLimit(remote.VerifNewAcquireResult(req, res, time.Now().UnixNano())) }); p != nil {
			r.Violation("C09/count-maxinflight/panic/set-limit/accept", fmt.Sprintf("SetLimit panicked: %v", p), c)
			return false
		}
		return true
	}
	// hold admits through the limiter the dispatcher would get right now until refused and keeps everything in flight
	type held struct {
		fc flowcontrol.FlowControl
		n  int
	}
	hold := func() (h held, ok bool) {
		cap := int(cfg.G+cfg.L) + 5
		if p := vkit.Safely(func() {
			h.fc = gw.fc()
			for h.n < cap && h.fc.TryAcquire() {
				h.n++
			}
		}); p != nil {
			r.Violation(fmt.Sprintf("C09/%s-maxinflight/panic/admission/carryover", strat), fmt.Sprintf("TryAcquire panicked: %v", p), c)
			return h, false
		}
		return h, true
	}
	release := func(h held) {
		vkit.Safely(func() {
			for i := 0; i < h.n; i++ {
				h.fc.Release()
			}
		})
	}

	var first, second held
	var ok bool
	if c.Direction == "local->remote" {
		gw.cs.setReady(false)
		if first, ok = hold(); !ok {
			return
		}
		defer release(first)
		gw.cs.setReady(true)
		if !grant() {
			return
		}
	} else {
		gw.cs.setReady(true)
		if !grant() {
			return
		}
		if first, ok = hold(); !ok {
			return
		}
		defer release(first)
		gw.cs.setReady(false)
	}
	if second, ok = hold(); !ok {
		return
	}
	defer release(second)

	r.Eval(1)
	r.Count("carryover_cases", 1)
	r.Distinct(vkit.Hash64(fmt.Sprintf("carry|%+v|%d|%s", cfg, c.Q, c.Direction)))
	localFC := gw.local
	switched := first.fc != second.fc && (first.fc == localFC) != (second.fc == localFC)
	nl, nr := first.n, second.n
	if second.fc == localFC {
		nl, nr = second.n, first.n
	}
	if !switched {
		// both holds went to the same object: one semaphore, no switch
		nl, nr = 0, first.n+second.n
		if first.fc == localFC {
			nl, nr = first.n+second.n, 0
		}
	}
	c.HeldLocal, c.HeldRemote = nl, nr
	total := nl + nr
	if r.WantSample() && c.Cfg.L == 4 && c.Cfg.G == 7 {
		r.Sample(map[string]interface{}{"kind": "carryover-case", "case": c, "inFlightAtOnce": total})
	}
	if total <= int(cfg.G) {
		r.Count("carryover_cases_within_global", 1)
		return
	}
	if switched && nl > 0 && nr > 0 && nl <= int(cfg.L) && nr <= int(cfg.G) {
		r.Count("carryover_cases_above_global", 1)
		r.Violation(sig,
			fmt.Sprintf("max-in-flight schema local=%d global=%d, %s strategy, %s: %d requests in flight at once = %d admitted by the local limiter object (held) + %d admitted by the remote one with quota %d in effect (each within its own limit; two independent semaphores, requests admitted by one stay in flight while Load() hands out the other)",
				cfg.L, cfg.G, strat, c.Direction, total, nl, nr, c.Q), c)
		return
	}
	r.Violation(fmt.Sprintf("C09/%s-maxinflight/inflight-above-global/beyond-carryover", strat),
		fmt.Sprintf("max-in-flight schema local=%d global=%d, %s strategy, %s, quota %d: %d requests in flight at once (%d through the local limiter object, %d through the remote one, switch observed: %v): more than a local<->remote switch explains (one limiter object alone is over its limit, or no switch happened)",
			cfg.L, cfg.G, strat, c.Direction, c.Q, total, nl, nr, switched), c)
}

// ---- token buckets: the same two-limiter construction for the RATE clause -------------------------------------------------
// The local and the remote limiter are two independent buckets. A switch between them (readiness flip / first sync) hands
// the caller a second, full bucket: drain the bucket in effect, switch, drain the other one; both drains together take
// microseconds, so local burst + granted burst > global burst is more than the global bucket allows in that window.
// Classification as for max in flight: both drains within their own bucket's bound and from different limiter objects =
// carry-over signature (token bucket); anything else above the global bound = a different signature.

const (
	sigCarryCountTB    = "C09/count-tokenbucket/rate-above-global/carryover-across-local-remote-switch"
	sigCarryAllocateTB = "C09/allocate-tokenbucket/rate-above-global/carryover-across-local-remote-switch"
)

func carryoverBucketCases(r *vkit.R) {
	g := r.Rng.Fork("carryover-tb")
	type tbCase struct {
		Cfg       schemaCfg `json:"schema"`
		Q, B      int32
		Direction string `json:"direction"`
	}
	var cases []tbCase
	for _, st := range []proxyv1alpha1.LimitStrategy{proxyv1alpha1.GlobalAllocateLimit, proxyv1alpha1.GlobalCountLimit} {
		for i := 0; i < r.N(3, 30); i++ {
			G := int32(g.Range(50, 150))
			GB := int32(g.Range(int(G), 2*int(G)))
			L := int32(g.Range(20, int(G)))
			LB := int32(g.Range(int(L), int(GB))) // admission-valid shapes: burst >= qps
			for _, d := range []string{"local->remote", "remote->local"} {
				cases = append(cases, tbCase{Cfg: schemaCfg{Strategy: string(st), Type: "tokenbucket", L: L, LB: LB, G: G, GB: GB}, Q: G, B: GB, Direction: d})
			}
		}
	}
	r.Parallel(len(cases), 16, func(i int, _ *vkit.Rand) {
		c := cases[i]
		cfg := c.Cfg
		isCount := cfg.Strategy == string(proxyv1alpha1.GlobalCountLimit)
		sig, strat := sigCarryAllocateTB, "allocate"
		if isCount {
			sig, strat = sigCarryCountTB, "count"
		}
		gw := newGateway(cfg, "gw-1", 1)
		defer gw.close()
		gw.cs.setAllocate(func(req *proxyv1alpha1.RateLimitCondition) (*proxyv1alpha1.RateLimitCondition, error) {
			if isCount {
				return allocReply(req), nil
			}
			return allocReply(req, allocItem(cfg, c.Q, c.B)), nil
		})
		grant := func() bool {
			if vkit.Safely(func() { gw.reconcileOnce() }) != nil {
				return false
			}
			if !isCount {
				return true
			}
			gw.cs.setUnknown(true)
			cache := gw.lim.AllFlowControls()[schemaName]
			if cache == nil || cache.FlowControl() == nil {
				return false
			}
			res := &proxyv1alpha1.RateLimitAcquireResult{FlowControl: schemaName, Accept: true, Limit: 100000}
			req := &proxyv1alpha1.RateLimitAcquireRequest{FlowControl: schemaName}
			return vkit.Safely(func() { cache.FlowControl().SetLimit(remote.VerifNewAcquireResult(req, res, time.Now().UnixNano())) }) == nil
		}
		type dr struct {
			fc     flowcontrol.FlowControl
			n      int
			t0, t1 int64
		}
		doDrain := func() (d dr) {
			vkit.Safely(func() {
				d.fc = gw.fc()
				d.n, d.t0, d.t1 = drain(d.fc, int(cfg.GB+cfg.LB)+10)
			})
			return
		}
		var first, second dr
		if c.Direction == "local->remote" {
			gw.cs.setReady(false)
			first = doDrain()
			gw.cs.setReady(true)
			if !grant() {
				r.Inconclusive("token-bucket carry-over case: could not install the remote limiter")
				return
			}
		} else {
			gw.cs.setReady(true)
			if !grant() {
				r.Inconclusive("token-bucket carry-over case: could not install the remote limiter")
				return
			}
			first = doDrain()
			gw.cs.setReady(false)
		}
		second = doDrain()
		r.Eval(1)
		r.Count("carryover_tb_cases", 1)
		r.Distinct(vkit.Hash64(fmt.Sprintf("carry-tb|%+v|%s", cfg, c.Direction)))
		total := first.n + second.n
		dt := float64(second.t1-first.t0) / 1e9
		allowed := float64(cfg.GB) + float64(cfg.G)*dt + 1
		if float64(total) <= allowed {
			r.Count("carryover_tb_cases_within_global", 1)
			return
		}
		loc, rem := first, second
		if second.fc == gw.local {
			loc, rem = second, first
		}
		within := func(d dr, q, b int32) bool { return float64(d.n) <= float64(b)+float64(q)*float64(d.t1-d.t0)/1e9+1 }
		if first.fc != second.fc && loc.fc == gw.local && rem.fc != gw.local && loc.n > 0 && rem.n > 0 && within(loc, cfg.L, cfg.LB) && within(rem, cfg.G, cfg.GB) {
			r.Count("carryover_tb_cases_above_global", 1)
			r.Violation(sig,
				fmt.Sprintf("token-bucket schema local=(%d qps, burst %d) global=(%d qps, burst %d), %s strategy, %s: %d requests admitted within %.6fs = %d from the local limiter object + %d from the remote one (each within its own bucket; two independent buckets, a switch hands out a second full bucket); the global bucket allows at most %.1f",
					cfg.L, cfg.LB, cfg.G, cfg.GB, strat, c.Direction, total, dt, loc.n, rem.n, allowed-1), c)
			return
		}
		r.Violation(fmt.Sprintf("C09/%s-tokenbucket/rate-above-global/beyond-carryover", strat),
			fmt.Sprintf("token-bucket schema local=(%d,%d) global=(%d,%d), %s strategy, %s: %d admitted within %.6fs (%d + %d), more than a local<->remote switch explains", cfg.L, cfg.LB, cfg.G, cfg.GB, strat, c.Direction, total, dt, first.n, second.n), c)
	})
}
