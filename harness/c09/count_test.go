package c09

import (
	"fmt"
	"math"
	"time"

	proxyv1alpha1 "github.com/kubewharf/kubegateway/pkg/apis/proxy/v1alpha1"
	"github.com/kubewharf/kubegateway/pkg/flowcontrols/remote"

	"verifharness/bed"
	"verifharness/vkit"
)

// ---------------------------------------------------------------------------------------------------------------------
// (B) count strategy, deterministic single steps
//
// The wrapper is created by one real reconcile round (updateGlobalCuntFlowControls); afterwards ClientFor fails, so the
// real worker goroutine sends nothing and the only server replies the wrapper sees are the ones injected here through
// SetLimit(VerifNewAcquireResult(...)) — the call the worker makes for every reply. The counter's own "reset check"
// injects a synthetic timeout error once 4 s have passed without a reply from the worker; every history is therefore
// judged only up to 3.5 s after the wrapper was created (steps after that are dropped and counted, not judged).
// ---------------------------------------------------------------------------------------------------------------------

type countStep struct {
	Kind  string `json:"kind"` // accept | reject | error | tooold | stale | notready | ready | reconfig
	Limit int32  `json:"limit,omitempty"`
	// reconfig: the schema's new limits, applied with UpstreamLimiter.Sync + one reconcile round
	NL  int32 `json:"newLocal,omitempty"`
	NG  int32 `json:"newGlobal,omitempty"`
	NLB int32 `json:"newLocalBurst,omitempty"`
	NGB int32 `json:"newGlobalBurst,omitempty"`
	// token bucket, fixed shapes only: let the bucket in effect refill for this long before the probe (the window starts
	// before the sleep), so that a RATE above the global one becomes visible, not only a burst
	SleepMs int `json:"sleepMsBeforeProbe,omitempty"`
	// observation
	E  int     `json:"admitted"`
	Dt float64 `json:"probeSeconds,omitempty"`
}

type countHistory struct {
	Cfg   schemaCfg   `json:"schema"`
	Shape string      `json:"shape"`
	Steps []countStep `json:"steps"`
}

func (h *countHistory) hash() uint64 {
	s := fmt.Sprintf("%+v", h.Cfg)
	for _, st := range h.Steps {
		s += fmt.Sprintf("|%s,%d,%d,%d,%d,%d", st.Kind, st.Limit, st.NL, st.NG, st.NLB, st.NGB)
	}
	return vkit.Hash64(s)
}

func limitClass(kind string, lim, g int32) string {
	switch kind {
	case "error", "tooold", "init":
		return kind
	}
	switch {
	case lim < 0:
		return kind + "/limit-negative"
	case lim > g:
		return kind + "/limit-above-global"
	}
	return kind + "/limit-in-range"
}

func genCountCfg(g *vkit.Rand, typ string) schemaCfg {
	c := schemaCfg{Strategy: string(proxyv1alpha1.GlobalCountLimit), Type: typ}
	if typ == "maxinflight" {
		c.G = int32(g.Range(4, 60))
		c.L = int32(g.Range(1, int(c.G)))
	} else {
		c.G = int32(g.Range(40, 300))
		c.L = int32(g.Range(10, int(c.G)))
		if g.Bool() {
			c.GB = int32(g.Range(int(c.G), 2*int(c.G))) // burst >= qps: only refills can exceed
		} else {
			c.GB = int32(g.Range(3, int(c.G)))
		}
		c.LB = int32(g.Range(1, int(c.GB)))
		if c.GB >= c.G && g.Bool() {
			c.LB = int32(g.Range(int(c.L), int(c.GB))) // the shape admission accepts: burst >= qps for both buckets
		}
	}
	return c
}

func genLimit(g *vkit.Rand, G int32) int32 {
	switch g.Intn(12) {
	case 0:
		return 0
	case 1:
		return G
	case 2:
		return G + 1
	case 3:
		return math.MaxInt32
	case 4:
		return -1
	case 5:
		return math.MinInt32
	case 6:
		return G + 7
	}
	return int32(g.Range(1, int(G)))
}

func genCountHistory(g *vkit.Rand, typ string, n int) *countHistory {
	h := &countHistory{Cfg: genCountCfg(g, typ), Shape: "random"}
	curG := h.Cfg.G
	withReconfig := g.Chance(0.4)
	for i := 0; i < n; i++ {
		st := countStep{}
		if withReconfig && i > 0 && g.Chance(0.2) {
			// spec update; the limits answered afterwards are drawn around BOTH the old and the new global limit
			nc := genCountCfg(g, typ)
			st.Kind, st.NL, st.NG, st.NLB, st.NGB = "reconfig", nc.L, nc.G, nc.LB, nc.GB
			h.Steps = append(h.Steps, st)
			if nc.G > curG {
				curG = nc.G
			}
			continue
		}
		switch x := g.Intn(100); {
		case x < 34:
			st.Kind = "accept"
			st.Limit = genLimit(g, curG)
			if typ == "tokenbucket" && g.Chance(0.6) {
				st.Limit = 10000 // plenty of server tokens: the bucket is the binding constraint, probes do not wait
			}
		case x < 56:
			st.Kind = "reject"
			st.Limit = genLimit(g, curG)
		case x < 78:
			st.Kind = "error"
		case x < 83:
			st.Kind = "tooold"
		case x < 90:
			st.Kind = "stale"
			st.Limit = genLimit(g, curG)
		case x < 95:
			st.Kind = "notready"
		default:
			st.Kind = "ready"
		}
		h.Steps = append(h.Steps, st)
	}
	return h
}

func fixedCountHistories() []*countHistory {
	mi := schemaCfg{Strategy: string(proxyv1alpha1.GlobalCountLimit), Type: "maxinflight", L: 5, G: 20}
	tbWide := schemaCfg{Strategy: string(proxyv1alpha1.GlobalCountLimit), Type: "tokenbucket", L: 50, LB: 50, G: 100, GB: 100}
	tbNarrow := schemaCfg{Strategy: string(proxyv1alpha1.GlobalCountLimit), Type: "tokenbucket", L: 50, LB: 5, G: 100, GB: 10}
	flap := &countHistory{Cfg: tbWide, Shape: "flap"}
	for i := 0; i < 6; i++ {
		flap.Steps = append(flap.Steps, countStep{Kind: "accept", Limit: 10000}, countStep{Kind: "error"})
	}
	return []*countHistory{
		{Cfg: mi, Shape: "reject-above-global", Steps: []countStep{{Kind: "accept", Limit: 8}, {Kind: "reject", Limit: 27}}},
		{Cfg: mi, Shape: "reject-negative", Steps: []countStep{{Kind: "accept", Limit: 8}, {Kind: "reject", Limit: -1}}},
		{Cfg: mi, Shape: "outage-and-recovery", Steps: []countStep{{Kind: "accept", Limit: 8}, {Kind: "error"}, {Kind: "notready"}, {Kind: "ready"}, {Kind: "accept", Limit: 12}, {Kind: "accept", Limit: 27}}},
		flap,
		// limits in the upper int32 range / rates float32 cannot represent: overflow of the reserve / batch arithmetic must
		// neither crash nor lift the not-ready limit; what the capped probe cannot tell apart is not judged
		{Cfg: schemaCfg{Strategy: string(proxyv1alpha1.GlobalCountLimit), Type: "maxinflight", L: 4, G: math.MaxInt32}, Shape: "huge-global-maxint32", Steps: []countStep{{Kind: "accept", Limit: 8}, {Kind: "reject", Limit: math.MaxInt32}, {Kind: "notready"}, {Kind: "error"}, {Kind: "ready"}, {Kind: "accept", Limit: math.MaxInt32}, {Kind: "notready"}}},
		{Cfg: schemaCfg{Strategy: string(proxyv1alpha1.GlobalCountLimit), Type: "maxinflight", L: 4, G: 1<<30 + 7}, Shape: "huge-global-2^30", Steps: []countStep{{Kind: "accept", Limit: -1}, {Kind: "error"}, {Kind: "notready"}, {Kind: "ready"}, {Kind: "accept", Limit: 300}, {Kind: "reconfig", NL: 3, NG: math.MaxInt32}, {Kind: "notready"}}},
		{Cfg: schemaCfg{Strategy: string(proxyv1alpha1.GlobalCountLimit), Type: "tokenbucket", L: 50, LB: 50, G: 1<<24 + 1, GB: 1<<24 + 1}, Shape: "huge-qps-2^24+1", Steps: []countStep{{Kind: "accept", Limit: 10000}, {Kind: "notready"}, {Kind: "ready"}, {Kind: "error"}, {Kind: "accept", Limit: math.MaxInt32}, {Kind: "notready"}}},
		{Cfg: schemaCfg{Strategy: string(proxyv1alpha1.GlobalCountLimit), Type: "tokenbucket", L: 50, LB: 50, G: math.MaxInt32, GB: math.MaxInt32}, Shape: "huge-qps-maxint32", Steps: []countStep{{Kind: "accept", Limit: 10000}, {Kind: "error"}, {Kind: "notready"}, {Kind: "ready"}, {Kind: "accept", Limit: 5}, {Kind: "notready"}}},
		{Cfg: mi, Shape: "global-lowered-during-outage", Steps: []countStep{{Kind: "accept", Limit: 8}, {Kind: "error"}, {Kind: "reconfig", NL: 5, NG: 10}, {Kind: "accept", Limit: 18}, {Kind: "reject", Limit: 19}}},
		{Cfg: mi, Shape: "global-lowered-while-healthy", Steps: []countStep{{Kind: "accept", Limit: 8}, {Kind: "reconfig", NL: 5, NG: 10}, {Kind: "accept", Limit: 18}, {Kind: "error"}, {Kind: "accept", Limit: 9}}},
		{Cfg: mi, Shape: "global-raised-during-outage", Steps: []countStep{{Kind: "accept", Limit: 8}, {Kind: "error"}, {Kind: "reconfig", NL: 7, NG: 40}, {Kind: "accept", Limit: 30}, {Kind: "notready"}}},
		{Cfg: tbWide, Shape: "tb-global-lowered-during-outage", Steps: []countStep{{Kind: "accept", Limit: 10000}, {Kind: "error"}, {Kind: "reconfig", NL: 10, NLB: 5, NG: 20, NGB: 10}, {Kind: "tooold", SleepMs: 600}, {Kind: "accept", Limit: 10000}}},
		{Cfg: mi, Shape: "global-lowered-while-not-ready", Steps: []countStep{{Kind: "accept", Limit: 15}, {Kind: "notready"}, {Kind: "reconfig", NL: 3, NG: 10}, {Kind: "ready"}, {Kind: "accept", Limit: 15}}},
		{Cfg: tbNarrow, Shape: "outage-narrow-burst", Steps: []countStep{{Kind: "accept", Limit: 10000}, {Kind: "error"}, {Kind: "accept", Limit: 10000}}},
		{Cfg: tbWide, Shape: "grant-accounting", Steps: []countStep{{Kind: "accept", Limit: 0}, {Kind: "error"}, {Kind: "accept", Limit: 3}, {Kind: "notready"}, {Kind: "ready"}}},
	}
}

func countDeterministicPhase(r *vkit.R) {
	fixed := fixedCountHistories()
	n := r.N(500, 10000)
	steps := r.N(7, 8)
	r.Parallel(n, 50, func(i int, g *vkit.Rand) {
		var h *countHistory
		switch {
		case i < len(fixed):
			h = fixed[i]
		case i%2 == 0:
			h = genCountHistory(g, "maxinflight", steps)
		default:
			h = genCountHistory(g, "tokenbucket", steps)
		}
		runCountHistory(r, h)
	})
}

func runCountHistory(r *vkit.R, h *countHistory) {
	cfg := h.Cfg
	gw := newGateway(cfg, "gw-1", 1)
	defer gw.close()
	gw.cs.setReady(true)
	gw.cs.setAllocate(func(req *proxyv1alpha1.RateLimitCondition) (*proxyv1alpha1.RateLimitCondition, error) {
		return allocReply(req), nil
	})
	created := bed.Now()
	if p := vkit.Safely(func() { gw.reconcileOnce() }); p != nil {
		r.Violation(fmt.Sprintf("C09/count-%s/panic/reconcile", cfg.Type), fmt.Sprintf("reconcile panicked: %v", p), h)
		return
	}
	gw.cs.setUnknown(true) // silences the real worker; see the comment at the top of this file
	cache := gw.lim.AllFlowControls()[schemaName]
	if cache == nil || cache.FlowControl() == nil {
		r.Inconclusive("count-strategy wrapper was not created by the reconcile round")
		return
	}
	wrapper := cache.FlowControl()
	r.Distinct(h.hash())

	isTB := cfg.Type == "tokenbucket"
	var (
		ready          = true
		mode           = "init" // init | accept | reject | error
		lastKind       = "init"
		lastLimit      int32
		peak           int     // highest number of requests this history ever held at once (over-approximates "observed usage")
		anyApplied     bool    // some accept/reject answer was applied
		hadOutage      bool    // the wrapper was in error mode at some point
		insaneGrant    bool    // an accepted answer carried a negative token count
		reconfigured   bool    // the schema's limits were changed at some point of this history
		unavail        bool    // attribution only: the wrapper's server-unavailable state as the real code keeps it
		maxServerLimit int32   // the largest limit any answer carried so far, clamped to [0, global]
		recovered      bool    // the current accept mode was entered from error mode
		granted        int64   // token bucket: tokens granted by accept replies
		usedAccept     int64   // token bucket: admissions while in accept mode
		transitions    []int64 // token bucket: times of error<->available transitions
		admT0          []int64 // token bucket: per admission [call, return] (sequential, one goroutine)
		admT1          []int64
		admMode        []string // the mode the wrapper was in at that admission
		reqSeq         int64    = time.Now().UnixNano()
		oldReq         int64    = reqSeq - int64(time.Hour)
	)

	inject := func(res *proxyv1alpha1.RateLimitAcquireResult, requestTime int64) interface{} {
		res.FlowControl = schemaName
		req := &proxyv1alpha1.RateLimitAcquireRequest{FlowControl: schemaName}
		return vkit.Safely(func() { wrapper.SetLimit(remote.VerifNewAcquireResult(req, res, requestTime)) })
	}

	for si := range h.Steps {
		st := &h.Steps[si]
		var p interface{}
		prevMode := mode
		reqSeq += 1000
		switch st.Kind {
		case "accept":
			p = inject(&proxyv1alpha1.RateLimitAcquireResult{Accept: true, Limit: st.Limit}, reqSeq)
			recovered = mode == "error"
			mode, lastKind, lastLimit = "accept", "accept", st.Limit
			anyApplied = true
			unavail = false
			if st.Limit > 0 {
				granted += int64(st.Limit)
			}
		case "stale":
			// an accepted answer to a request older than one already applied (re-ordered delivery). A correct wrapper may
			// apply it or drop it, so until the next fresh answer only "<= global" (and the not-ready rule) is judged.
			p = inject(&proxyv1alpha1.RateLimitAcquireResult{Accept: true, Limit: st.Limit}, oldReq)
			if st.Limit > 0 {
				granted += int64(st.Limit)
			}
			if isTB || !anyApplied {
				// attribution only (not a verdict): the token-bucket wrapper does not order answers, the max-in-flight
				// wrapper drops an old answer once any answer was applied
				lastKind, lastLimit = "accept", st.Limit
				unavail = false
			}
			if isTB && mode == "error" {
				recovered = true
			}
			if isTB {
				mode = "accept"
			} else {
				mode = "ambiguous"
			}
		case "reject":
			p = inject(&proxyv1alpha1.RateLimitAcquireResult{Accept: false, Limit: st.Limit}, reqSeq)
			if !isTB || mode != "error" { // a token-bucket wrapper leaves error mode only on an accepted answer
				mode = "reject"
			}
			lastKind, lastLimit = "reject", st.Limit
			anyApplied = true
		case "error":
			p = inject(&proxyv1alpha1.RateLimitAcquireResult{Error: "upstream " + clusterName + ", shard 0, leader is limiter-1"}, reqSeq)
			mode, lastKind = "error", "error"
			hadOutage = true
			unavail = true
		case "tooold":
			p = inject(&proxyv1alpha1.RateLimitAcquireResult{Error: "RequestIDTooOld"}, reqSeq)
		case "notready":
			ready = false
		case "ready":
			ready = true
		case "reconfig":
			// spec update while the server is ok / failing / not ready. Propagation: the local limit follows inside Sync;
			// the global limit reaches the wrapper in the next reconcile round (updateGlobalCuntFlowControls ->
			// remoteWrapper.Sync -> Resize), which runs whatever the server's state. From then on the oracle judges
			// against the new limits.
			cfg.L, cfg.G, cfg.LB, cfg.GB = st.NL, st.NG, st.NLB, st.NGB
			gw.cfg = cfg
			// token bucket: a new epoch for the whole-history window check (a resize may legitimately start a new bucket;
			// within an epoch the admissions are judged against that epoch's global bucket)
			admT0, admT1, admMode, transitions = nil, nil, nil, nil
			p = vkit.Safely(func() {
				gw.lim.Sync(proxyv1alpha1.FlowControl{Schemas: []proxyv1alpha1.FlowControlSchema{cfg.schema()}})
				gw.reconcileOnce()
			})
			reconfigured = true
			if mode != "error" && !isTB {
				mode = "ambiguous" // the wrapper may shrink to its reserve until the next answer: only "<= global" is judged
			}
			if maxServerLimit > cfg.G {
				maxServerLimit = cfg.G
			}
			r.Count("count_det_reconfigurations", 1)
		}
		if (st.Kind == "accept" || st.Kind == "stale") && st.Limit < 0 {
			insaneGrant = true
		}
		if st.Kind == "accept" || st.Kind == "stale" || st.Kind == "reject" {
			// every limit the server ever provided (accepted quota or rejection threshold), clamped to global: what a
			// wrapper may legitimately keep enforcing while the server is failing ("last granted")
			if c := clampI32(st.Limit, 0, cfg.G); c > maxServerLimit {
				maxServerLimit = c
			}
		}
		gw.cs.setReady(ready)
		if p != nil {
			r.Violation(fmt.Sprintf("C09/count-%s/panic/set-limit/%s", cfg.Type, st.Kind), fmt.Sprintf("SetLimit panicked on a %s reply: %v", st.Kind, p), trimmedC(h, si))
			return
		}
		if (prevMode == "error") != (mode == "error") {
			transitions = append(transitions, bed.Now())
		}

		cls := limitClass(lastKind, lastLimit, cfg.G)
		if reconfigured {
			// attribution: a limit that was changed while the wrapper was in its server-unavailable state (entered by an
			// error answer, left only by an accepted one) and is still not enforced in that state is one defect class; an
			// excess in any other state after a reconfiguration (e.g. after the recovery) is another
			if unavail {
				cls = "after-reconfigure/while-server-unavailable"
			} else {
				cls = "after-reconfigure/" + cls
			}
		}
		if !isTB {
			var E int
			capMI := probeCap(cfg.G, 5)
			if p := vkit.Safely(func() { E = probeInflight(gw, capMI) }); p != nil {
				r.Violation("C09/count-maxinflight/panic/admission", fmt.Sprintf("TryAcquire/Release panicked: %v", p), trimmedC(h, si))
				return
			}
			if bed.Now()-created > int64(3500*time.Millisecond) {
				r.Count("count_det_steps_dropped_late", len(h.Steps)-si)
				break
			}
			st.E = E
			r.Count("count_det_steps", 1)
			r.Count("count_det_mi_"+st.Kind, 1)
			r.Eval(1)
			fallbackBound := int(cfg.L)
			if peak > fallbackBound {
				fallbackBound = peak
			}
			if int(maxServerLimit) > fallbackBound {
				fallbackBound = int(maxServerLimit)
			}
			switch {
			case !ready:
				if E != int(cfg.L) {
					r.Violation("C09/count-maxinflight/fallback-not-local/not-ready",
						fmt.Sprintf("max-in-flight schema local=%d global=%d, count strategy: client set not ready at step %d but the effective limit is %d", cfg.L, cfg.G, si, E), trimmedC(h, si))
					return
				}
				r.Count("count_det_local_in_effect", 1)
			case E > int(cfg.G):
				r.Violation("C09/count-maxinflight/exceeds-global/"+cls,
					fmt.Sprintf("max-in-flight schema local=%d global=%d, count strategy: after reply #%d (%s, limit %d) the gateway admitted %d concurrent requests (probe capped at global+5)", cfg.L, cfg.G, si, lastKind, lastLimit, E), trimmedC(h, si))
				return // what follows in this history is polluted by the usage the probe itself created
			case mode == "error":
				// deliberate design: max(observed usage, local). Sound upper bound on "observed usage": the peak this
				// history ever held; widened by the last accepted limit (what the allocate path falls back to).
				r.Count("count_det_fallback_checks", 1)
				if E == int(cfg.L) {
					r.Count("count_det_fallback_equals_local", 1)
				}
				if E > fallbackBound {
					r.Violation("C09/count-maxinflight/fallback-not-local/failing",
						fmt.Sprintf("max-in-flight schema local=%d global=%d, count strategy: server failing at step %d; effective limit %d exceeds the local limit, the usage ever observed (%d) and every limit the server ever provided (max %d)", cfg.L, cfg.G, si, E, peak, maxServerLimit), trimmedC(h, si))
					return
				}
			case mode == "accept" && st.Kind == "accept":
				// recovery / normal operation: an accepted limit q in [5% of global + 1, global] must be in effect exactly
				// (below that the wrapper's documented burst reserve may lift it)
				if st.Limit >= 1+cfg.G/20 && st.Limit <= cfg.G && int(st.Limit) < capMI {
					r.Count("count_det_recovery_checks", 1)
					if E != int(st.Limit) {
						pos := "steady"
						if recovered {
							pos = "after-outage"
						}
						r.Violation("C09/count-maxinflight/quota-not-applied/"+pos,
							fmt.Sprintf("max-in-flight schema local=%d global=%d, count strategy: server accepted limit %d at step %d but the effective limit is %d", cfg.L, cfg.G, st.Limit, si, E), trimmedC(h, si))
						return
					}
				}
			}
			if E > peak && E <= int(cfg.G) {
				peak = E
			}
			continue
		}

		// token bucket
		tbMode := "after-" + mode
		if mode != "error" && hadOutage {
			tbMode = "after-recovery" // server-available mode that was entered from an outage at some point of this history
		}
		if reconfigured {
			if unavail {
				tbMode = "after-reconfigure/while-server-unavailable"
			} else {
				tbMode = "after-reconfigure/" + tbMode
			}
		}
		cap := probeCap(cfg.GB, 10)
		var n int
		var t0, t1 int64
		if p := vkit.Safely(func() {
			fc := gw.fc()
			t0 = bed.Now()
			t1 = t0
			if st.SleepMs > 0 {
				time.Sleep(time.Duration(st.SleepMs) * time.Millisecond)
			}
			for n < cap {
				c0 := bed.Now()
				if !fc.TryAcquire() {
					break
				}
				n++
				t1 = bed.Now()
				fc.Release()
				if ready {
					admT0, admT1, admMode = append(admT0, c0), append(admT1, t1), append(admMode, tbMode)
				}
			}
		}); p != nil {
			r.Violation("C09/count-tokenbucket/panic/admission", fmt.Sprintf("TryAcquire/Release panicked: %v", p), trimmedC(h, si))
			return
		}
		if bed.Now()-created > int64(3500*time.Millisecond) {
			r.Count("count_det_steps_dropped_late", len(h.Steps)-si)
			break
		}
		dt := float64(t1-t0) / 1e9
		st.E, st.Dt = n, dt
		r.Count("count_det_steps", 1)
		r.Count("count_det_tb_"+st.Kind, 1)
		r.Eval(1)
		switch {
		case !ready:
			if float64(n) > float64(cfg.LB)+float64(cfg.L)*dt+1 {
				r.Violation("C09/count-tokenbucket/fallback-not-local/not-ready",
					fmt.Sprintf("token-bucket schema local=(%d,%d) global=(%d,%d), count strategy: client set not ready at step %d but %d requests were admitted within %.6fs", cfg.L, cfg.LB, cfg.G, cfg.GB, si, n, dt), trimmedC(h, si))
				return
			}
			r.Count("count_det_local_in_effect", 1)
		case float64(n) > float64(cfg.GB)+float64(cfg.G)*dt+1:
			r.Violation("C09/count-tokenbucket/exceeds-global/"+tbMode+"/burst",
				fmt.Sprintf("token-bucket schema local=(%d qps, burst %d) global=(%d qps, burst %d), count strategy: after reply #%d (%s) the gateway admitted %d requests within %.6fs (probe capped at global burst+10); the global bucket allows at most %.1f",
					cfg.L, cfg.LB, cfg.G, cfg.GB, si, lastKind, n, dt, float64(cfg.GB)+float64(cfg.G)*dt), trimmedC(h, si))
			return // later steps of this history are consequences; the window check below is for histories without a sizing defect
		case mode != "error": // server-available mode: every admission needs a server-granted token
			usedAccept += int64(n)
			// judged only while every grant so far was a sane (non-negative) number of tokens: for out-of-range answers the
			// statement demands nothing beyond "<= global" (checked above)
			if mode == "accept" && recovered && !insaneGrant {
				r.Count("count_det_recovery_checks", 1)
				if usedAccept > granted {
					r.Violation("C09/count-tokenbucket/quota-not-applied/after-outage",
						fmt.Sprintf("token-bucket schema local=(%d,%d) global=(%d,%d), count strategy: server available again at step %d; %d requests admitted in server-available mode so far but the server granted only %d tokens in total", cfg.L, cfg.LB, cfg.G, cfg.GB, si, usedAccept, granted), trimmedC(h, si))
					return
				}
			}
		}
	}

	// token bucket: one window bound over the whole (sequential) admission history while the remote limiter was in effect.
	// A single step above the bound is a sizing defect (reported above); a violation that needs a window spanning an
	// error<->available transition is the refill-on-flap behaviour.
	if isTB && len(admT0) > 1 {
		// violated iff exists i<=j: (j-i+1) > GB + G*(t1[j]-t0[i]) + 1
		best, bi := math.Inf(-1), 0
		G, GB := float64(cfg.G), float64(cfg.GB)
		for j := range admT0 {
			if v := G*float64(admT0[j])/1e9 - float64(j); v > best {
				best, bi = v, j
			}
			excess := float64(j+1) - G*float64(admT1[j])/1e9 + best - (GB + 1)
			if excess > 0 {
				ntr := 0
				for _, t := range transitions {
					if t >= admT0[bi] && t <= admT1[j] {
						ntr++
					}
				}
				sig := "C09/count-tokenbucket/flap-refill"
				if ntr == 0 {
					// one bucket, no swap inside the window: that bucket is bigger than the global one (seen only over
					// several probes because each probe is capped or was limited by server tokens)
					sig = "C09/count-tokenbucket/exceeds-global/" + admMode[j] + "/burst"
				}
				r.Violation(sig,
					fmt.Sprintf("token-bucket schema local=(%d qps, burst %d) global=(%d qps, burst %d), count strategy: %d requests admitted within %.6fs across %d error<->available transitions of the server (every single probe stayed within the global bucket); the global bucket allows at most %.1f in that window",
						cfg.L, cfg.LB, cfg.G, cfg.GB, j-bi+1, float64(admT1[j]-admT0[bi])/1e9, ntr, GB+G*float64(admT1[j]-admT0[bi])/1e9), h)
				break
			}
		}
	}
	if r.WantSample() && h.Shape != "random" {
		r.Sample(map[string]interface{}{"kind": "count-deterministic-history", "history": h})
	}
}

func trimmedC(h *countHistory, si int) *countHistory {
	out := &countHistory{Cfg: h.Cfg, Shape: h.Shape}
	out.Steps = append(out.Steps, h.Steps[:si+1]...)
	return out
}
