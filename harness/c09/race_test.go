package c09

import (
	"fmt"
	"math"
	"runtime"
	"sync"
	"sync/atomic"
	"time"

	proxyv1alpha1 "github.com/kubewharf/kubegateway/pkg/apis/proxy/v1alpha1"
	"github.com/kubewharf/kubegateway/pkg/flowcontrols/remote"

	"verifharness/vkit"
)

// ---------------------------------------------------------------------------------------------------------------------
// (H) a server answer racing with the propagation of a LOWERED global limit, count strategy, max in flight.
//
// Round (a fixed number per limiter, nothing is timed):
//   1. sequentially: global = high (UpstreamLimiter.Sync + one reconcile round = the propagation step), the server accepts
//      `high`: the wrapper enforces `high`.
//   2. sequentially: UpstreamLimiter.Sync lowers the global limit to 1 (the local configuration is updated; the wrapper does
//      not know yet).
//   3. concurrently, released together: [the propagation step: one reconcile round -> remoteWrapper.Sync -> Resize(1)] and
//      [one accepted server answer with a large limit, SetLimit(VerifNewAcquireResult(...)), delayed by a swept number of
//      spin iterations so that over the rounds it meets every point of the propagation step].
//   4. QUIESCENCE: both calls have returned. Whatever the order in which they took effect, the lowered limit was propagated
//      and the answer was fully processed, so the effective limit (probe through GetOrDefault) must be <= 1 now:
//      answer first -> the Resize that follows shrinks the limiter; Resize first -> the answer is clamped against 1.
// Only the quiescent state is judged. global = 1 is used as the low value because the max-in-flight wrapper then never
// makes the probing caller wait 300 ms for the worker (wait + in flight > max is answered at once).
// At the end of each limiter's run the same is checked once more in a known sequential order (Sync to 1, propagation, then
// an answer with a large limit).
// ---------------------------------------------------------------------------------------------------------------------

func racePhase(r *vkit.R) {
	limiters := 5
	if c := runtime.GOMAXPROCS(0) / 3; c < limiters {
		limiters = c
	}
	if limiters < 1 {
		limiters = 1
	}
	rounds := r.N(14000, 60000)
	g := r.Rng.Fork("race")
	var wg sync.WaitGroup
	for i := 0; i < limiters; i++ {
		rng := g.Sub(i)
		wg.Add(1)
		go func() {
			defer wg.Done()
			runRace(r, rng, rounds)
		}()
	}
	wg.Wait()
	r.Set("race_limiters", limiters)
}

var raceSink int64

func runRace(r *vkit.R, g *vkit.Rand, rounds int) {
	high := int32(g.Range(20, 100))
	cfgHigh := schemaCfg{Strategy: string(proxyv1alpha1.GlobalCountLimit), Type: "maxinflight", L: 1, G: high}
	cfgLow := cfgHigh
	cfgLow.G = 1
	gw := newGateway(cfgHigh, "gw-race", 1)
	defer gw.close()
	gw.cs.setReady(true)
	gw.cs.setAllocate(func(req *proxyv1alpha1.RateLimitCondition) (*proxyv1alpha1.RateLimitCondition, error) {
		return allocReply(req), nil
	})
	if p := vkit.Safely(func() { gw.reconcileOnce() }); p != nil {
		r.Violation("C09/count-maxinflight/panic/reconcile", fmt.Sprintf("reconcile panicked: %v", p), cfgHigh)
		return
	}
	gw.cs.setUnknown(true) // the real worker sends nothing: every answer the wrapper sees is one of this scenario's
	cache := gw.lim.AllFlowControls()[schemaName]
	if cache == nil || cache.FlowControl() == nil {
		r.Inconclusive("count-strategy wrapper was not created by the reconcile round")
		return
	}
	wrapper := cache.FlowControl()
	reqTime := time.Now().UnixNano()
	answer := func(limit int32) *remote.AcquireResult {
		reqTime++
		return remote.VerifNewAcquireResult(&proxyv1alpha1.RateLimitAcquireRequest{FlowControl: schemaName, Tokens: limit},
			&proxyv1alpha1.RateLimitAcquireResult{FlowControl: schemaName, Accept: true, Limit: limit}, reqTime)
	}
	sync2 := func(c schemaCfg) {
		gw.lim.Sync(proxyv1alpha1.FlowControl{Schemas: []proxyv1alpha1.FlowControlSchema{c.schema()}})
	}
	probe := func() int {
		fc := gw.fc()
		n := 0
		for n < 4 && fc.TryAcquire() {
			n++
		}
		for i := 0; i < n; i++ {
			fc.Release()
		}
		return n
	}

	// two long-lived helpers released by an atomic round number (no channel wake-up jitter)
	var (
		goRound  int64 // round the helpers may run
		doneA    int64
		doneB    int64
		spin     int64
		pending  atomic.Value // *remote.AcquireResult of this round
		quit     int32
		panicked atomic.Value
	)
	var hw sync.WaitGroup
	hw.Add(2)
	go func() { // the answer
		defer hw.Done()
		for round := int64(1); ; round++ {
			for atomic.LoadInt64(&goRound) < round {
				if atomic.LoadInt32(&quit) != 0 {
					return
				}
			}
			s := int64(0)
			for i, n := int64(0), atomic.LoadInt64(&spin); i < n; i++ {
				s += i
			}
			atomic.AddInt64(&raceSink, s)
			if p := vkit.Safely(func() { wrapper.SetLimit(pending.Load().(*remote.AcquireResult)) }); p != nil {
				panicked.Store(fmt.Sprint("SetLimit: ", p))
			}
			atomic.StoreInt64(&doneA, round)
		}
	}()
	go func() { // the propagation step
		defer hw.Done()
		for round := int64(1); ; round++ {
			for atomic.LoadInt64(&goRound) < round {
				if atomic.LoadInt32(&quit) != 0 {
					return
				}
			}
			if p := vkit.Safely(func() { gw.reconcileOnce() }); p != nil {
				panicked.Store(fmt.Sprint("reconcile: ", p))
			}
			atomic.StoreInt64(&doneB, round)
		}
	}()
	defer func() {
		atomic.StoreInt32(&quit, 1)
		hw.Wait()
	}()

	const spinRange = 6000
	for round := int64(1); round <= int64(rounds); round++ {
		big := high - int32(round%7) // a limit the OLD global allows
		if round%5 == 0 {
			big = math.MaxInt32
		}
		var p interface{}
		if p = vkit.Safely(func() {
			sync2(cfgHigh)
			gw.reconcileOnce()
			wrapper.SetLimit(answer(high))
			sync2(cfgLow)
		}); p != nil {
			r.Violation("C09/count-maxinflight/panic/reconfigure", fmt.Sprintf("Sync/reconcile/SetLimit panicked: %v", p), cfgHigh)
			return
		}
		pending.Store(answer(big))
		d := (round * 37) % spinRange
		atomic.StoreInt64(&spin, d)
		atomic.StoreInt64(&goRound, round)
		for atomic.LoadInt64(&doneA) < round || atomic.LoadInt64(&doneB) < round {
			runtime.Gosched()
		}
		if msg, _ := panicked.Load().(string); msg != "" {
			r.Violation("C09/count-maxinflight/panic/answer-racing-with-reconfigure", "panic while an answer raced with the propagation of a new global limit: "+msg, cfgHigh)
			return
		}
		// quiescence
		E := -1
		if p := vkit.Safely(func() { E = probe() }); p != nil {
			r.Violation("C09/count-maxinflight/panic/admission", fmt.Sprintf("TryAcquire/Release panicked: %v", p), cfgHigh)
			return
		}
		r.Count("race_rounds", 1)
		if E > 1 {
			r.Violation("C09/count-maxinflight/exceeds-global/answer-racing-with-lowered-global",
				fmt.Sprintf("max-in-flight schema local=1, count strategy: the global limit was lowered from %d to 1 (UpstreamLimiter.Sync had returned) and its propagation (reconcile round -> Resize) ran concurrently with one accepted server answer of limit %d; after BOTH had returned the gateway admitted %d concurrent requests (probe capped at 4), global limit 1 (round %d, the answer was delayed by %d spin iterations)",
					high, big, E, round, d),
				map[string]interface{}{"globalBefore": high, "globalAfter": 1, "answerLimit": big, "admittedAtQuiescence": E, "round": round, "spinIterations": d})
			return
		}
	}
	r.Eval(rounds)
	r.Distinct(vkit.Hash64(fmt.Sprintf("race|%d|%d", high, rounds)))
	// known sequential order once more: lower, propagate, then a large answer
	E := -1
	vkit.Safely(func() {
		sync2(cfgHigh)
		gw.reconcileOnce()
		wrapper.SetLimit(answer(high))
		sync2(cfgLow)
		gw.reconcileOnce()
		wrapper.SetLimit(answer(math.MaxInt32))
		E = probe()
	})
	r.Count("race_sequential_checks", 1)
	if E > 1 {
		r.Violation("C09/count-maxinflight/exceeds-global/after-reconfigure/accept/limit-above-global",
			fmt.Sprintf("max-in-flight schema local=1, count strategy: global lowered from %d to 1 and propagated, then an accepted answer with limit 2^31-1: %d admitted at once", high, E), cfgHigh)
	}
}
