package c09

import (
	"fmt"
	"math"
	"sort"
	"sync"
	"sync/atomic"
	"time"

	proxyv1alpha1 "github.com/kubewharf/kubegateway/pkg/apis/proxy/v1alpha1"
	"github.com/kubewharf/kubegateway/pkg/flowcontrols/remote"

	"verifharness/bed"
	"verifharness/vkit"
)

// ---------------------------------------------------------------------------------------------------------------------
// (C) real time: the real worker goroutines (count strategy) and the real 2 s ticker (allocate strategy) against scenario
// reply functions. Verdicts are one-sided only: shadow in-flight counter (incremented after a successful TryAcquire,
// decremented before Release, so it under-approximates) against the global max; window bound (t_call / t_return on the
// one monotonic clock) against the global bucket. Scheduling delay can hide a violation, never invent one.
// ---------------------------------------------------------------------------------------------------------------------

type rtScenario struct {
	Cfg   schemaCfg `json:"schema"`
	Class string    `json:"class"`
	MS    int       `json:"durationMs"`
}

type replyRec struct {
	at  int64
	err bool
}

type rtRun struct {
	sc rtScenario
	gw *gateway

	start int64

	// shadow in-flight state; all of it is read and written under shMu, in the same critical section as the check.
	// Admissions are attributed to the limiter OBJECT GetOrDefault returned (the local wrapper or the remote one), so
	// "requests of both objects are in flight at once" = a local<->remote switch happened between the oldest admission
	// that is still running and the newest one.
	shMu        sync.Mutex
	nLocal      int32
	nRemote     int32
	maxShadow   int32 // highest total ever seen
	otherMax    int32 // highest total above global that a switch does NOT explain (one semaphore alone is over its own limit)
	overAt      int64 // time of the first such excess
	overReply   int64 // number of server replies served at that time
	carryMax    int32 // highest total above global with both objects in flight, each within its own limit (local<=local max, remote<=global)
	carryLocal  int32
	carryRemote int32
	carryAt     int64
	outageOn    int32 // outage-rate: the server answers errors only

	mu      sync.Mutex
	replies []replyRec
	k       int64 // replies served

	admMu sync.Mutex
	adm   [][2]int64

	attempts   int64
	admissions int64
	panics     int64
	panicMsg   atomic.Value
}

func (x *rtRun) elapsed() time.Duration { return time.Duration(bed.Now() - x.start) }

func (x *rtRun) noteReply(isErr bool) {
	x.mu.Lock()
	x.replies = append(x.replies, replyRec{at: bed.Now(), err: isErr})
	x.mu.Unlock()
}

// ---- scenario reply functions (count strategy) ----

var hostileLimits = []int32{math.MaxInt32, -1, 0, math.MinInt32}

func (x *rtRun) acquireFn() acquireFn {
	cfg := x.sc.Cfg
	G := cfg.G
	isTB := cfg.Type == "tokenbucket"
	return func(req *proxyv1alpha1.RateLimitAcquire) (*proxyv1alpha1.RateLimitAcquire, error) {
		k := atomic.AddInt64(&x.k, 1)
		el := x.elapsed()
		out := req.DeepCopy()
		out.Status.Results = nil
		add := func(rq proxyv1alpha1.RateLimitAcquireRequest, accept bool, limit int32, errs string) {
			out.Status.Results = append(out.Status.Results, proxyv1alpha1.RateLimitAcquireResult{FlowControl: rq.FlowControl, Accept: accept, Limit: limit, Error: errs})
		}
		honest := func(rq proxyv1alpha1.RateLimitAcquireRequest) {
			if isTB {
				switch {
				case k%7 == 0:
					add(rq, false, 0, "")
				case k%5 == 0:
					add(rq, true, rq.Tokens/2, "")
				default:
					add(rq, true, rq.Tokens, "")
				}
				return
			}
			// max in flight: a threshold that moves every 400 ms
			ths := []int32{G, G/2 + 1, 1, G/3 + 1, G}
			T := ths[int(el/(400*time.Millisecond))%len(ths)]
			if rq.Tokens <= T {
				add(rq, true, rq.Tokens, "")
			} else {
				add(rq, false, T, "")
			}
		}
		isErr := false
		switch x.sc.Class {
		case "honest", "ready-flap", "unknown-outage":
			for _, rq := range req.Spec.Requests {
				honest(rq)
			}
		case "accept-hostile":
			for _, rq := range req.Spec.Requests {
				if isTB {
					add(rq, true, []int32{math.MaxInt32, -1, math.MinInt32, 0, 10 * rq.Tokens, 10000}[k%6], "")
				} else {
					add(rq, true, []int32{G + 1, math.MaxInt32, -1, 0, G, math.MinInt32}[k%6], "")
				}
			}
		case "reject-above-global":
			for _, rq := range req.Spec.Requests {
				if k%3 == 0 {
					honest(rq)
				} else {
					add(rq, false, []int32{G + 3, math.MaxInt32}[k%2], "")
				}
			}
		case "reject-negative":
			for _, rq := range req.Spec.Requests {
				if k%3 == 0 {
					honest(rq)
				} else {
					add(rq, false, []int32{-1, math.MinInt32}[k%2], "")
				}
			}
		case "flap":
			for _, rq := range req.Spec.Requests {
				if k%2 == 0 {
					add(rq, false, 0, "limit store for upstream not found")
					isErr = true
				} else if isTB {
					add(rq, true, 10000, "")
				} else {
					honest(rq)
				}
			}
		case "omit-tooold":
			for _, rq := range req.Spec.Requests {
				switch k % 3 {
				case 0:
					// item omitted
				case 1:
					add(rq, false, 0, "RequestIDTooOld")
				default:
					honest(rq)
				}
			}
		case "delay-reorder":
			// honest content, delivered late and out of order; some requests time out
			h := vkit.Hash64(fmt.Sprint(k, x.sc.Cfg.G))
			if h%10 == 0 {
				time.Sleep(600 * time.Millisecond)
				x.noteReply(true)
				return nil, fmt.Errorf("Post \"https://limiter/apis/proxy.kubegateway.io/v1alpha1/ratelimitconditions/%s/acquire\": context deadline exceeded", clusterName)
			}
			time.Sleep(time.Duration(h%250) * time.Millisecond)
			for _, rq := range req.Spec.Requests {
				honest(rq)
			}
		case "outage-rate":
			// plenty of tokens, then (switched by the scenario driver) errors only
			for _, rq := range req.Spec.Requests {
				if x.outage() {
					add(rq, false, 0, "rate limiter is shutting down")
					isErr = true
				} else {
					add(rq, true, 10000, "")
				}
			}
		}
		x.noteReply(isErr)
		return out, nil
	}
}

func (x *rtRun) outage() bool { return atomic.LoadInt32(&x.outageOn) != 0 }

// reportPanics: a TryAcquire that panics under load does not admit the request, so by the property's statement it is
// neither an excess nor a missing limit; such panics are schedule dependent (on this tree: Load() can return the remote
// wrapper between EnableRemoteFlowControl() and its first Sync(), when its embedded limiter is still nil) and are
// written to the evidence, not judged.
func (x *rtRun) reportPanics(r *vkit.R) {
	if n := atomic.LoadInt64(&x.panics); n > 0 {
		msg, _ := x.panicMsg.Load().(string)
		r.Count("rt_admission_panics_not_judged", int(n))
		r.Set("rt_admission_panic_example", fmt.Sprintf("%s/%s: %s", x.sc.Cfg.Type, x.sc.Class, msg))
	}
}

// ---- workers ----

// runInflightWorkers drives a max-in-flight limiter with more workers than the global limit and keeps the shadow counter.
func (x *rtRun) runInflightWorkers(stop <-chan struct{}, n int, g *vkit.Rand) *sync.WaitGroup {
	var wg sync.WaitGroup
	localFC := x.gw.local // the object Load() returns while the remote limiter is not in effect
	for w := 0; w < n; w++ {
		wg.Add(1)
		rng := g.Sub(w)
		go func() {
			defer wg.Done()
			for {
				select {
				case <-stop:
					return
				default:
				}
				hold := time.Duration(500+rng.Intn(3000)) * time.Microsecond
				p := vkit.Safely(func() {
					fc := x.gw.fc()
					isLocal := fc == localFC
					atomic.AddInt64(&x.attempts, 1)
					if fc.TryAcquire() {
						atomic.AddInt64(&x.admissions, 1)
						x.shMu.Lock()
						if isLocal {
							x.nLocal++
						} else {
							x.nRemote++
						}
						x.noteShadowLocked()
						x.shMu.Unlock()
						time.Sleep(hold)
						x.shMu.Lock()
						if isLocal {
							x.nLocal--
						} else {
							x.nRemote--
						}
						x.shMu.Unlock()
						fc.Release()
					} else {
						time.Sleep(300 * time.Microsecond)
					}
				})
				if p != nil {
					// judged by the property: a request that panics is not admitted (see panic note in realtimePhase)
					atomic.AddInt64(&x.panics, 1)
					x.panicMsg.Store(fmt.Sprint(p))
					time.Sleep(time.Millisecond)
				}
			}
		}()
	}
	return &wg
}

// noteShadowLocked classifies the current in-flight totals (called under shMu right after an increment).
// total > global with requests of BOTH limiter objects in flight, each object within its own limit, is the carry-over
// across a local<->remote switch (two independent semaphores); any other total > global means one semaphore alone admitted
// more than its limit and keeps the exceeds-global signatures.
func (x *rtRun) noteShadowLocked() {
	tot := x.nLocal + x.nRemote
	if tot > x.maxShadow {
		x.maxShadow = tot
	}
	cfg := x.sc.Cfg
	if tot <= cfg.G {
		return
	}
	if x.nLocal > 0 && x.nRemote > 0 && x.nLocal <= cfg.L && x.nRemote <= cfg.G {
		if tot > x.carryMax {
			x.carryMax, x.carryLocal, x.carryRemote, x.carryAt = tot, x.nLocal, x.nRemote, bed.Now()
		}
		return
	}
	if tot > x.otherMax {
		x.otherMax = tot
	}
	if x.overAt == 0 {
		x.overAt = bed.Now()
		x.overReply = atomic.LoadInt64(&x.k)
	}
}

// inflightWorkers: enough workers to see global+local+1 requests at once.
func (x *rtRun) inflightWorkers() int { return int(x.sc.Cfg.G+x.sc.Cfg.L) + 6 }

const (
	sigCarryCount    = "C09/count-maxinflight/inflight-above-global/carryover-across-local-remote-switch"
	sigCarryAllocate = "C09/allocate-maxinflight/inflight-above-global/carryover-across-local-remote-switch"
)

func (x *rtRun) reportCarryover(r *vkit.R, sig, how string, witness interface{}) {
	if x.carryMax <= x.sc.Cfg.G {
		return
	}
	r.Count("rt_carryover_above_global_observed", 1)
	r.Violation(sig,
		fmt.Sprintf("max-in-flight schema local=%d global=%d, %s: %d requests were in flight at once %.3fs into the run = %d admitted by the local limiter object + %d admitted by the remote one (each within its own limit; the two objects are independent semaphores, requests admitted by one stay in flight while Load() hands out the other)",
			x.sc.Cfg.L, x.sc.Cfg.G, how, x.carryMax, float64(x.carryAt-x.start)/1e9, x.carryLocal, x.carryRemote), witness)
}

func (x *rtRun) runBucketWorkers(stop <-chan struct{}, n int, g *vkit.Rand) *sync.WaitGroup {
	var wg sync.WaitGroup
	for w := 0; w < n; w++ {
		wg.Add(1)
		rng := g.Sub(w)
		go func() {
			defer wg.Done()
			var local [][2]int64
			defer func() {
				x.admMu.Lock()
				x.adm = append(x.adm, local...)
				x.admMu.Unlock()
			}()
			for len(local) < 40000 {
				select {
				case <-stop:
					return
				default:
				}
				p := vkit.Safely(func() {
					fc := x.gw.fc()
					atomic.AddInt64(&x.attempts, 1)
					t0 := bed.Now()
					if fc.TryAcquire() {
						t1 := bed.Now()
						atomic.AddInt64(&x.admissions, 1)
						local = append(local, [2]int64{t0, t1})
						fc.Release()
					}
				})
				if p != nil {
					atomic.AddInt64(&x.panics, 1)
					x.panicMsg.Store(fmt.Sprint(p))
				}
				time.Sleep(time.Duration(100+rng.Intn(300)) * time.Microsecond)
			}
		}()
	}
	return &wg
}

// windowExcess checks the admissions (call/return pairs, any order, several goroutines) against a token bucket (qps,
// burst) after time `from`: returns the worst window [a,b], a lower bound of the admissions inside it and the allowance.
// #admissions inside [a,b] >= #{return <= b} - #{call < a}, so the verdict is one-sided.
func windowExcess(adm [][2]int64, from int64, qps, burst float64) (bad bool, n int, a, b int64) {
	var calls, rets []int64
	for _, p := range adm {
		if p[0] >= from {
			calls = append(calls, p[0])
			rets = append(rets, p[1])
		}
	}
	sort.Slice(calls, func(i, j int) bool { return calls[i] < calls[j] })
	sort.Slice(rets, func(i, j int) bool { return rets[i] < rets[j] })
	best, bestI := math.Inf(-1), 0
	ic := 0
	worst := 0.0
	for jr, tb := range rets {
		for ic < len(calls) && calls[ic] <= tb {
			if v := qps*float64(calls[ic])/1e9 - float64(ic); v > best {
				best, bestI = v, ic
			}
			ic++
		}
		if math.IsInf(best, -1) {
			continue
		}
		excess := float64(jr+1) - qps*float64(tb)/1e9 + best - (burst + 1)
		if excess > worst {
			worst = excess
			bad, n, a, b = true, jr+1-bestI, calls[bestI], tb
		}
	}
	return
}

func rtScenarios(r *vkit.R, g *vkit.Rand) []rtScenario {
	var out []rtScenario
	reps := r.N(1, 16)
	count := string(proxyv1alpha1.GlobalCountLimit)
	for rep := 0; rep < reps; rep++ {
		mi := func(class string, ms int) {
			G := int32(g.Range(4, 14))
			out = append(out, rtScenario{Cfg: schemaCfg{Strategy: count, Type: "maxinflight", G: G, L: int32(g.Range(1, int(G)))}, Class: class, MS: ms})
		}
		tb := func(class string, ms int, wide bool) {
			G := int32(g.Range(40, 160))
			c := schemaCfg{Strategy: count, Type: "tokenbucket", G: G, L: int32(g.Range(10, int(G)))}
			if wide {
				c.GB = int32(g.Range(2*int(G), 3*int(G)))
			} else {
				c.GB = int32(g.Range(5, int(G)))
			}
			c.LB = int32(g.Range(1, int(c.GB)))
			out = append(out, rtScenario{Cfg: c, Class: class, MS: ms})
		}
		for i := 0; i < 3; i++ {
			mi("honest", 3000)
		}
		for i := 0; i < 2; i++ {
			mi("accept-hostile", 3000)
			mi("reject-above-global", 3000)
			mi("reject-negative", 3000)
			mi("flap", 3000)
			mi("omit-tooold", 3000)
			mi("delay-reorder", 3000)
			mi("ready-flap", 3000)
		}
		mi("unknown-outage", 6500)
		for i := 0; i < 3; i++ {
			tb("honest", 3000, i%2 == 0)
		}
		for i := 0; i < 2; i++ {
			tb("accept-hostile", 3000, i%2 == 0)
			tb("flap", 3000, true)
			tb("omit-tooold", 3000, i%2 == 0)
			tb("delay-reorder", 3000, i%2 == 0)
			tb("ready-flap", 3000, i%2 == 0)
		}
		tb("unknown-outage", 6500, true)
		// measured-rate scenario: small qps, big burst, so that one burst lifts the 3 s average far above the global qps
		for i := 0; i < 2; i++ {
			G := int32(g.Range(10, 30))
			out = append(out, rtScenario{Cfg: schemaCfg{Strategy: count, Type: "tokenbucket", G: G, L: int32(g.Range(2, int(G)/2)), GB: G * int32(g.Range(8, 12)), LB: int32(g.Range(1, 5))}, Class: "outage-rate", MS: 6000})
		}
	}
	return out
}

func realtimePhase(r *vkit.R, g *vkit.Rand) {
	scs := rtScenarios(r, g)
	alloc := allocRTScenarios(r, g)
	r.Set("rt_count_limiters", len(scs))
	r.Set("rt_allocate_limiters", len(alloc))
	// batches of at most 48 limiters in parallel
	var wg sync.WaitGroup
	sem := make(chan struct{}, 48)
	for i := range scs {
		sc := scs[i]
		rng := g.Sub(i)
		wg.Add(1)
		sem <- struct{}{}
		go func() {
			defer wg.Done()
			defer func() { <-sem }()
			runRTCount(r, sc, rng)
		}()
	}
	for i := range alloc {
		sc := alloc[i]
		rng := g.Sub(1000 + i)
		wg.Add(1)
		sem <- struct{}{}
		go func() {
			defer wg.Done()
			defer func() { <-sem }()
			runRTAllocate(r, sc, rng)
		}()
	}
	wg.Wait()
}

func runRTCount(r *vkit.R, sc rtScenario, g *vkit.Rand) {
	cfg := sc.Cfg
	pool := 1
	if sc.Class == "delay-reorder" {
		pool = 4
	}
	gw := newGateway(cfg, "gw-rt", pool)
	defer gw.close()
	x := &rtRun{sc: sc, gw: gw}
	gw.cs.setReady(true)
	gw.cs.setAllocate(func(req *proxyv1alpha1.RateLimitCondition) (*proxyv1alpha1.RateLimitCondition, error) {
		return allocReply(req), nil
	})
	x.start = bed.Now()
	gw.cs.setAcquire(x.acquireFn())
	if p := vkit.Safely(func() { gw.reconcileOnce() }); p != nil {
		r.Violation(fmt.Sprintf("C09/count-%s/panic/reconcile", cfg.Type), fmt.Sprintf("reconcile panicked: %v", p), sc)
		return
	}
	cache := gw.lim.AllFlowControls()[schemaName]
	if cache == nil || cache.FlowControl() == nil {
		r.Inconclusive("count-strategy wrapper was not created by the reconcile round")
		return
	}
	r.Distinct(vkit.Hash64(fmt.Sprintf("rt|%+v", sc)))
	r.Eval(1)
	isTB := cfg.Type == "tokenbucket"
	stop := make(chan struct{})
	var wg *sync.WaitGroup
	if isTB {
		wg = x.runBucketWorkers(stop, 3, g)
	} else {
		wg = x.runInflightWorkers(stop, x.inflightWorkers(), g)
	}

	// scenario driver: readiness flaps, server unknown, outage switch
	var errModeFrom int64
	var rateAtOutage float64
	dur := time.Duration(sc.MS) * time.Millisecond
	switch sc.Class {
	case "ready-flap":
		for x.elapsed() < dur {
			time.Sleep(time.Duration(150+g.Intn(250)) * time.Millisecond)
			gw.cs.setReady(g.Chance(0.5))
			gw.cs.setUnknown(g.Chance(0.2))
		}
	case "unknown-outage":
		time.Sleep(500 * time.Millisecond)
		gw.cs.setUnknown(true) // no reply reaches the gateway: after >4 s the counter's reset check declares a timeout
		time.Sleep(5300 * time.Millisecond)
		gw.cs.setUnknown(false)
		time.Sleep(dur - x.elapsed())
	case "outage-rate":
		time.Sleep(2200 * time.Millisecond)
		atomic.StoreInt32(&x.outageOn, 1)
		time.Sleep(300 * time.Millisecond) // answers still on their way are applied long before the injection below
		// the same error the worker is now receiving, applied synchronously so that the start of the outage is known
		res := &proxyv1alpha1.RateLimitAcquireResult{FlowControl: schemaName, Error: "rate limiter is shutting down"}
		vkit.Safely(func() {
			cache.FlowControl().SetLimit(remote.VerifNewAcquireResult(&proxyv1alpha1.RateLimitAcquireRequest{FlowControl: schemaName}, res, time.Now().UnixNano()))
		})
		errModeFrom = bed.Now()
		rateAtOutage = cache.Rate()
		time.Sleep(dur - x.elapsed())
	default:
		time.Sleep(dur)
	}
	close(stop)
	wg.Wait()

	r.Count("rt_acquire_replies", int(atomic.LoadInt64(&x.k)))
	r.Count("rt_admissions", int(x.admissions))
	r.Count("rt_attempts", int(x.attempts))
	r.Count("rt_limiters_"+cfg.Type+"_"+sc.Class, 1)
	x.reportPanics(r)
	classSig := map[string]string{"reject-above-global": "reject/limit-above-global", "reject-negative": "reject/limit-negative"}
	if !isTB {
		if x.otherMax > cfg.G {
			cs, ok := classSig[sc.Class]
			if !ok {
				cs = "rt-" + sc.Class
			}
			r.Violation("C09/count-maxinflight/exceeds-global/"+cs,
				fmt.Sprintf("max-in-flight schema local=%d global=%d, count strategy, real worker, scenario %q: %d requests were in flight at once %.3fs into the run (%d server replies so far), not explained by a local<->remote switch (one limiter object alone is over its limit)",
					cfg.L, cfg.G, sc.Class, x.otherMax, float64(x.overAt-x.start)/1e9, x.overReply), sc)
		}
		x.reportCarryover(r, sigCarryCount, fmt.Sprintf("count strategy, real worker, scenario %q", sc.Class), sc)
		if int(x.maxShadow) >= int(cfg.L) {
			r.Count("rt_mi_reached_local", 1)
		}
		return
	}

	qps, burst := float64(cfg.G), float64(cfg.GB)
	if sc.Class == "ready-flap" || sc.Class == "unknown-outage" {
		// the local and the remote bucket both hold tokens (two buckets by design): sound widened bound
		qps, burst = qps+float64(cfg.L), burst+float64(cfg.LB)
	}
	if sc.Class == "outage-rate" {
		after := 0
		for _, p := range x.adm {
			if p[0] >= errModeFrom {
				after++
			}
		}
		r.Count("rt_outage_rate_admissions_in_error_mode", after)
		r.Set(fmt.Sprintf("rt_outage_rate_case_global_%d_%d", cfg.G, cfg.GB), map[string]interface{}{"measuredRateAtOutage": rateAtOutage, "admittedInErrorMode": after,
			"errorModeSeconds": float64(bed.Now()-errModeFrom) / 1e9, "allowedByGlobalBucket": burst + qps*float64(bed.Now()-errModeFrom)/1e9})
		if bad, n, a, b := windowExcess(x.adm, errModeFrom, qps, burst); bad {
			r.Violation("C09/count-tokenbucket/exceeds-global/after-error/rate",
				fmt.Sprintf("token-bucket schema local=(%d qps, burst %d) global=(%d qps, burst %d), count strategy, real worker: the server granted every request for 2.5 s and has answered only errors since; in error mode the gateway admitted %d requests within %.3fs, the global bucket allows at most %.1f (the meter's 3 s average at the start of the outage: %.0f/s)",
					cfg.L, cfg.LB, cfg.G, cfg.GB, n, float64(b-a)/1e9, burst+qps*float64(b-a)/1e9, rateAtOutage), sc)
		}
		return
	}
	if bad, n, a, b := windowExcess(x.adm, 0, qps, burst); bad {
		x.mu.Lock()
		ntr := 0
		for i := 1; i < len(x.replies); i++ {
			if x.replies[i].err != x.replies[i-1].err && x.replies[i].at >= a-int64(5*time.Millisecond) && x.replies[i].at <= b {
				ntr++
			}
		}
		x.mu.Unlock()
		// scenario classes whose fault sequence contains error<->available transitions by construction (alternating
		// replies, timeouts between good replies, an outage long enough for the counter's reset check plus the recovery)
		sig := "C09/count-tokenbucket/flap-refill"
		if sc.Class != "flap" && sc.Class != "delay-reorder" && sc.Class != "unknown-outage" {
			sig = "C09/count-tokenbucket/exceeds-global/rt-" + sc.Class
		}
		r.Violation(sig,
			fmt.Sprintf("token-bucket schema local=(%d qps, burst %d) global=(%d qps, burst %d), count strategy, real worker, scenario %q: %d requests admitted within %.3fs while the server's replies changed between error and non-error %d times in that window; the bucket bound allows at most %.1f",
				cfg.L, cfg.LB, cfg.G, cfg.GB, sc.Class, n, float64(b-a)/1e9, ntr, burst+qps*float64(b-a)/1e9), sc)
	}
}

// ---- allocate strategy with the real ticker ----

type allocRT struct {
	Cfg     schemaCfg   `json:"schema"`
	Class   string      `json:"class"`
	Replies []allocStep `json:"replies"` // reply k of the server (the last one repeats)
}

func allocRTScenarios(r *vkit.R, g *vkit.Rand) []allocRT {
	var out []allocRT
	al := string(proxyv1alpha1.GlobalAllocateLimit)
	for rep := 0; rep < r.N(1, 8); rep++ {
		G := int32(g.Range(6, 14))
		L := int32(g.Range(1, int(G)-2))
		q0, q2 := int32(g.Range(1, int(G))), int32(g.Range(1, int(G)))
		out = append(out,
			allocRT{Cfg: schemaCfg{Strategy: al, Type: "maxinflight", L: L, G: G}, Class: "hostile", Replies: []allocStep{{Kind: "grant", Q: G + 1}, {Kind: "grant", Q: -5}, {Kind: "grant", Q: q2}}},
			allocRT{Cfg: schemaCfg{Strategy: al, Type: "maxinflight", L: L, G: G}, Class: "outage", Replies: []allocStep{{Kind: "grant", Q: q0}, {Kind: "error"}, {Kind: "grant", Q: q2}}},
			allocRT{Cfg: schemaCfg{Strategy: al, Type: "maxinflight", L: L, G: G}, Class: "omitted-then-grant", Replies: []allocStep{{Kind: "omit"}, {Kind: "grant", Q: q0}, {Kind: "grant", Q: G}}},
		)
		GQ := int32(g.Range(40, 120))
		GB := int32(g.Range(10, 40))
		c := schemaCfg{Strategy: al, Type: "tokenbucket", L: int32(g.Range(10, int(GQ))), LB: int32(g.Range(1, int(GB))), G: GQ, GB: GB}
		q, b := int32(g.Range(10, int(GQ))), int32(g.Range(1, int(GB)))
		out = append(out,
			allocRT{Cfg: c, Class: "outage", Replies: []allocStep{{Kind: "grant", Q: q, B: b}, {Kind: "error"}, {Kind: "grant", Q: q, B: b}}},
			allocRT{Cfg: c, Class: "hostile", Replies: []allocStep{{Kind: "grant", Q: q, B: math.MaxInt32}, {Kind: "grant", Q: -1, B: b}, {Kind: "grant", Q: q, B: b}}},
		)
	}
	return out
}

func runRTAllocate(r *vkit.R, sc allocRT, g *vkit.Rand) {
	cfg := sc.Cfg
	gw := newGateway(cfg, "gw-rt", 1)
	defer gw.close()
	x := &rtRun{sc: rtScenario{Cfg: cfg, Class: "allocate-" + sc.Class}, gw: gw}
	x.start = bed.Now()
	gw.cs.setAllocate(func(req *proxyv1alpha1.RateLimitCondition) (*proxyv1alpha1.RateLimitCondition, error) {
		k := int(atomic.AddInt64(&x.k, 1)) - 1
		x.noteReply(false)
		if k >= len(sc.Replies) {
			k = len(sc.Replies) - 1
		}
		st := sc.Replies[k]
		switch st.Kind {
		case "grant":
			return allocReply(req, allocItem(cfg, st.Q, st.B)), nil
		case "omit":
			return allocReply(req), nil
		}
		return nil, fmt.Errorf("upstream %s, shard 0, leader is limiter-1", clusterName)
	})
	r.Distinct(vkit.Hash64(fmt.Sprintf("rt-alloc|%+v", sc)))
	r.Eval(1)
	isTB := cfg.Type == "tokenbucket"
	stop := make(chan struct{})
	var wg *sync.WaitGroup
	if isTB {
		wg = x.runBucketWorkers(stop, 2, g)
	} else {
		wg = x.runInflightWorkers(stop, x.inflightWorkers(), g)
	}
	// from here on the limiter's own goroutine does everything: waits for readiness (500 ms poll), then one round trip
	// every 2 s
	gw.cs.setParked(false)
	gw.cs.setReady(true)
	want := int64(len(sc.Replies))
	ok := vkit.WaitFor(30*time.Second, func() bool { time.Sleep(20 * time.Millisecond); return atomic.LoadInt64(&x.k) >= want })
	time.Sleep(400 * time.Millisecond)
	close(stop)
	wg.Wait()
	r.Count("rt_allocate_replies", int(atomic.LoadInt64(&x.k)))
	r.Count("rt_admissions", int(x.admissions))
	r.Count("rt_limiters_allocate_"+cfg.Type+"_"+sc.Class, 1)
	if !ok {
		r.Inconclusive(fmt.Sprintf("the limiter's reconcile ticker made only %d round trips in 30 s", atomic.LoadInt64(&x.k)))
		return
	}
	x.reportPanics(r)
	last := sc.Replies[len(sc.Replies)-1]
	if !isTB {
		x.reportCarryover(r, sigCarryAllocate, "allocate strategy, real 2 s ticker (the workers start under the local limiter, before the first answer)", sc)
		if x.otherMax > cfg.G {
			k := int(x.overReply) - 1
			if k < 0 {
				k = 0
			}
			if k >= len(sc.Replies) {
				k = len(sc.Replies) - 1
			}
			// the grant in effect when the excess was first seen
			for k > 0 && sc.Replies[k].Kind != "grant" {
				k--
			}
			pos := "later-answer"
			first := 0
			for first < len(sc.Replies) && sc.Replies[first].Kind != "grant" {
				first++
			}
			if k == first {
				pos = "first-answer"
			}
			r.Violation(fmt.Sprintf("C09/allocate-maxinflight/exceeds-global/%s/%s", pos, grantClass(cfg, sc.Replies[k].Q, sc.Replies[k].B)),
				fmt.Sprintf("max-in-flight schema local=%d global=%d, allocate strategy, real 2 s ticker: %d requests in flight at once after server reply #%d (quota %d), not explained by a local<->remote switch (one limiter object alone is over its limit)", cfg.L, cfg.G, x.otherMax, k, sc.Replies[k].Q), sc)
			return
		}
		// quiescent probe: the last (repeating) grant must be in effect
		if last.Kind == "grant" && last.Q >= 1 && last.Q <= cfg.G {
			E := -1
			vkit.Safely(func() { E = probeInflight(gw, int(cfg.G)+5) })
			r.Count("rt_allocate_recovery_checks", 1)
			if E != int(last.Q) {
				r.Violation("C09/allocate-maxinflight/quota-not-applied/real-ticker",
					fmt.Sprintf("max-in-flight schema local=%d global=%d, allocate strategy, real ticker: the server's last replies grant %d but the effective limit at quiescence is %d", cfg.L, cfg.G, last.Q, E), sc)
			}
		}
		return
	}
	// token bucket: the local bucket (before the first answer) and the remote one both hold tokens: widened bound
	qps, burst := float64(cfg.G+cfg.L), float64(cfg.GB+cfg.LB)
	if bad, n, a, b := windowExcess(x.adm, 0, qps, burst); bad {
		// which reply was in effect: the last one served before the window's end
		// attribution: the first out-of-range grant that was in effect at some point of the worst window [a,b] (reply k is
		// in effect from the moment it was served until reply k+1 was served), else the last grant served before b
		x.mu.Lock()
		k, found := 0, false
		for i, rp := range x.replies {
			if i >= len(sc.Replies) || rp.at > b {
				break
			}
			end := int64(math.MaxInt64)
			if i+1 < len(x.replies) {
				end = x.replies[i+1].at
			}
			if sc.Replies[i].Kind != "grant" || end < a {
				continue
			}
			if !found {
				k = i
			}
			if c := grantClass(cfg, sc.Replies[i].Q, sc.Replies[i].B); c != "quota-in-range" {
				k, found = i, true
				break
			}
			k = i
		}
		x.mu.Unlock()
		first := 0
		for first < len(sc.Replies)-1 && sc.Replies[first].Kind != "grant" {
			first++
		}
		pos := "later-answer"
		if k <= first {
			pos = "first-answer"
		}
		cls := grantClass(cfg, sc.Replies[k].Q, sc.Replies[k].B)
		r.Violation(fmt.Sprintf("C09/allocate-tokenbucket/exceeds-global/%s/%s", pos, cls),
			fmt.Sprintf("token-bucket schema local=(%d,%d) global=(%d,%d), allocate strategy, real 2 s ticker, replies %+v: %d requests admitted within %.3fs; local and global bucket together allow at most %.1f",
				cfg.L, cfg.LB, cfg.G, cfg.GB, sc.Replies, n, float64(b-a)/1e9, burst+qps*float64(b-a)/1e9), sc)
	}
}
