// Package c02: identity propagation. model.go is the independent reading of the statement and of the Kubernetes
// impersonation rules it refers to (https://kubernetes.io/docs/reference/access-authn-authz/authentication/#user-impersonation);
// nothing here is derived from pkg/gateway/endpoints/filters/impersonation.go.
package c02

import (
	"net/url"
	"regexp"
	"sort"
	"strings"
)

// Identity is a user as an API server understands it.
type Identity struct {
	Name   string              `json:"name"`
	Groups []string            `json:"groups"`
	Extra  map[string][]string `json:"extra,omitempty"`
}

// ExtraHeader is one client-sent Impersonate-Extra-<suffix> header (suffix exactly as on the wire).
type ExtraHeader struct {
	Suffix string `json:"suffix"`
	Value  string `json:"value"`
}

// Asked is what the client sent of the impersonation family, after HTTP field parsing (values trimmed of blanks).
type Asked struct {
	Users  []string      `json:"users"`  // every Impersonate-User value, in order
	Groups []string      `json:"groups"` // every Impersonate-Group value, in order
	Extras []ExtraHeader `json:"extras"`
}

// Attr is one thing the authorizer must allow: verb impersonate on resource[/subresource] name (namespace for service accounts).
type Attr struct {
	Resource    string `json:"resource"`
	Namespace   string `json:"namespace,omitempty"`
	Subresource string `json:"subresource,omitempty"`
	Name        string `json:"name"`
}

func asciiLower(s string) string {
	b := []byte(s)
	for i, c := range b {
		if c >= 'A' && c <= 'Z' {
			b[i] = c + 32
		}
	}
	return string(b)
}

// extraKey is the attribute key an Impersonate-Extra-<suffix> header names: percent-decoded (kept verbatim when the
// escaping is malformed), compared ASCII-case-insensitively because HTTP field names are case-insensitive.
func extraKey(suffix string) string {
	k, err := url.PathUnescape(suffix)
	if err != nil {
		k = suffix
	}
	return asciiLower(k)
}

var (
	dnsLabel     = regexp.MustCompile(`^[a-z0-9]([-a-z0-9]*[a-z0-9])?$`)
	dnsSubdomain = regexp.MustCompile(`^[a-z0-9]([-a-z0-9]*[a-z0-9])?(\.[a-z0-9]([-a-z0-9]*[a-z0-9])?)*$`)
)

// serviceAccount reports whether name is system:serviceaccount:<namespace>:<name> with a valid namespace and name.
func serviceAccount(name string) (ns, sa string, ok bool) {
	const p = "system:serviceaccount:"
	if !strings.HasPrefix(name, p) {
		return "", "", false
	}
	parts := strings.Split(name[len(p):], ":")
	if len(parts) != 2 {
		return "", "", false
	}
	ns, sa = parts[0], parts[1]
	if len(ns) == 0 || len(ns) > 63 || !dnsLabel.MatchString(ns) {
		return "", "", false
	}
	if len(sa) == 0 || len(sa) > 253 || !dnsSubdomain.MatchString(sa) {
		return "", "", false
	}
	return ns, sa, true
}

// Shape classifies what was asked.
type Shape int

const (
	ShapeNone      Shape = iota // no impersonation asked: no user value (or only empty ones) and no groups/extras
	ShapeSingle                 // exactly one non-empty Impersonate-User value
	ShapeMalformed              // groups / extras without any non-empty user
	ShapeAmbiguous              // several Impersonate-User values (the statement does not say which one counts)
)

func (a *Asked) nonEmptyUsers() []string {
	var out []string
	for _, u := range a.Users {
		if u != "" {
			out = append(out, u)
		}
	}
	return out
}

func (a *Asked) Shape() Shape {
	ne := a.nonEmptyUsers()
	switch {
	case len(ne) == 0 && len(a.Groups) == 0 && len(a.Extras) == 0:
		return ShapeNone
	case len(ne) == 0:
		return ShapeMalformed
	case len(a.Users) == 1:
		return ShapeSingle
	}
	return ShapeAmbiguous
}

// AttrsFor lists every attribute that impersonating user u with the asked groups and extras needs.
func (a *Asked) AttrsFor(u string) []Attr {
	var out []Attr
	if ns, sa, ok := serviceAccount(u); ok {
		out = append(out, Attr{Resource: "serviceaccounts", Namespace: ns, Name: sa})
	} else {
		out = append(out, Attr{Resource: "users", Name: u})
	}
	for _, g := range a.Groups {
		out = append(out, Attr{Resource: "groups", Name: g})
	}
	for _, e := range a.Extras {
		out = append(out, Attr{Resource: "userextras", Subresource: extraKey(e.Suffix), Name: e.Value})
	}
	return out
}

// IdentityFor is the identity the upstream must be told when impersonating u was allowed.
func (a *Asked) IdentityFor(u string) Identity {
	id := Identity{Name: u, Extra: map[string][]string{}}
	if len(a.Groups) > 0 {
		id.Groups = append(id.Groups, a.Groups...)
	} else if ns, _, ok := serviceAccount(u); ok {
		id.Groups = []string{"system:serviceaccounts", "system:serviceaccounts:" + ns}
	}
	has := func(g string) bool {
		for _, x := range id.Groups {
			if x == g {
				return true
			}
		}
		return false
	}
	if u != "system:anonymous" {
		if !has("system:authenticated") && !has("system:unauthenticated") {
			id.Groups = append(id.Groups, "system:authenticated")
		}
	} else if !has("system:unauthenticated") {
		id.Groups = append(id.Groups, "system:unauthenticated")
	}
	for _, e := range a.Extras {
		k := extraKey(e.Suffix)
		id.Extra[k] = append(id.Extra[k], e.Value)
	}
	return id
}

// Norm is an identity in comparable form: groups as a sorted multiset, extra keys ASCII-lower-cased with sorted value multisets.
type Norm struct {
	Name   string
	Groups []string
	Extra  map[string][]string
}

func Normalize(id Identity) Norm {
	n := Norm{Name: id.Name, Groups: append([]string(nil), id.Groups...), Extra: map[string][]string{}}
	sort.Strings(n.Groups)
	for k, vs := range id.Extra {
		if len(vs) == 0 {
			continue
		}
		lk := asciiLower(k)
		n.Extra[lk] = append(n.Extra[lk], vs...)
	}
	for k := range n.Extra {
		sort.Strings(n.Extra[k])
	}
	return n
}

func eqStrings(a, b []string) bool {
	if len(a) != len(b) {
		return false
	}
	for i := range a {
		if a[i] != b[i] {
			return false
		}
	}
	return true
}

// Diff names the first part in which two identities differ ("" = equal).
func (n Norm) Diff(o Norm) string {
	if n.Name != o.Name {
		return "user"
	}
	if !eqStrings(n.Groups, o.Groups) {
		return "groups"
	}
	if len(n.Extra) != len(o.Extra) {
		return "extra"
	}
	for k, v := range n.Extra {
		if !eqStrings(v, o.Extra[k]) {
			return "extra"
		}
	}
	return ""
}
