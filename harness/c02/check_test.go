package c02

import (
	"context"
	"encoding/json"
	"fmt"
	"net/http"
	"os"
	"sort"
	"strings"
	"sync"
	"testing"
	"time"

	"k8s.io/apiserver/pkg/authentication/authenticator"
	"k8s.io/apiserver/pkg/authentication/user"
	"k8s.io/apiserver/pkg/authorization/authorizer"
	apirequest "k8s.io/apiserver/pkg/endpoints/request"

	"verifharness/bed"
	"verifharness/vkit"
)

const (
	watchdog = 20 * time.Second
	// certHeader is the harness' second credential channel: it stands for authentication that does not use the
	// Authorization header (x509 client certificates in production), so that a client-sent Authorization header survives
	// the authenticator and only the real WithAuthentication filter can remove it.
	certHeader = "X-Verif-Cert"
)

// ---- test bed: one real gateway, two clusters on raw stubs (+ one TLS/h2 cluster in the thorough tier) ----

type authzCall struct {
	Attr     Attr   `json:"attr"`
	As       string `json:"as"`
	Decision string `json:"decision"`
}

type script struct {
	mu    sync.Mutex
	m     map[Attr]string
	calls []authzCall
}

type target struct {
	host string
	cred string
	url  string
	raw  *bed.RawStub
	h2   *bed.Stub
	// shared: this cluster's only endpoint is the stub of another cluster of the same gateway (different credential)
	shared bool
	// history of the cluster object, written by whoever holds the test bed (under testbed.histMu): number of
	// EndpointInfo.ResetTransport() calls on its endpoint, every credential it was ever configured with (the last one is
	// current), how often it was deleted and re-created under the same name, and the kind of the latest of these events
	resets    int
	creds     []string
	recreated int
	last      string
}

type testbed struct {
	gw      *bed.Gateway
	targets []*target
	cur     *script
	curMu   sync.Mutex
	tokens  sync.Map // token -> *user.DefaultInfo
	authn   sync.Map // request id -> *Identity (what the authenticator returned), absent = not authenticated
	scripts sync.Map // case namespace (RequestInfo.Namespace of the request) -> *script
	histMu  sync.RWMutex
	front   *bed.Front // TLS + HTTP/2 front door of the same handler chain
}

func toIdentity(u user.Info) *Identity {
	id := &Identity{Name: u.GetName(), Groups: append([]string(nil), u.GetGroups()...), Extra: map[string][]string{}}
	for k, v := range u.GetExtra() {
		id.Extra[k] = append([]string(nil), v...)
	}
	return id
}

func (tb *testbed) authenticate(req *http.Request) (*authenticator.Response, bool, error) {
	id := req.Header.Get(bed.IDHeader)
	tok := req.Header.Get(certHeader)
	if tok == "" {
		parts := strings.Split(strings.TrimSpace(req.Header.Get("Authorization")), " ")
		if len(parts) >= 2 && strings.EqualFold(parts[0], "bearer") {
			tok = parts[1]
		}
	}
	if strings.HasPrefix(tok, "errtok-") {
		// the authenticator itself fails (webhook down): not authenticated
		return nil, false, fmt.Errorf("scripted authenticator error")
	}
	if v, ok := tb.tokens.Load(tok); ok && tok != "" {
		u := v.(*user.DefaultInfo)
		tb.authn.Store(id, toIdentity(u))
		return &authenticator.Response{User: u}, true, nil
	}
	return nil, false, nil
}

func (tb *testbed) authorize(ctx context.Context, a authorizer.Attributes) (authorizer.Decision, string, error) {
	// the script of a case is found through the namespace in the request's path (cases may be in flight together); cases
	// on paths without a namespace run one at a time per gateway and use the current script
	var s *script
	if ri, ok := apirequest.RequestInfoFrom(ctx); ok && strings.HasPrefix(ri.Namespace, "c02-") {
		if v, ok := tb.scripts.Load(ri.Namespace); ok {
			s = v.(*script)
		}
	} else {
		tb.curMu.Lock()
		s = tb.cur
		tb.curMu.Unlock()
	}
	if s == nil || a.GetVerb() != "impersonate" {
		return authorizer.DecisionDeny, "no script", nil
	}
	// extra keys are compared ASCII-case-insensitively (model.go: extraKey)
	at := Attr{Resource: a.GetResource(), Namespace: a.GetNamespace(), Subresource: asciiLower(a.GetSubresource()), Name: a.GetName()}
	s.mu.Lock()
	d, ok := s.m[at]
	if !ok {
		d = "deny" // anything the model did not predict is refused
	}
	as := ""
	if a.GetUser() != nil {
		as = a.GetUser().GetName()
	}
	s.calls = append(s.calls, authzCall{Attr: at, As: as, Decision: d})
	s.mu.Unlock()
	switch d {
	case "allow":
		return authorizer.DecisionAllow, "", nil
	case "noopinion":
		return authorizer.DecisionNoOpinion, "no opinion", nil
	case "deny+err":
		return authorizer.DecisionDeny, "denied", fmt.Errorf("scripted authorizer error")
	case "noopinion+err":
		return authorizer.DecisionNoOpinion, "", fmt.Errorf("scripted authorizer error")
	}
	return authorizer.DecisionDeny, "scripted denial", nil
}

func newTestbed(idx int, withH2 bool) (*testbed, error) {
	tb := &testbed{}
	tb.gw = bed.NewGateway(bed.GatewayOptions{
		Authn: authenticator.RequestFunc(tb.authenticate),
		Authz: bed.AuthzFunc(tb.authorize),
	}).Start()
	for k := 0; k < 2; k++ {
		t := &target{host: fmt.Sprintf("c02-%d-%c.test", idx, 'a'+k), cred: fmt.Sprintf("gwcred-%d-%c-7f3a", idx, 'a'+k), raw: bed.NewRawStub(fmt.Sprintf("raw%d%c", idx, 'a'+k))}
		// an upgrade request is answered 403 so that the gateway relays the answer and closes
		tb.targets = append(tb.targets, t)
	}
	// a third cluster whose only endpoint is the first cluster's stub, with a credential of its own
	tb.targets = append(tb.targets, &target{host: fmt.Sprintf("c02-%d-c.test", idx), cred: fmt.Sprintf("gwcred-%d-c-55d1", idx), raw: tb.targets[0].raw, shared: true})
	tb.front = bed.NewH2Front(tb.gw.Handler)
	if withH2 {
		t := &target{host: fmt.Sprintf("c02-%d-h2.test", idx), cred: fmt.Sprintf("gwcred-%d-h2-91bc", idx), h2: bed.NewTLSStub(fmt.Sprintf("h2-%d", idx), true)}
		tb.targets = append(tb.targets, t)
	}
	for _, t := range tb.targets {
		url := ""
		if t.raw != nil {
			url = t.raw.URL
		} else {
			url = t.h2.URL
		}
		t.url = url
		t.creds = []string{t.cred}
		obj := bed.BuildCluster(bed.ClusterSpec{Name: t.host, Servers: []string{url}, Token: t.cred})
		if sr := tb.gw.Apply(obj); sr.Err != nil || sr.Panic != nil || sr.Requeue {
			return tb, fmt.Errorf("controller did not apply cluster %s: %+v", t.host, sr)
		}
		if !tb.gw.WaitAllReady(obj, watchdog) {
			return tb, fmt.Errorf("endpoint of %s did not become ready within the watchdog", t.host)
		}
	}
	return tb, nil
}

func (tb *testbed) close() {
	tb.front.Close()
	if tb.gw != nil {
		tb.gw.Close()
	}
	for _, t := range tb.targets {
		if t.raw != nil {
			t.raw.Close()
		}
		if t.h2 != nil {
			t.h2.Close()
		}
	}
}

// ---- case generation ----

var (
	userPool = []string{"alice", "bob@example.com", "Alice", "system:admin", "kube-gateway", "user with space", "用户-é", "a%2Fb", "x:y:z",
		"system:serviceaccount:ns1:sa1", "system:serviceaccount:kube-system:default", "system:serviceaccount:NS:Bad", "system:serviceaccount:ns1",
		"system:anonymous", "100%", "a,b", "tab\tin", strings.Repeat("u", 300)}
	groupPool = []string{"dev", "system:masters", "system:authenticated", "system:unauthenticated", "Dev Team", "g%41", "组", "a,b", "ops", "system:serviceaccounts",
		strings.Repeat("g", 200), "x:y"}
	// authenticated extra keys: arbitrary bytes (the transport has to escape them)
	extraKeyPool = []string{"scopes", "Scopes", "acme.com/project", "k e y", "ключ", "a%2Fb", "x-y_z", "UPPER", "%zz", "authentication.kubernetes.io/pod-name"}
	// client-sent Impersonate-Extra- suffixes: only field-name token characters can travel in a header name
	extraSuffixPool = []string{"scopes", "Scopes", "acme.com%2fproject", "acme.com%2Fproject", "%41bc", "%zz", "x%20y", "%e9%94%ae", "a%252Fb", "k", ""}
	extraValPool    = []string{"view", "a b", "值", "100%", "edit", "x,y", strings.Repeat("v", 150), ""}
	// identity strings no HTTP field value can carry (control bytes): a gateway can only refuse to forward these
	unsendable  = []string{"ctl\x01user", "new\nline", "cr\rx", "nul\x00"}
	// service-account names at the validation boundaries: namespace = DNS label (<= 63), name = DNS subdomain (<= 253)
	saBoundary = []string{
		"system:serviceaccount:" + strings.Repeat("n", 63) + ":" + strings.Repeat("s", 253),
		"system:serviceaccount:" + strings.Repeat("n", 64) + ":sa",
		"system:serviceaccount:ns1:" + strings.Repeat("s", 254),
		"system:serviceaccount:ns1:a.b-c.d",
		"system:serviceaccount:ns1:-bad",
		"system:serviceaccount:n.s:sa",
		"system:serviceaccount:ns1:sa1:more",
		"system:serviceaccount::sa",
		"system:serviceaccounts:ns1:sa1",
		"System:ServiceAccount:ns1:sa1",
	}
	otherFamily = []string{"Impersonate-Uid", "Impersonate-Uid", "Impersonate-Foo", "Impersonate-Extra", "Impersonate-Userx", "Impersonate-Groups", "Impersonate-", "Impersonate-User-Extra-x"}
)

func wireCase(g *vkit.Rand, name string) string {
	switch g.Intn(5) {
	case 0:
		return name
	case 1:
		return strings.ToLower(name)
	case 2:
		return strings.ToUpper(name)
	}
	b := []byte(name)
	for i, c := range b {
		if g.Bool() {
			if c >= 'a' && c <= 'z' {
				b[i] = c - 32
			} else if c >= 'A' && c <= 'Z' {
				b[i] = c + 32
			}
		}
	}
	return string(b)
}

// Case is one generated exchange (also the replay witness).
type Case struct {
	Idx       int               `json:"idx"`
	Target    int               `json:"target"`
	Path      string            `json:"path"` // proxy | upgrade
	Cred      string            `json:"cred"` // how the client authenticates
	Intended  *Identity         `json:"intendedIdentity,omitempty"`
	Asked     Asked             `json:"asked"`
	Shape     string            `json:"shape"`
	Others    []bed.RawHeader   `json:"otherImpersonateHeaders,omitempty"`
	Script    map[string]string `json:"script"`
	Request   *bed.RawRequest   `json:"request"`
	ClientTok []string          `json:"clientTokens,omitempty"`
	UID       string            `json:"authenticatedUID,omitempty"`
	NS        string            `json:"caseNamespace,omitempty"` // namespace in the request path that carries the case's script
	Via       string            `json:"via"`                     // h1 | h1.0 | h2 | h1-upstream-aborts-first | keepalive | pipelined | concurrent
	script    map[Attr]string
}

func attrKey(a Attr) string {
	return fmt.Sprintf("%s|%s|%s|%s", a.Resource, a.Namespace, a.Subresource, a.Name)
}

func genIdentity(g *vkit.Rand) *user.DefaultInfo {
	u := &user.DefaultInfo{Name: g.Pick(userPool), UID: fmt.Sprintf("uid-%x", g.Uint64()&0xffffff)}
	if g.Chance(0.04) {
		u.Name = g.Pick(unsendable)
	}
	if g.Chance(0.015) {
		u.Name = "" // an authenticator that vouches for a user without a name
	}
	// quantifier audit ("names/groups/extra keys with arbitrary bytes"): values that begin or end with a blank were not
	// generated because no field value can carry them - that is a reason to refuse them, not to leave them out
	if g.Chance(0.01) {
		u.Name = g.Pick([]string{" alice", "alice ", "\tbob", "system:masters "})
	}
	if g.Chance(0.01) {
		u.Groups = append(u.Groups, g.Pick([]string{"system:masters ", " dev", "ops\t"}))
	}
	if g.Chance(0.03) {
		u.Name = g.Pick(saBoundary)
	}
	for i, n := 0, g.PickInt([]int{0, 1, 1, 2, 3}); i < n; i++ {
		u.Groups = append(u.Groups, g.Pick(groupPool))
	}
	if g.Chance(0.02) { // many groups, with duplicates
		for i := 0; i < 40; i++ {
			u.Groups = append(u.Groups, fmt.Sprintf("team-%d", i%35))
		}
	}
	if g.Chance(0.02) {
		u.Groups = append(u.Groups, g.Pick(unsendable))
	}
	if g.Chance(0.45) {
		u.Extra = map[string][]string{}
		for i, n := 0, g.Range(1, 2); i < n; i++ {
			k := g.Pick(extraKeyPool)
			for j, m := 0, g.Range(1, 2); j < m; j++ {
				u.Extra[k] = append(u.Extra[k], g.Pick(extraValPool))
			}
		}
	}
	return u
}

func genCase(tb *testbed, idx int, g *vkit.Rand, together bool) *Case {
	c := &Case{Idx: idx, Target: g.Intn(len(tb.targets)), Path: "proxy", Via: "h1", Script: map[string]string{}, script: map[Attr]string{}}
	id := fmt.Sprintf("c02-%d", idx)
	var hs []bed.RawHeader
	add := func(canonical, value string) {
		if g.Chance(0.1) {
			value = "  " + value + " \t" // optional whitespace around a field value is not part of the value
		}
		hs = append(hs, bed.RawHeader{Name: wireCase(g, canonical), Value: value})
	}

	// --- credential ---
	u := genIdentity(g)
	tok := fmt.Sprintf("ctok-%d-%x", idx, g.Uint64())
	tb.tokens.Store(tok, u)
	other := &user.DefaultInfo{Name: "mallory-" + id, Groups: []string{"system:masters"}}
	otherTok := fmt.Sprintf("ctok-%d-o%x", idx, g.Uint64())
	tb.tokens.Store(otherTok, other)
	scheme := g.Pick([]string{"Bearer", "Bearer", "bearer", "BEARER"})
	c.Intended = toIdentity(u)
	c.UID = u.UID
	switch k := g.Intn(100); {
	case k < 62:
		c.Cred = "bearer"
		add("Authorization", scheme+" "+tok)
		c.ClientTok = []string{tok}
	case k < 72:
		// authenticated outside the Authorization header; the client still sends an Authorization header of its own
		c.Cred = "cert+authorization"
		hs = append(hs, bed.RawHeader{Name: certHeader, Value: tok})
		stolen := fmt.Sprintf("stolen-%d-%x", idx, g.Uint64())
		add("Authorization", g.Pick([]string{"Bearer ", "Basic ", "Negotiate ", ""})+stolen)
		c.ClientTok = []string{stolen}
	case k < 76:
		c.Cred = "cert"
		hs = append(hs, bed.RawHeader{Name: certHeader, Value: tok})
	case k < 82:
		c.Cred = "bearer+second-valid"
		add("Authorization", scheme+" "+tok)
		add("Authorization", "Bearer "+otherTok)
		c.ClientTok = []string{tok, otherTok}
	case k < 86:
		c.Cred = "garbage+valid"
		junk := fmt.Sprintf("junk-%d-%x", idx, g.Uint64())
		add("Authorization", g.Pick([]string{"Basic ", "Bearer ", ""})+junk)
		add("Authorization", "Bearer "+tok)
		c.ClientTok = []string{junk, tok}
	case k < 89:
		c.Cred = "none"
		c.Intended = nil
	case k < 91:
		c.Cred = "authenticator-error"
		et := fmt.Sprintf("errtok-%d-%x", idx, g.Uint64())
		add("Authorization", "Bearer "+et)
		c.ClientTok = []string{et}
		c.Intended = nil
	case k < 95:
		c.Cred = "unknown-token"
		bad := fmt.Sprintf("bad-%d-%x", idx, g.Uint64())
		add("Authorization", "Bearer "+bad)
		c.ClientTok = []string{bad}
		c.Intended = nil
	default:
		c.Cred = "wrong-scheme"
		add("Authorization", g.Pick([]string{"Basic ", "Token ", "Bearer"})+tok)
		c.ClientTok = []string{tok}
		c.Intended = nil
	}

	// --- impersonation family ---
	pickUser := func() string {
		if g.Chance(0.12) {
			return g.Pick(saBoundary)
		}
		return g.Pick(userPool)
	}
	addGroups := func(n int) {
		for i := 0; i < n; i++ {
			v := g.Pick(groupPool)
			if g.Chance(0.05) {
				v = ""
			}
			c.Asked.Groups = append(c.Asked.Groups, v)
		}
	}
	addExtras := func(n int) {
		for i := 0; i < n; i++ {
			c.Asked.Extras = append(c.Asked.Extras, ExtraHeader{Suffix: g.Pick(extraSuffixPool), Value: g.Pick(extraValPool)})
		}
	}
	switch k := g.Intn(100); {
	case k < 30:
	case k < 38:
		c.Asked.Users = []string{pickUser()}
	case k < 50:
		c.Asked.Users = []string{pickUser()}
		addGroups(g.Range(1, 3))
	case k < 57:
		c.Asked.Users = []string{pickUser()}
		addExtras(g.Range(1, 3))
	case k < 69:
		c.Asked.Users = []string{pickUser()}
		addGroups(g.Range(1, 3))
		addExtras(g.Range(1, 3))
	case k < 74:
		c.Asked.Users = []string{g.Pick([]string{"system:serviceaccount:ns1:sa1", "system:serviceaccount:kube-system:default", "system:anonymous"})}
		if g.Chance(0.3) {
			addGroups(1)
		}
	case k < 79: // groups / extras without a user
		if g.Bool() {
			addGroups(g.Range(1, 2))
		}
		if len(c.Asked.Groups) == 0 || g.Bool() {
			addExtras(g.Range(1, 2))
		}
	case k < 84: // empty user value together with groups / extras
		c.Asked.Users = []string{""}
		if g.Bool() {
			addGroups(g.Range(1, 2))
		} else {
			addExtras(1)
		}
	case k < 87: // empty user value alone
		c.Asked.Users = []string{""}
	case k < 94: // two user values
		c.Asked.Users = []string{pickUser(), pickUser()}
		if g.Chance(0.5) {
			addGroups(g.Range(1, 2))
		}
	default: // empty value first, a name second
		c.Asked.Users = []string{"", pickUser()}
		if g.Chance(0.5) {
			addGroups(1)
		}
		if g.Chance(0.3) {
			addExtras(1)
		}
	}
	for _, v := range c.Asked.Users {
		add("Impersonate-User", v)
	}
	for _, v := range c.Asked.Groups {
		add("Impersonate-Group", v)
	}
	for _, e := range c.Asked.Extras {
		// the suffix travels verbatim (its case matters to nobody, its escapes do); only the prefix is re-cased
		n := wireCase(g, "Impersonate-Extra-") + e.Suffix
		v := e.Value
		hs = append(hs, bed.RawHeader{Name: n, Value: v})
	}
	if g.Chance(0.4) {
		for i, n := 0, g.Range(1, 2); i < n; i++ {
			h := bed.RawHeader{Name: wireCase(g, g.Pick(otherFamily)), Value: fmt.Sprintf("evil-%d-%d", idx, i)}
			c.Others = append(c.Others, h)
			hs = append(hs, h)
		}
	}
	switch c.Asked.Shape() {
	case ShapeNone:
		c.Shape = "none"
	case ShapeSingle:
		c.Shape = "single"
	case ShapeMalformed:
		c.Shape = "malformed"
	default:
		c.Shape = "ambiguous"
	}

	// --- authorizer script: one decision per attribute any reading of the request could need ---
	allAllow := g.Chance(0.55)
	for _, uu := range c.Asked.nonEmptyUsers() {
		for _, a := range c.Asked.AttrsFor(uu) {
			if _, ok := c.script[a]; ok {
				continue
			}
			d := "allow"
			if !allAllow && g.Chance(0.35) {
				d = g.Pick([]string{"deny", "deny", "noopinion", "deny+err", "noopinion+err"})
			}
			c.script[a] = d
			c.Script[attrKey(a)] = d
		}
	}

	// --- the request ---
	// the path carries the case's namespace, through which the scripted authorizer finds the case's script
	c.NS = fmt.Sprintf("c02-%d", idx)
	targets := []string{"/api/v1/namespaces/" + c.NS + "/pods", "/api/v1/namespaces/" + c.NS + "/configmaps/cm", "/apis/apps/v1/namespaces/" + c.NS + "/deployments?limit=5",
		"/api/v1/namespaces/" + c.NS + "/pods?watch=true", "/api/v1/namespaces/" + c.NS}
	if !together {
		targets = append(targets, "/version", "/api/v1/nodes/n1", "/apis", "/api/v1", "/apis/apps/v1/deployments?limit=5", "/healthz", "/openapi/v2")
	}
	q := &bed.RawRequest{Method: "GET", Target: g.Pick(targets), Host: tb.targets[c.Target].host}
	if !strings.Contains(q.Target, c.NS) {
		c.NS = ""
	}
	pUpgrade := 0.1
	if c.Intended != nil && !sendable(c.Intended) {
		pUpgrade = 0.5 // the two paths write the identity onto the wire with different code
	}
	if g.Chance(pUpgrade) {
		c.Path = "upgrade"
		c.NS = fmt.Sprintf("c02-%d", idx)
		q.Target = "/api/v1/namespaces/" + c.NS + "/pods/p/exec?command=ls"
		hs = append(hs, bed.RawHeader{Name: wireCase(g, "Connection"), Value: g.Pick([]string{"Upgrade", "upgrade"})}, bed.RawHeader{Name: wireCase(g, "Upgrade"), Value: "SPDY/3.1"})
	} else {
		if g.Chance(0.25) {
			q.Method = g.Pick([]string{"POST", "PUT", "PATCH", "DELETE"})
			q.Body = g.Bytes(g.Range(0, 300))
			hs = append(hs, bed.RawHeader{Name: "Content-Type", Value: "application/json"})
		}
		if g.Chance(0.05) {
			// hostile: name identity-bearing headers as hop-by-hop
			hs = append(hs, bed.RawHeader{Name: "Connection", Value: g.Pick([]string{"Impersonate-User", "Impersonate-Group, Impersonate-User", "Authorization", "Impersonate-User, Authorization, keep-alive"})})
		}
		// how the request travels (unusual but legal clients; an upstream connection that dies once)
		switch k := g.Intn(100); {
		case k < 78:
		case k < 85:
			c.Via = "h1.0"
			q.Proto = "HTTP/1.0"
		case k < 93:
			c.Via = "h2"
		default:
			if q.Method == "GET" && tb.targets[c.Target].raw != nil {
				c.Via = "h1-upstream-aborts-first"
			}
		}
	}
	// random order; the id header is put anywhere too. Same-named fields keep their relative order (it is significant
	// for multi-valued fields): shuffle the slots, then refill the slots of each name in the original order.
	hs = append(hs, bed.RawHeader{Name: bed.IDHeader, Value: id})
	orig := map[string][]bed.RawHeader{}
	for _, h := range hs {
		k := asciiLower(h.Name)
		orig[k] = append(orig[k], h)
	}
	for i := len(hs) - 1; i > 0; i-- {
		j := g.Intn(i + 1)
		hs[i], hs[j] = hs[j], hs[i]
	}
	for i := range hs {
		k := asciiLower(hs[i].Name)
		hs[i] = orig[k][0]
		orig[k] = orig[k][1:]
	}
	q.Headers = hs
	c.Request = q
	return c
}

// ---- what the upstream was told ----

type told struct {
	Users  []string
	Groups []string
	Extra  map[string][]string
	Auth   []string
	Others []bed.RawHeader // Impersonate-* that is none of User / Group / Extra-
	All    []bed.RawHeader
}

func readTold(hs []bed.RawHeader) told {
	t := told{Extra: map[string][]string{}, All: hs}
	for _, h := range hs {
		ln := asciiLower(h.Name)
		switch {
		case ln == "authorization":
			t.Auth = append(t.Auth, h.Value)
		case ln == "impersonate-user":
			t.Users = append(t.Users, h.Value)
		case ln == "impersonate-group":
			t.Groups = append(t.Groups, h.Value)
		case strings.HasPrefix(ln, "impersonate-extra-"):
			k := extraKey(h.Name[len("impersonate-extra-"):])
			t.Extra[k] = append(t.Extra[k], h.Value)
		case strings.HasPrefix(ln, "impersonate-"):
			t.Others = append(t.Others, h)
		}
	}
	return t
}

func headersOfH2(s bed.Seen) []bed.RawHeader {
	var out []bed.RawHeader
	var keys []string
	for k := range s.Header {
		keys = append(keys, k)
	}
	sort.Strings(keys)
	for _, k := range keys {
		for _, v := range s.Header[k] {
			out = append(out, bed.RawHeader{Name: k, Value: v})
		}
	}
	return out
}

// edgeBlank: the string starts or ends with a blank; HTTP strips optional whitespace around a field value, so the
// upstream would be told a different string.
func edgeBlank(s string) bool {
	return s != "" && (s[0] == ' ' || s[0] == '\t' || s[len(s)-1] == ' ' || s[len(s)-1] == '\t')
}

func hasEdgeBlank(id *Identity) bool {
	if edgeBlank(id.Name) {
		return true
	}
	for _, g := range id.Groups {
		if edgeBlank(g) {
			return true
		}
	}
	for _, vs := range id.Extra {
		for _, v := range vs {
			if edgeBlank(v) {
				return true
			}
		}
	}
	return false
}

func sendable(id *Identity) bool {
	if hasEdgeBlank(id) {
		return false
	}
	ok := func(s string) bool {
		for i := 0; i < len(s); i++ {
			if (s[i] < 0x20 && s[i] != '\t') || s[i] == 0x7f {
				return false
			}
		}
		return true
	}
	if !ok(id.Name) {
		return false
	}
	for _, g := range id.Groups {
		if !ok(g) {
			return false
		}
	}
	for _, vs := range id.Extra {
		for _, v := range vs {
			if !ok(v) {
				return false
			}
		}
	}
	return true
}

func otherClass(name string) string {
	if strings.EqualFold(name, "Impersonate-Uid") {
		return "Impersonate-Uid"
	}
	return "Impersonate-other"
}

// ---- the check ----

func TestCheck(t *testing.T) {
	vkit.Run(t, "C02", "exploration", func(r *vkit.R) {
		r.Rule("each case = (authenticated identity over pools of hostile names/groups/extra keys and values incl. UTF-8, %, blanks, 300-byte, control-byte and EMPTY names, 40 groups with duplicates, service-account names at the 63/253 validation boundaries) x " +
			"(credential presentation: bearer / second channel + client Authorization / duplicated Authorization / none / unknown / wrong scheme / failing authenticator) x " +
			"(impersonation family: none, user, +groups, +extras, service account, anonymous, groups/extras without user, empty user value, two user values, empty-then-name) x " +
			"(0-2 other Impersonate-* headers: Uid, Foo, Extra without dash, ...) x random header casing/order/optional blanks x (allow/deny/no-opinion/error per requested attribute) x (proxy | upgrade path) x " +
			"(client: HTTP/1.1 | HTTP/1.0 | HTTP/2 over TLS | two requests of different users on one keep-alive connection | pipelined | 12 at once through one gateway) x (upstream connection dies once, transport retries) x " +
			"(history of the cluster object: endpoint transport rebuilt with ResetTransport(), gateway credential rotated in place, cluster deleted and re-created under its name; a second cluster sharing the same upstream endpoint with another credential). " +
			"Sent byte-exact over a raw socket through the real handler chain; decided on the header lines a raw stub upstream received (every copy, when a request arrives more than once). " +
			"Non-trivial = the request carries any identity-bearing client header beyond one well-formed bearer token, or the identity needs escaping; distinct = hash of the wire request head and script.")
		r.Assume("the authenticator and authorizer are the harness' scripted ones; what the authenticator returned is recorded at that boundary and is 'the identity the gateway authenticated'")
		r.Assume("an allowed impersonation that is forwarded under the authenticated identity is counted (allowed_forwarded_as_self), not judged: the statement permits the authenticated identity unconditionally")
		r.Assume("after a credential rotation every credential the cluster object was ever configured with counts as 'the gateway's own' (which one is in use is hot-reload convergence, C11); stale use is counted")

		n := r.N(30000, 120000)
		workers := 8
		withH2 := !r.Quick()
		pool := make(chan *testbed, workers)
		var beds []*testbed
		defer func() {
			for _, tb := range beds {
				tb.close()
			}
		}()
		for w := 0; w < workers; w++ {
			tb, err := newTestbed(w, withH2)
			beds = append(beds, tb)
			if err != nil {
				r.Inconclusive(err.Error())
				return
			}
			pool <- tb
		}

		only := -1
		if r.ReplayPath != "" {
			var rp struct {
				Witness struct {
					Case struct {
						Idx int `json:"idx"`
					} `json:"case"`
				} `json:"witness"`
			}
			if b, err := os.ReadFile(r.ReplayPath); err == nil && json.Unmarshal(b, &rp) == nil {
				only = rp.Witness.Case.Idx
			}
		}

		// phase 1: one case at a time per gateway
		r.Parallel(n, workers, func(i int, g *vkit.Rand) {
			if only >= 0 && i != only {
				return
			}
			tb := <-pool
			defer func() { pool <- tb }()
			runCase(r, tb, i, g)
		})

		// phase 2: two requests of two different users over ONE client connection (keep-alive reuse or pipelined)
		np := r.N(1500, 8000)
		r.Parallel(np, workers, func(j int, g *vkit.Rand) {
			base := n + 2*j
			if only >= 0 && only != base && only != base+1 {
				return
			}
			tb := <-pool
			defer func() { pool <- tb }()
			runPair(r, tb, base, g)
		})

		// phase 3: barrier-started batches of cases through one gateway at the same moment, some with a transport reset or
		// a re-delivery of the cluster object racing with them
		const batchSize = 12
		nb := r.N(500, 4000)
		r.Parallel(nb, workers, func(b int, g *vkit.Rand) {
			base := n + 2*np + b*batchSize
			if only >= 0 && (only < base || only >= base+batchSize) {
				return
			}
			tb := <-pool
			defer func() { pool <- tb }()
			runBatch(r, tb, base, batchSize, g)
		})

		if only < 0 {
			r.Require(r.Counter("forwarded") >= int64(n/4), "too few requests were forwarded")
			r.Require(r.Counter("forwarded_impersonated") >= int64(n/25), "too few allowed impersonations were forwarded")
			r.Require(r.Counter("not_forwarded_denied") >= int64(n/40), "too few denied impersonations")
			r.Require(r.Counter("not_forwarded_malformed") >= int64(n/60), "too few malformed impersonations")
			r.Require(r.Counter("not_forwarded_unauthenticated") >= int64(n/40), "too few unauthenticated requests")
			r.Require(r.Counter("forwarded_upgrade") >= int64(n/60), "too few upgrade-path requests were forwarded")
			r.Require(r.Counter("authorizer_calls") >= int64(n/4), "the scripted authorizer was hardly consulted")
			r.Require(r.Counter("transport_resets") >= 8 && r.Counter("forwarded_after_transport-reset") >= int64(n/40), "too few requests were relayed through a rebuilt endpoint transport")
			r.Require(r.Counter("credential_rotations") >= 4 && r.Counter("forwarded_after_credential-rotation") >= int64(n/200), "too few requests after a credential rotation")
			r.Require(r.Counter("cluster_recreations") >= 4 && r.Counter("forwarded_after_cluster-recreate") >= int64(n/200), "too few requests after a cluster was deleted and re-created")
			r.Require(r.Counter("forwarded_shared_upstream_cluster") >= int64(n/20), "too few requests through the cluster that shares another cluster's upstream")
			r.Require(r.Counter("forwarded_via_h1.0") >= int64(n/100) && r.Counter("forwarded_via_h2") >= int64(n/100), "too few HTTP/1.0 or HTTP/2 client requests were forwarded")
			r.Require(r.Counter("upstream_copies_judged_beyond_first") >= 5, "no request was seen arriving twice upstream (transport retry after a dead connection)")
			r.Require(r.Counter("forwarded_via_keepalive") >= int64(np/4) && r.Counter("forwarded_via_pipelined") >= int64(np/8), "too few keep-alive / pipelined pairs were forwarded")
			r.Require(r.Counter("forwarded_via_concurrent") >= int64(nb*batchSize/4) && r.Counter("batches_with_racing_config_event") >= int64(nb/10), "the concurrent phase was too thin")
			r.Require(r.Counter("not_forwarded_authenticator_error") >= int64(n/200), "the failing-authenticator path was not exercised")
			r.Require(r.Counter("empty_name_identity_cases") >= int64(n/300) && r.Counter("many_groups_identity_forwarded") >= int64(n/300), "boundary identities were not exercised")
			r.Require(r.Counter("edge_blank_identity_cases") >= int64(n/200), "identities with blank-edged values were not exercised")
			r.Require(r.Counter("sa_boundary_impersonations_forwarded") >= int64(n/300), "service-account boundary names were never impersonated successfully (model and filter may disagree on validity)")
		}
	})
}

// endpointOf returns the live endpoint object of a target.
func endpointOf(r *vkit.R, tb *testbed, tg *target) (ep interface {
	ResetTransport() error
	IsReady() bool
	TriggerHealthCheck()
}, ok bool) {
	ci, ok := tb.gw.Cluster(tg.host)
	if !ok {
		r.Inconclusive("cluster " + tg.host + " is not known to the gateway any more")
		return nil, false
	}
	e, ok := ci.Endpoints.Load(tg.url)
	if !ok {
		r.Inconclusive("endpoint " + tg.url + " is not known to the gateway any more")
		return nil, false
	}
	return e, true
}

// resetTransport does what controllers.GatewayHealthCheck does after three timed-out probes on a hung transport: it asks
// the endpoint to rebuild its proxy transport. Every request relayed afterwards goes through the rebuilt one; the identity
// the upstream is told must not depend on that history. Returns false when the watchdog expired.
func resetTransport(r *vkit.R, tb *testbed, tg *target) bool {
	ep, ok := endpointOf(r, tb, tg)
	if !ok {
		return false
	}
	if err := ep.ResetTransport(); err != nil {
		r.Inconclusive("ResetTransport failed: " + err.Error())
		return false
	}
	tb.histMu.Lock()
	tg.resets++
	tg.last = "transport-reset"
	tb.histMu.Unlock()
	r.Count("transport_resets", 1)
	return waitReadyAgain(r, tb, tg, "a transport reset")
}

// waitReadyAgain: closing a transport may cancel a health probe that happened to be in flight and mark the endpoint
// unhealthy until the next probe: ask for one instead of waiting for the 5 s ticker.
func waitReadyAgain(r *vkit.R, tb *testbed, tg *target, after string) bool {
	ep, ok := endpointOf(r, tb, tg)
	if !ok {
		return false
	}
	if !ep.IsReady() {
		r.Count("reprobe_needed_after_config_event", 1)
		ep.TriggerHealthCheck()
		if !tb.gw.WaitReady(tg.host, tg.url, true, watchdog) {
			r.Inconclusive("endpoint did not become ready again after " + after + " within the watchdog")
			return false
		}
	}
	return true
}

// applyCluster (re-)delivers the cluster object of a target with its current credential.
func applyCluster(r *vkit.R, tb *testbed, tg *target, what string) bool {
	obj := bed.BuildCluster(bed.ClusterSpec{Name: tg.host, Servers: []string{tg.url}, Token: tg.cred})
	if sr := tb.gw.Apply(obj); sr.Err != nil || sr.Panic != nil || sr.Requeue {
		r.Inconclusive(fmt.Sprintf("controller did not apply cluster %s (%s): %+v", tg.host, what, sr))
		return false
	}
	if !tb.gw.WaitAllReady(obj, watchdog) {
		r.Inconclusive("endpoint of " + tg.host + " did not become ready after " + what + " within the watchdog")
		return false
	}
	return true
}

// rotateCredential changes the gateway's own credential of the cluster in place (an update of the object).
func rotateCredential(r *vkit.R, tb *testbed, tg *target, g *vkit.Rand) bool {
	tb.histMu.Lock()
	tg.cred = fmt.Sprintf("%s-r%d-%x", strings.SplitN(tg.creds[0], "-r", 2)[0], len(tg.creds), g.Uint64()&0xffff)
	tg.creds = append(tg.creds, tg.cred)
	tg.last = "credential-rotation"
	tb.histMu.Unlock()
	r.Count("credential_rotations", 1)
	return applyCluster(r, tb, tg, "a credential rotation")
}

// recreateCluster deletes the cluster object and creates it again under the same name (with a new credential).
func recreateCluster(r *vkit.R, tb *testbed, tg *target, g *vkit.Rand) bool {
	if sr := tb.gw.Delete(tg.host); sr.Err != nil || sr.Panic != nil {
		r.Inconclusive(fmt.Sprintf("controller did not delete cluster %s: %+v", tg.host, sr))
		return false
	}
	tb.histMu.Lock()
	tg.cred = fmt.Sprintf("%s-n%d-%x", strings.SplitN(tg.creds[0], "-r", 2)[0], len(tg.creds), g.Uint64()&0xffff)
	// a re-created cluster is a new object: only its own credential is acceptable
	tg.creds = []string{tg.cred}
	tg.recreated++
	tg.last = "cluster-recreate"
	tb.histMu.Unlock()
	r.Count("cluster_recreations", 1)
	return applyCluster(r, tb, tg, "deleting and re-creating the cluster")
}

// historyTarget: clusters 0 (and the TLS+h2 one) live through config events; cluster 1 and the one that shares cluster 0's
// upstream never do (so that a defect that needs the history keeps a signature of its own).
func historyTarget(tg *target, idx int) bool { return idx == 0 || tg.h2 != nil }

// prepCase generates case i, lets the target's cluster live through a config event now and then, and installs the scripts.
func prepCase(r *vkit.R, tb *testbed, i int, g *vkit.Rand, together bool) (*Case, *script, bool) {
	c := genCase(tb, i, g, together)
	tg := tb.targets[c.Target]
	id := fmt.Sprintf("c02-%d", i)
	if !together && historyTarget(tg, c.Target) {
		ok := true
		switch k := g.Intn(1500); {
		case k < 6:
			ok = resetTransport(r, tb, tg)
		case k < 9:
			ok = rotateCredential(r, tb, tg, g)
		case k < 12:
			ok = recreateCluster(r, tb, tg, g)
		}
		if !ok {
			return nil, nil, false
		}
	}
	sc := &script{m: c.script}
	if c.NS != "" {
		tb.scripts.Store(c.NS, sc)
	} else {
		tb.curMu.Lock()
		tb.cur = sc
		tb.curMu.Unlock()
	}
	if tg.raw != nil {
		switch {
		case c.Path == "upgrade":
			// an upgrade request is answered 403 so that the gateway relays the answer and closes
			tg.raw.Script(id, &bed.RawReply{Status: 403, Headers: []bed.RawHeader{{Name: "Content-Type", Value: "text/plain"}}, Body: []byte("no upgrade here"), Framing: "cl"})
		case c.Via == "h1-upstream-aborts-first":
			tg.raw.Script(id, &bed.RawReply{Status: 200, Headers: []bed.RawHeader{{Name: "Content-Type", Value: "text/plain"}}, Body: []byte("second attempt"), Framing: "cl", AbortTimes: 1})
		}
	}
	if c.Intended != nil && c.Intended.Name == "" {
		r.Count("empty_name_identity_cases", 1)
	}
	if c.Intended != nil && hasEdgeBlank(c.Intended) {
		r.Count("edge_blank_identity_cases", 1)
	}
	return c, sc, true
}

func send(tb *testbed, c *Case) bed.RawResponse {
	if c.Via == "h2" {
		return tb.front.H2Do(c.Request, watchdog)
	}
	return bed.RawDo(tb.gw.Addr(), c.Request, watchdog)
}

func runCase(r *vkit.R, tb *testbed, i int, g *vkit.Rand) {
	c, sc, ok := prepCase(r, tb, i, g, false)
	if !ok {
		return
	}
	resp := send(tb, c)
	judge(r, tb, c, sc, &resp)
}

// runPair sends the cases base and base+1 (two different users, possibly different clusters) over one client connection.
func runPair(r *vkit.R, tb *testbed, base int, g *vkit.Rand) {
	var cs [2]*Case
	var scs [2]*script
	via := "keepalive"
	if g.Chance(0.4) {
		via = "pipelined"
	}
	for k := 0; k < 2; k++ {
		c, sc, ok := prepCase(r, tb, base+k, g.Sub(k), true)
		if !ok {
			return
		}
		if c.Path == "upgrade" {
			// an upgrade takes the connection over: put plain requests on the shared connection
			c.Path = "proxy"
			var hs []bed.RawHeader
			for _, h := range c.Request.Headers {
				if l := asciiLower(h.Name); l != "connection" && l != "upgrade" {
					hs = append(hs, h)
				}
			}
			c.Request.Headers = hs
			c.Request.Target = "/api/v1/namespaces/" + c.NS + "/pods"
		}
		c.Via, c.Request.Proto = via, ""
		// a "Connection: ..." nomination must not end the connection before the second request
		cs[k], scs[k] = c, sc
	}
	resps := bed.RawDoSeq(tb.gw.Addr(), []*bed.RawRequest{cs[0].Request, cs[1].Request}, via == "pipelined", watchdog)
	for k := 0; k < 2; k++ {
		if k == 1 && resps[1].Err != nil && resps[0].Err == nil {
			// the gateway closed the connection after the first answer (legal: 4xx/5xx answers, Connection: close):
			// the second request was never read
			r.Count("pair_second_not_answered_connection_closed", 1)
			if v, ok := tb.authn.Load(fmt.Sprintf("c02-%d", base+1)); ok && v != nil {
				// it was read after all: judge what arrived upstream, without an answer
				r.Count("pair_second_read_but_unanswered", 1)
			}
			resps[1].Err = nil
			resps[1].Status = 599 // no answer; only what reached the upstream is judged
		}
		judge(r, tb, cs[k], scs[k], &resps[k])
	}
}

// runBatch sends k cases at the same moment through one gateway; in some batches the transport of cluster 0's endpoint is
// rebuilt, or its cluster object re-delivered unchanged, while the requests are in flight.
func runBatch(r *vkit.R, tb *testbed, base, k int, g *vkit.Rand) {
	cs := make([]*Case, k)
	scs := make([]*script, k)
	for j := 0; j < k; j++ {
		c, sc, ok := prepCase(r, tb, base+j, g.Sub(j), true)
		if !ok {
			return
		}
		if c.Via == "h1" || c.Via == "h1-upstream-aborts-first" {
			c.Via = "concurrent"
		} else {
			c.Via = "concurrent-" + c.Via
		}
		cs[j], scs[j] = c, sc
	}
	event := g.Intn(4) // 0: reset transport, 1: re-deliver the cluster object, else nothing
	start := make(chan struct{})
	resps := make([]bed.RawResponse, k)
	var wg sync.WaitGroup
	for j := 0; j < k; j++ {
		wg.Add(1)
		go func(j int) {
			defer wg.Done()
			<-start
			c := cs[j]
			if strings.HasSuffix(c.Via, "h2") {
				resps[j] = tb.front.H2Do(c.Request, watchdog)
			} else {
				resps[j] = bed.RawDo(tb.gw.Addr(), c.Request, watchdog)
			}
		}(j)
	}
	evOK := true
	if event < 2 {
		wg.Add(1)
		go func() {
			defer wg.Done()
			<-start
			tg := tb.targets[0]
			if event == 0 {
				evOK = resetTransport(r, tb, tg)
			} else {
				r.Count("cluster_redeliveries_during_traffic", 1)
				evOK = applyCluster(r, tb, tg, "re-delivering the cluster object during traffic")
			}
		}()
		r.Count("batches_with_racing_config_event", 1)
	}
	close(start)
	wg.Wait()
	if !evOK {
		return
	}
	if event < 2 && !waitReadyAgain(r, tb, tb.targets[0], "a config event during traffic") {
		return
	}
	for j := 0; j < k; j++ {
		judge(r, tb, cs[j], scs[j], &resps[j])
	}
}

func judge(r *vkit.R, tb *testbed, c *Case, sc *script, resp *bed.RawResponse) {
	i := c.Idx
	tg := tb.targets[c.Target]
	id := fmt.Sprintf("c02-%d", i)
	if c.NS != "" {
		tb.scripts.Delete(c.NS)
	}
	tb.histMu.RLock()
	creds := append([]string(nil), tg.creds...)
	last := tg.last
	resets := tg.resets
	tb.histMu.RUnlock()

	r.Eval(1)
	head := string(c.Request.Bytes())
	if i := strings.Index(head, "\r\n\r\n"); i >= 0 {
		head = head[:i]
	}
	nontrivial := c.Cred != "bearer" || c.Shape != "none" || len(c.Others) > 0 || (c.Intended != nil && len(c.Intended.Extra) > 0)
	if nontrivial {
		// the token and id are unique per case; hash the shape of the request instead
		r.Distinct(vkit.Hash64(c.Cred, c.Path, c.Via, fmt.Sprint(c.Asked), fmt.Sprint(c.Others), fmt.Sprint(c.Script), fmt.Sprint(c.Intended), fmt.Sprint(c.Target)))
	}

	// what arrived upstream: every copy at the target's stub; anything at another stub is misdirected
	var seen [][]bed.RawHeader
	elsewhere := 0
	done := map[interface{}]bool{}
	for _, t := range tb.targets {
		var got [][]bed.RawHeader
		if t.raw != nil {
			if done[t.raw] {
				continue
			}
			done[t.raw] = true
			for _, s := range t.raw.Get(id) {
				got = append(got, s.RawHeaders)
			}
			t.raw.Forget(id)
		} else if s, ok := t.h2.Get(id); ok {
			for k := 0; k < t.h2.CountID(id); k++ {
				got = append(got, headersOfH2(s))
			}
			r.Count("upstream_proto_"+s.Proto, 1)
		}
		if (t.raw != nil && t.raw == tg.raw) || (t.h2 != nil && t.h2 == tg.h2) {
			seen = got
		} else {
			elsewhere += len(got)
		}
	}
	var authn *Identity
	if v, ok := tb.authn.Load(id); ok {
		authn = v.(*Identity)
		tb.authn.Delete(id)
	}
	sc.mu.Lock()
	calls := append([]authzCall(nil), sc.calls...)
	sc.mu.Unlock()
	r.Count("authorizer_calls", len(calls))

	wit := func(extra map[string]interface{}) map[string]interface{} {
		w := map[string]interface{}{"case": c, "target_cluster_history": map[string]interface{}{"transport_resets": resets, "credentials_ever_configured": creds, "latest_event": last},
			"wire_request_head": head, "authenticated": authn, "authorizer_calls": calls, "status": resp.Status, "response_body": fmt.Sprintf("%.300q", resp.Body)}
		if resp.Err != nil {
			w["client_error"] = resp.Err.Error()
		}
		if len(seen) > 0 {
			w["upstream_received"] = seen
		}
		for k, v := range extra {
			w[k] = v
		}
		return w
	}
	if r.WantSample() && nontrivial && i%97 == 0 {
		r.Sample(wit(nil))
	}
	if resp.Err != nil {
		r.Count("client_errors", 1)
		r.Inconclusive(fmt.Sprintf("case %d (%s): no parsable answer from the gateway: %v", i, c.Via, resp.Err))
	}
	if elsewhere > 0 {
		r.Violation("C02/forwarded-to-other-cluster", fmt.Sprintf("request %s for host %s arrived at the stub of another cluster", id, tg.host), wit(nil))
	}

	// which identities may the upstream be told?
	shape := c.Asked.Shape()
	allowed := func(u string) (bool, string) {
		for _, a := range c.Asked.AttrsFor(u) {
			if c.script[a] != "allow" {
				return false, a.Resource
			}
		}
		return true, ""
	}
	type cand struct {
		what string
		id   Norm
	}
	var cands []cand
	reason := "" // why nothing is acceptable
	if authn != nil {
		self := cand{"self", Normalize(*authn)}
		switch shape {
		case ShapeNone:
			cands = append(cands, self)
		case ShapeMalformed:
			reason = "malformed"
		case ShapeSingle:
			u := c.Asked.Users[0]
			if ok, res := allowed(u); ok {
				cands = append(cands, cand{"impersonated", Normalize(c.Asked.IdentityFor(u))}, self)
			} else {
				reason = "denied:" + res
			}
		case ShapeAmbiguous:
			// Several Impersonate-User values: the statement does not say which one is "the identity the client asked
			// for". Accepted: refusing; any of the named users whose complete attribute set the script allows; and, when
			// one of the values is empty and nothing else was asked, treating it as no impersonation.
			for _, u := range c.Asked.nonEmptyUsers() {
				if ok, res := allowed(u); ok {
					cands = append(cands, cand{"impersonated", Normalize(c.Asked.IdentityFor(u))})
				} else if reason == "" {
					reason = "denied:" + res
				}
			}
			if len(c.Asked.nonEmptyUsers()) < len(c.Asked.Users) && len(c.Asked.Groups) == 0 && len(c.Asked.Extras) == 0 {
				cands = append(cands, self)
			} else if len(cands) > 0 {
				cands = append(cands, self)
			}
		}
	} else {
		reason = "unauthenticated"
	}

	if len(seen) == 0 {
		r.Count("not_forwarded", 1)
		switch {
		case authn == nil:
			r.Count("not_forwarded_unauthenticated", 1)
			if c.Cred == "authenticator-error" {
				r.Count("not_forwarded_authenticator_error", 1)
			}
		case reason == "malformed":
			r.Count("not_forwarded_malformed", 1)
		case strings.HasPrefix(reason, "denied"):
			r.Count("not_forwarded_denied", 1)
		case !sendable(cands[0].id.asIdentity()):
			r.Count("not_forwarded_unsendable_identity", 1)
		case authn.Name == "" && cands[0].what == "self":
			r.Count("not_forwarded_empty_name_identity", 1)
		default:
			r.Count("not_forwarded_other", 1)
			r.Count(fmt.Sprintf("not_forwarded_other_status_%d", resp.Status), 1)
		}
		if reason != "" && resp.Err == nil && resp.Status < 400 {
			r.Violation("C02/refused-not-answered/"+strings.SplitN(reason, ":", 2)[0], fmt.Sprintf("%s request was not forwarded but answered with status %d", reason, resp.Status), wit(nil))
		}
		return
	}

	r.Count("forwarded", 1)
	r.Count("forwarded_via_"+c.Via, 1)
	if strings.HasPrefix(c.Via, "concurrent") && c.Via != "concurrent" {
		r.Count("forwarded_via_concurrent", 1)
	}
	if c.Path == "upgrade" {
		r.Count("forwarded_upgrade", 1)
	}
	if tg.h2 != nil {
		r.Count("forwarded_tls_h2", 1)
	}
	if tg.shared {
		r.Count("forwarded_shared_upstream_cluster", 1)
	}
	feat := c.Path
	if tg.h2 != nil {
		feat += "-h2"
	}
	// the history of the cluster object goes into the signatures about what the transport adds (identity headers present
	// at all, credential) - that is what a rebuilt transport can lose; what the filter decides does not depend on it
	hfeat := feat
	if last != "" {
		hfeat += "/after-" + last
		r.Count("forwarded_after_"+last, 1)
	}
	if len(seen) > 1 {
		r.Count("upstream_copies_judged_beyond_first", len(seen)-1)
	}

	switch {
	case authn == nil:
		r.Violation("C02/unauthenticated-forwarded/"+c.Cred, fmt.Sprintf("request without a valid credential (%s) reached the upstream as user %q", c.Cred, readTold(seen[0]).Users), wit(nil))
		return
	case reason == "malformed":
		tl := readTold(seen[0])
		r.Violation("C02/malformed-forwarded/"+feat, fmt.Sprintf("groups/extras without a user were asked (users %q groups %q extras %v) and the request reached the upstream as %q groups %q", c.Asked.Users, c.Asked.Groups, c.Asked.Extras, tl.Users, tl.Groups), wit(nil))
		return
	case len(cands) == 0:
		tl := readTold(seen[0])
		r.Violation("C02/denied-forwarded/"+strings.TrimPrefix(reason, "denied:")+"/"+feat, fmt.Sprintf("impersonation of users %q groups %q extras %v was not allowed by the authorizer (%s) but the request reached the upstream as %q groups %q extra %v", c.Asked.Users, c.Asked.Groups, c.Asked.Extras, reason, tl.Users, tl.Groups, tl.Extra), wit(nil))
		return
	}

	for copyNo, hs := range seen {
		tl := readTold(hs)
		cfeat := feat
		// identity
		if len(tl.Users) != 1 {
			r.Violation(fmt.Sprintf("C02/identity/user-header-count-%d/%s", min(len(tl.Users), 2), hfeat), fmt.Sprintf("the upstream received %d Impersonate-User values %q (authenticated %q)", len(tl.Users), tl.Users, authn.Name), wit(nil))
		} else {
			got := Normalize(Identity{Name: tl.Users[0], Groups: tl.Groups, Extra: tl.Extra})
			// the acceptable identity that got comes closest to (equal > extra differs > groups differ > user differs)
			rank := map[string]int{"": 0, "extra": 1, "groups": 2, "user": 3}
			best, bestDiff := "", "none"
			for _, cd := range cands {
				d := got.Diff(cd.id)
				if bestDiff == "none" || rank[d] < rank[bestDiff] {
					best, bestDiff = cd.what, d
				}
			}
			if bestDiff != "" && hasEdgeBlank(authn) {
				// told the authenticated identity with its edge blanks stripped?
				ts := Identity{Name: strings.Trim(authn.Name, " \t"), Extra: map[string][]string{}}
				for _, g := range authn.Groups {
					ts.Groups = append(ts.Groups, strings.Trim(g, " \t"))
				}
				for k, vs := range authn.Extra {
					for _, v := range vs {
						ts.Extra[k] = append(ts.Extra[k], strings.Trim(v, " \t"))
					}
				}
				if d := got.Diff(Normalize(ts)); d == "" {
					best = "self"
				}
			}
			switch {
			case bestDiff != "" && best == "self" && hasEdgeBlank(authn):
				r.Violation(fmt.Sprintf("C02/identity/edge-blank-stripped/%s/%s", bestDiff, c.Path),
					fmt.Sprintf("the authenticated identity (user %q groups %q) has a value that begins or ends with a blank, which HTTP strips from a field value; instead of refusing, the gateway let the upstream be told user %q groups %q", authn.Name, authn.Groups, got.Name, got.Groups), wit(nil))
			case bestDiff != "" && best == "self" && !sendable(authn):
				r.Violation(fmt.Sprintf("C02/identity/control-bytes-altered/%s/%s", bestDiff, cfeat),
					fmt.Sprintf("the authenticated identity (user %q groups %q) contains bytes no HTTP field value can carry; instead of refusing, the gateway told the upstream user %q groups %q", authn.Name, authn.Groups, got.Name, got.Groups), wit(nil))
			case bestDiff != "":
				r.Violation(fmt.Sprintf("C02/identity/%s-differs/%s/%s", bestDiff, best, cfeat),
					fmt.Sprintf("upstream was told user %q groups %q extra %v; expected (%s) user %q groups %q extra %v", got.Name, got.Groups, got.Extra, cands[0].what, cands[0].id.Name, cands[0].id.Groups, cands[0].id.Extra), wit(map[string]interface{}{"expected": cands}))
			case got.Name == "":
				// An empty Impersonate-User value is, for an API server, no impersonation at all: with nothing else asked it
				// acts as the owner of the credential (the gateway itself), with groups/extras it rejects the request. An
				// identity without a name cannot be told to the upstream; the only sound answer is to refuse.
				r.Violation("C02/identity/empty-user-name-forwarded/"+c.Path, fmt.Sprintf("the authenticated identity has an empty name (groups %q); the request was forwarded with the gateway's credential and an empty Impersonate-User value, which an API server reads as 'act as the gateway'", authn.Groups), wit(nil))
			default:
				if copyNo > 0 {
					break
				}
				switch {
				case shape == ShapeNone:
					r.Count("forwarded_as_self", 1)
				case best == "impersonated":
					r.Count("forwarded_impersonated", 1)
					for _, u := range c.Asked.Users {
						if strings.HasPrefix(asciiLower(u), "system:serviceaccount") && len(u) > 60 {
							r.Count("sa_boundary_impersonations_forwarded", 1)
							break
						}
					}
				case shape == ShapeSingle:
					r.Count("allowed_forwarded_as_self", 1)
				default:
					r.Count("ambiguous_forwarded_as_self", 1)
				}
				if shape == ShapeAmbiguous {
					r.Count("ambiguous_forwarded", 1)
				}
				if len(authn.Groups) >= 40 && best == "self" {
					r.Count("many_groups_identity_forwarded", 1)
				}
			}
		}

		// credential: only the gateway's own
		isOwn := false
		for _, cr := range creds {
			if len(tl.Auth) == 1 && tl.Auth[0] == "Bearer "+cr {
				isOwn = true
				if cr != creds[len(creds)-1] {
					r.Count("stale_gateway_credential_after_rotation", 1)
				}
			}
		}
		switch {
		case len(tl.Auth) == 0 && c.Path == "upgrade":
			// Observed, not judged: on the upgrade path the bearer-token wrapper is not part of PorxyUpgradeTransport, so a
			// token-configured cluster receives no credential at all. Nothing of the client's is forwarded, which is what
			// the statement is about.
			r.Count("upgrade_without_gateway_credential", 1)
		case len(tl.Auth) == 0:
			r.Violation("C02/credential/missing/"+hfeat, "the upstream received no Authorization header (cluster is configured with a bearer token)", wit(nil))
		case len(tl.Auth) > 1:
			r.Violation("C02/credential/duplicated/"+hfeat, fmt.Sprintf("the upstream received %d Authorization values %q", len(tl.Auth), tl.Auth), wit(nil))
		case !isOwn:
			kind := c.Cred
			for _, t := range tb.targets {
				if t != tg && tl.Auth[0] == "Bearer "+t.cred {
					kind = "credential-of-another-cluster"
				}
			}
			r.Violation("C02/credential/not-the-gateways/"+kind+"/"+hfeat, fmt.Sprintf("the upstream received Authorization %q, the cluster's credential is %q (client sent %q)", tl.Auth[0], creds, c.ClientTok), wit(nil))
		}
		for _, h := range tl.All {
			for _, ct := range c.ClientTok {
				if strings.Contains(h.Value, ct) {
					r.Violation("C02/credential/client-token-forwarded/"+c.Cred+"/"+cfeat, fmt.Sprintf("the client's credential %q arrived upstream in header %s: %q", ct, h.Name, h.Value), wit(nil))
				}
			}
		}

		// nothing else of the Impersonate-* family
		for _, h := range tl.Others {
			fromClient := false
			for _, o := range c.Others {
				if strings.EqualFold(o.Name, h.Name) && o.Value == h.Value {
					fromClient = true
				}
			}
			if fromClient {
				r.Violation(fmt.Sprintf("C02/client-header-forwarded/%s/%s", otherClass(h.Name), c.Path),
					fmt.Sprintf("client-sent header %s: %s reached the upstream next to the gateway's credential (authenticated as %q, shape %s)", h.Name, h.Value, authn.Name, c.Shape), wit(nil))
			} else if !(strings.EqualFold(h.Name, "Impersonate-Uid") && h.Value == c.UID) {
				// (a gateway-generated Impersonate-Uid carrying the authenticated UID would not be client-supplied)
				r.Violation("C02/unexpected-impersonate-header/"+c.Path, fmt.Sprintf("the upstream received %s: %s, which is neither user, group nor extra", h.Name, h.Value), wit(nil))
			}
		}
		if copyNo == 0 && len(c.Others) > 0 && len(tl.Others) == 0 {
			r.Count("other_family_headers_stripped", 1)
		}
	}
}

func (n Norm) asIdentity() *Identity { return &Identity{Name: n.Name, Groups: n.Groups, Extra: n.Extra} }

func min(a, b int) int {
	if a < b {
		return a
	}
	return b
}
