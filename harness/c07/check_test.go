package c07

import (
	"bytes"
	"encoding/json"
	"fmt"
	"io/ioutil"
	"math"
	"net/http"
	"net/http/httptest"
	"net/url"
	"runtime"
	"sort"
	"strings"
	"sync"
	"testing"
	"time"

	metav1 "k8s.io/apimachinery/pkg/apis/meta/v1"

	proxyv1alpha1 "github.com/kubewharf/kubegateway/pkg/apis/proxy/v1alpha1"
	"github.com/kubewharf/kubegateway/pkg/ratelimiter/limiter"
	"github.com/kubewharf/kubegateway/pkg/ratelimiter/util"

	gatewayfake "github.com/kubewharf/kubegateway/pkg/client/kubernetes/fake"
	"github.com/kubewharf/kubegateway/pkg/ratelimiter/endpoints/dispather"

	"verifharness/bed"
	"verifharness/vkit"
)

func TestCheck(t *testing.T) {
	vkit.Run(t, "C07", "exploration", func(r *vkit.R) {
		r.Rule("(1) arithmetic: seeded cases (kind, global limit, global burst, sum on record, previous quota, used, request level, global level, instances) " +
			"from four regimes (new instance / existing within the limit / over-committed after a lowered limit / exactly at the limit) with boundary values " +
			"(0, 1, limit, limit+-1, 2^31-1) through limiter.VerifCalculateNextQuota; (2) system: histories on the real rate-limiter server (scripted leader, local store): " +
			"1-12 simulated honest gateway instances on 1-4 schemas (report = previous answer + used/level computed as remote_allocation.go does; status entries complete, missing for idle schemas, empty, or re-ordered) reporting one by one, in rounds and concurrently, " +
			"with limit raised/lowered through the cluster handler, instances joining, lapsing (heartbeat > 3 s old, no cleanup pass yet, still on record) and being reclaimed. Oracle = invariants I1-I4 of the statement (oracle.go). " +
			"Non-trivial = the clamp/floor region is reached (new instance, sum >= 90% of the limit, or sum above the limit); distinct = hash of the case resp. of the history trace.")
		r.Assume("an honest instance reports exactly the quota it was last answered; its own quota is part of the sum on record (or it is new, previous quota 0)")
		arithmetic(r)
		system(r)
		r.ReportSched()
		r.Require(r.Counter("arith_cases") >= 100000, "too few arithmetic cases")
		r.Require(r.Counter("arith_overcommitted_regime") >= 1000 && r.Counter("arith_new_instance") >= 1000 && r.Counter("arith_no_room") >= 1000, "arithmetic regimes not covered")
		r.Require(r.Counter("sys_reports_sequential") >= 1000 && r.Counter("sys_reports_concurrent") >= 500, "too few system reports")
		r.Require(r.Counter("sys_steps_overcommitted") >= 50 && r.Counter("sys_steps_near_limit") >= 50 && r.Counter("sys_limit_lowered") >= 20, "system histories did not reach the clamp region")
		r.Require(r.Counter("sys_lapses_before_any_cleanup") >= 40 && r.Counter("sys_reports_while_an_instance_is_lapsed") >= 300, "too few reports answered while a lapsed instance was still on record")
		r.Require(r.Counter("sys_returns") >= 10 && r.Counter("sys_instances_reclaimed") >= 50, "too few reclaimed/returning instances")
		// Histories abandoned because a cleanup step did not leave exactly the expected instances on record (0 on a tree whose
		// reclamation works; that it works is C18's verdict, not C07's) are reported in the evidence; what is required is that
		// enough reclaim steps WERE usable, so that the reclaim/return scenarios are not silently lost.
		r.Set("histories_abandoned_fraction", float64(r.Counter("histories_abandoned_store_differs_from_model_after_cleanup"))/float64(r.Counter("sys_histories")+1))
		r.Require(r.Counter("sys_reclaim_steps_usable") >= int64(r.N(40, 1000)), "too few reclaim steps left the store as the model expects (reclamation is broken: see C18); the reclaim scenarios of C07 were not exercised")
		r.Require(r.Counter("sys_quota_reported_without_status_entry") >= 300, "too few reports that list a held quota without a status entry")
		r.Require(r.Counter("sys_limit_changes_racing_with_reports") >= 300 && r.Counter("sys_histories_with_realistic_identities") >= 100 && r.Counter("sys_histories_with_more_than_10_clients") >= 100,
			"too few racing limit changes / realistic identities / large client counts")
		r.Require(r.Counter("sys_reinit_upstream-recreated") >= 30 && r.Counter("sys_reinit_leader-restart") >= 30 && r.Counter("sys_reports_claiming_quota_after_reinit") >= 200,
			"too few re-initialisations (upstream deleted and re-created, leadership lost and regained) followed by reports")
		r.Require(r.Counter("sys_rejected_reports") >= 60 && r.Counter("sys_schema_removed_and_readded") >= 40 && r.Counter("sys_other_upstream_reports") >= 200,
			"too few rejected reports / schema removals / reports to the second upstream")
		r.Require(r.Counter("sys_burst_only_changes") >= 100 && r.Counter("sys_burst_only_lowered") >= 40 && r.Counter("sys_token_bucket_answers_after_burst_only_change") >= 300,
			"too few changes of the global burst alone (qps unchanged) followed by reports")
		r.Require(r.Counter("sys_histories_on_the_api_backed_store") >= 100 && r.Counter("sys_schemas_with_limit_near_int32_range") >= 40 && r.Counter("sys_schemas_with_limit_above_2_pow_30") >= 40 && r.Counter("sys_reports_with_limit_above_2_pow_30") >= 1500, "too few histories on the API-backed store / with very large limits")
		r.Require(r.Counter("sys_histories_over_http") >= 100 && r.Counter("sys_reports_over_http") >= 3000, "too few reports delivered over HTTP through the real dispatcher")
		r.Require(r.Counter("reinit_premise_not_met") == 0 && !bed.PremiseBroken(),
			"a server's store held state that did not come through that server, or a regained shard / re-created upstream did not start empty (C13's / C19's clause): the histories built on it give no verdict")
		r.Require(r.Counter("sys_report_errors") == 0, "reports were refused by the server (harness/server set-up problem)")
	})
}

// ---------------------------------------------------------------- arithmetic

var totals = []int32{1, 2, 3, 5, 10, 20, 49, 50, 51, 99, 100, 101, 250, 499, 500, 501, 999, 1000, 1001, 3000, 5000, 10000, 100000, 1000000, math.MaxInt32}

func clamp32(v int64) int32 {
	if v > math.MaxInt32 {
		return math.MaxInt32
	}
	if v < 0 {
		return 0
	}
	return int32(v)
}

func rng64(g *vkit.Rand, lo, hi int64) int64 {
	if hi <= lo {
		return lo
	}
	return lo + int64(g.Uint64()%uint64(hi-lo+1))
}

func logUniform(g *vkit.Rand, lo, hi float64) int64 {
	return int64(math.Exp(math.Log(lo) + g.Float()*(math.Log(hi)-math.Log(lo))))
}

func genCase(g *vkit.Rand) Case {
	c := Case{Kind: "maxInflight"}
	if g.Bool() {
		c.Kind = "tokenBucket"
	}
	if g.Chance(0.6) {
		c.Total = g.PickI32(totals)
	} else {
		c.Total = clamp32(logUniform(g, 1, 2000000))
		if c.Total < 1 {
			c.Total = 1
		}
	}
	T := int64(c.Total)
	if c.Kind == "tokenBucket" {
		switch g.Intn(5) {
		case 0:
			c.GlobalBurst = c.Total
		case 1:
			c.GlobalBurst = clamp32(2 * T)
		case 2:
			c.GlobalBurst = 1
		default:
			c.GlobalBurst = clamp32(rng64(g, 1, 4*T))
		}
	}
	switch g.Intn(10) {
	case 0, 1: // new instance
		c.Current = 0
		switch g.Intn(6) {
		case 0:
			c.Allocated = 0
		case 1:
			c.Allocated = c.Total
		case 2:
			c.Allocated = clamp32(T - 1)
		case 3:
			c.Allocated = clamp32(T + 1)
		case 4:
			c.Allocated = clamp32(rng64(g, 0, T))
		default:
			c.Allocated = clamp32(rng64(g, T+1, 3*T))
		}
	case 2, 3, 4, 5: // existing instance, sum within the limit
		switch g.Intn(5) {
		case 0:
			c.Current = 1
		case 1:
			c.Current = c.Total
		default:
			c.Current = clamp32(rng64(g, 1, T))
		}
		switch g.Intn(4) {
		case 0:
			c.Allocated = c.Current
		case 1:
			c.Allocated = c.Total
		case 2:
			c.Allocated = clamp32(T - 1)
			if c.Allocated < c.Current {
				c.Allocated = c.Current
			}
		default:
			c.Allocated = clamp32(rng64(g, int64(c.Current), T))
		}
	case 6, 7, 8: // over-committed: the limit was lowered from old to T (or minimum quotas piled up)
		old := T * rng64(g, 1, 20)
		if old > math.MaxInt32 {
			old = math.MaxInt32
		}
		c.Current = clamp32(rng64(g, 1, old))
		lo := int64(c.Current)
		if lo < T+1 {
			lo = T + 1
		}
		c.Allocated = clamp32(rng64(g, lo, lo+old))
	default: // exactly at the limit
		c.Allocated = c.Total
		switch g.Intn(3) {
		case 0:
			c.Current = 1
		case 1:
			c.Current = c.Total
		default:
			c.Current = clamp32(rng64(g, 1, T))
		}
	}
	cur := int64(c.Current)
	switch g.Intn(6) {
	case 0:
		c.Used = 0
	case 1:
		c.Used = c.Current
	case 2:
		c.Used = clamp32(cur - 1)
	case 3:
		c.Used = clamp32(cur + rng64(g, 1, cur/10+1)) // the quota was just lowered under the in-flight level
	default:
		c.Used = clamp32(rng64(g, 0, cur))
	}
	if cur == 0 {
		c.Used = clamp32(rng64(g, 0, T)) // measured against the local limiter; no remote quota yet => level 0
	}
	if cur > 0 {
		c.Level = int32(float64(c.Used) / float64(cur) * 100)
	}
	if g.Chance(0.2) {
		c.Level = g.PickI32([]int32{0, 1, 44, 45, 50, 55, 69, 70, 75, 95, 100, 101, 150, 1000})
	}
	if g.Bool() {
		c.GlobalLevel = g.PickI32([]int32{0, 5, 30, 50, 70, 95, 100, 120})
	} else {
		c.GlobalLevel = int32(g.Intn(101))
	}
	c.Clients = g.PickInt([]int{1, 2, 3, 5, 10, 11, 12, 50, 500})
	return c
}

func detail(kind string, q, burst int32) proxyv1alpha1.LimitItemDetail {
	if kind == "tokenBucket" {
		return proxyv1alpha1.LimitItemDetail{TokenBucket: &proxyv1alpha1.TokenBucketFlowControlSchema{QPS: q, Burst: burst}}
	}
	return proxyv1alpha1.LimitItemDetail{MaxRequestsInflight: &proxyv1alpha1.MaxRequestsInflightFlowControlSchema{Max: q}}
}

func quotaOf(d proxyv1alpha1.LimitItemDetail) (q, burst int32, ok bool) {
	switch {
	case d.MaxRequestsInflight != nil:
		return d.MaxRequestsInflight.Max, 0, true
	case d.TokenBucket != nil:
		return d.TokenBucket.QPS, d.TokenBucket.Burst, true
	}
	return 0, 0, false
}

var arithCondition = &proxyv1alpha1.RateLimitCondition{ObjectMeta: metav1.ObjectMeta{Name: "up.gw-0"}}

// evalCase calls the real arithmetic the way UpdateRateLimitConditionStatus does.
func evalCase(c Case) (next, burst int32, panicked interface{}) {
	upstreamTotal := proxyv1alpha1.RateLimitItemConfiguration{Name: "s", LimitItemDetail: detail(c.Kind, c.Total, c.GlobalBurst)}
	upstreamUsed := proxyv1alpha1.RateLimitItemStatus{Name: "s", LimitItemDetail: detail(c.Kind, c.Allocated, c.Allocated), RequestLevel: c.GlobalLevel}
	cfg := proxyv1alpha1.RateLimitItemConfiguration{Name: "s", Strategy: proxyv1alpha1.GlobalAllocateLimit}
	if c.Current > 0 {
		cfg.LimitItemDetail = detail(c.Kind, c.Current, c.Current)
	}
	st := proxyv1alpha1.RateLimitItemStatus{Name: "s", LimitItemDetail: detail(c.Kind, c.Used, c.Used), RequestLevel: c.Level}
	panicked = vkit.Safely(func() {
		out := limiter.VerifCalculateNextQuota(upstreamTotal, upstreamUsed, cfg, st, c.Clients, arithCondition)
		next, burst, _ = quotaOf(out.LimitItemDetail)
	})
	return
}

func arithmetic(r *vkit.R) {
	n := r.N(300000, 20000000)
	sampleEvery := n / 4
	r.Parallel(n, 16, func(i int, g *vkit.Rand) {
		c := genCase(g)
		next, burst, p := evalCase(c)
		r.Eval(1)
		r.Count("arith_cases", 1)
		nontrivial := c.Current == 0 || c.Allocated > c.Total || float64(c.Allocated) >= 0.9*float64(c.Total)
		if c.Current == 0 {
			r.Count("arith_new_instance", 1)
		}
		if c.Allocated > c.Total {
			r.Count("arith_overcommitted_regime", 1)
		}
		if c.Allocated == c.Total {
			r.Count("arith_no_room", 1)
		}
		if nontrivial && (r.Quick() || i%4 == 0) {
			r.Distinct(vkit.Hash64(fmt.Sprintf("%+v", c)))
		}
		if i%sampleEvery == 1 {
			r.Sample(map[string]interface{}{"kind": "arithmetic", "case": c, "answer": next, "burst": burst})
		}
		if p != nil {
			r.Violation(fmt.Sprintf("C07/arith/panic/%s/%s", regime(int64(c.Allocated), int64(c.Total)), instClass(int64(c.Current))),
				fmt.Sprintf("calculateNextQuota panicked (%v) on %+v", p, c), map[string]interface{}{"case": c, "panic": fmt.Sprint(p)})
			return
		}
		for _, f := range Judge(c, next, burst) {
			r.Violation(Sig("arith", f, int64(c.Allocated), int64(c.Total), int64(c.Current)),
				fmt.Sprintf("calculateNextQuota: %s; inputs %+v -> quota %d burst %d", f.What, c, next, burst),
				map[string]interface{}{"case": c, "answer": next, "burst": burst, "call": "limiter.VerifCalculateNextQuota(total, sumOnRecord, previous, used/level, instances)"})
		}
	})
}

// ---------------------------------------------------------------- system

type schema struct {
	Name  string `json:"name"`
	TB    bool   `json:"tokenBucket"`
	Limit int32  `json:"limit"`
	Burst int32  `json:"burst,omitempty"`
}

func (s schema) kind() string {
	if s.TB {
		return "tokenBucket"
	}
	return "maxInflight"
}

func buildCluster(name string, ss []schema) *proxyv1alpha1.UpstreamCluster {
	c := &proxyv1alpha1.UpstreamCluster{ObjectMeta: metav1.ObjectMeta{Name: name}}
	for _, s := range ss {
		fs := proxyv1alpha1.FlowControlSchema{Name: s.Name, Strategy: proxyv1alpha1.GlobalAllocateLimit}
		if s.TB {
			fs.GlobalTokenBucket = &proxyv1alpha1.TokenBucketFlowControlSchema{QPS: s.Limit, Burst: s.Burst}
		} else {
			fs.GlobalMaxRequestsInflight = &proxyv1alpha1.MaxRequestsInflightFlowControlSchema{Max: s.Limit}
		}
		c.Spec.FlowControl.Schemas = append(c.Spec.FlowControl.Schemas, fs)
	}
	return c
}

// gw is a simulated honest gateway instance.
type gw struct {
	id     string
	quota  map[string]proxyv1alpha1.LimitItemDetail // last answer per schema (absent = no remote quota yet)
	demand map[string]float64                       // wanted load as a fraction of the global limit
}

type reportRec struct {
	Instance string `json:"instance"`
	Schema   string `json:"schema"`
	Previous int32  `json:"previousQuota"`
	Used     int32  `json:"used"`
	Level    int32  `json:"requestLevel"`
	Answer   int32  `json:"answer"`
	Burst    int32  `json:"burst,omitempty"`
	NoStatus bool   `json:"noStatusEntry,omitempty"` // the report carried the quota held but no status entry for this schema
}

// buildReport builds the status report the way pkg/flowcontrols/remote/remote_allocation.go does (buildLimitConditions,
// getRateLimitItemConfiguration, getRateLimitItemStatus).
func buildReport(upstream string, w *gw, ss []schema, g *vkit.Rand) (*proxyv1alpha1.RateLimitCondition, []reportRec) {
	cond := &proxyv1alpha1.RateLimitCondition{
		ObjectMeta: metav1.ObjectMeta{Name: util.GenerateRateLimitConditionName(upstream, w.id)},
		Spec:       proxyv1alpha1.RateLimitSpec{UpstreamCluster: upstream, Instance: w.id},
	}
	var recs []reportRec
	// Report shapes. A gateway lists the quota it holds for every schema in Spec; what it says about its usage may be
	// partial: 0 = a status entry per schema, 1 = no status entry for some schemas it is idle on, 2 = empty status list (idle
	// on everything this round); the status entries may come in another order than the configurations. All of it is honest:
	// a schema without a status entry is one the instance has no traffic on (the server reads a missing entry as used 0).
	shape := 0
	switch x := g.Intn(10); {
	case x < 2:
		shape = 1
	case x < 3:
		shape = 2
	}
	for _, s := range ss {
		omit := shape == 2 || (shape == 1 && g.Bool())
		if g.Chance(0.2) {
			w.demand[s.Name] = []float64{0, 0.01, 0.05, 0.1, 0.3, 0.6, 1.0, 2.0}[g.Intn(8)]
		}
		want := int64(w.demand[s.Name] * float64(s.Limit))
		cfg := proxyv1alpha1.RateLimitItemConfiguration{Name: s.Name, Strategy: proxyv1alpha1.GlobalAllocateLimit}
		st := proxyv1alpha1.RateLimitItemStatus{Name: s.Name}
		rec := reportRec{Instance: w.id, Schema: s.Name}
		var used int64
		if d, ok := w.quota[s.Name]; ok {
			cfg.LimitItemDetail = *d.DeepCopy()
			q, _, _ := quotaOf(d)
			rec.Previous = q
			used = want
			if used > int64(q) {
				used = int64(q) // the local limiter holds the instance at its quota ...
				if g.Chance(0.1) {
					used += rng64(g, 1, int64(q)/10+1) // ... except right after the quota shrank
				}
			}
			if used < 0 {
				used = 0
			}
			if q > 0 {
				st.RequestLevel = int32(float64(used) / float64(q) * 100)
			}
		} else {
			used = want // measured against the local limiter; no remote flow control yet => level 0
		}
		if omit {
			used, st.RequestLevel = 0, 0 // idle on this schema this round: nothing to say
			rec.NoStatus = true
		}
		rec.Used, rec.Level = clamp32(used), st.RequestLevel
		st.LimitItemDetail = detail(s.kind(), clamp32(used), clamp32(used))
		cond.Spec.LimitItemConfigurations = append(cond.Spec.LimitItemConfigurations, cfg)
		if !omit {
			cond.Status.LimitItemStatuses = append(cond.Status.LimitItemStatuses, st)
		}
		recs = append(recs, rec)
	}
	if n := len(cond.Status.LimitItemStatuses); n > 1 && g.Chance(0.3) {
		sh := make([]proxyv1alpha1.RateLimitItemStatus, 0, n)
		for _, idx := range g.Perm(n) {
			sh = append(sh, cond.Status.LimitItemStatuses[idx])
		}
		cond.Status.LimitItemStatuses = sh
	}
	return cond, recs
}

func noStatus(rc reportRec) string {
	if rc.NoStatus {
		return " (no status entry)"
	}
	return ""
}

type record struct {
	sum    map[string]int64            // schema -> sum of quotas on record
	per    map[string]map[string]int64 // instance -> schema -> quota on record
	status map[string]int64            // schema -> allocated sum in the <upstream>.state condition
}

func readRecord(srv *bed.LimiterServer, upstream string) record {
	rec := record{sum: map[string]int64{}, per: map[string]map[string]int64{}, status: map[string]int64{}}
	st := srv.Handle.Store(util.GetShardID(upstream, srv.Shards))
	if st == nil {
		return rec
	}
	for _, c := range st.ListUpstream(upstream) {
		if c.Name == upstream+".state" {
			for _, it := range c.Status.LimitItemStatuses {
				q, _, _ := quotaOf(it.LimitItemDetail)
				rec.status[it.Name] = int64(q)
			}
			continue
		}
		m := map[string]int64{}
		for _, it := range c.Spec.LimitItemConfigurations {
			q, _, _ := quotaOf(it.LimitItemDetail)
			m[it.Name] = int64(q)
			rec.sum[it.Name] += int64(q)
		}
		rec.per[c.Spec.Instance] = m
	}
	return rec
}

type history struct {
	r        *vkit.R
	g        *vkit.Rand
	srv      *bed.LimiterServer
	upstream string
	schemas  []schema
	gws      []*gw
	gone     []*gw // reclaimed instances (they still hold the quota they were last answered)
	returned map[string]bool
	lapsing  bool // an instance with an expired heartbeat is still on record (no cleanup pass yet)
	scenario string
	nextID   int
	trace    []string
	dead     bool // a violation was found: stop (later answers would only repeat it)
	nontriv  bool

	everBig    bool             // a schema of this history has (had) a global limit above 2^30: quotas held and their sums pass 2^31
	front      *httptest.Server // reports go over HTTP through the server's real dispatcher
	apiStore   bool             // the server keeps its conditions in the API-backed store
	realIDs    bool             // identities as gateways really have them (ip:port, IPv6, dots, upper case, long, non-ASCII)
	extras     []string         // gateways that heartbeat to this server but never report on this upstream (they count as clients)
	other      string           // a second upstream on the same server (own schemas), used by the same instances
	deferApply bool             // changeLimit only prepares the change (reportConcurrently delivers it while reports are in flight)
	pending    *proxyv1alpha1.UpstreamCluster
	pendingOld *schema
}

// viol records a violation - unless the premise the history rests on is broken (bed.StoreHasForeignUpstreams: the server's store
// holds state that did not come through this server, e.g. because stores are shared between servers or survive a loss of
// leadership - C13's statement): then the history is abandoned without a verdict.
func (h *history) viol(sig, what string, witness interface{}) {
	if bed.StoreHasForeignUpstreams(h.srv) {
		h.dead = true
		h.r.Count("reinit_premise_not_met", 1)
		return
	}
	h.r.Violation(sig, what, witness)
}

// sc: scenario class; histories on the API-backed (write-through) store are a class of their own.
func (h *history) sc(base string) string {
	if h.apiStore {
		base += "/api-backed-store"
	}
	if h.front != nil {
		base += "/over-http"
	}
	return base
}

func (h *history) logf(format string, a ...interface{}) {
	h.trace = append(h.trace, fmt.Sprintf(format, a...))
}

func (h *history) witness(extra map[string]interface{}) map[string]interface{} {
	tr := h.trace
	if len(tr) > 60 {
		tr = append([]string{fmt.Sprintf("... %d earlier steps omitted", len(tr)-60)}, tr[len(tr)-60:]...)
	}
	w := map[string]interface{}{"upstream": h.upstream, "schemas": h.schemas, "trace": tr,
		"how": "bed.NewLimiterServer(LeadAll) + ApplyUpstream(cluster with globalAllocate schemas) + Heartbeat + UpdateRateLimitConditionStatus per trace line"}
	for k, v := range extra {
		w[k] = v
	}
	return w
}

func (h *history) schemaByName(n string) *schema {
	for i := range h.schemas {
		if h.schemas[i].Name == n {
			return &h.schemas[i]
		}
	}
	return nil
}

func (h *history) identity() string {
	n := h.nextID
	if !h.realIDs {
		return fmt.Sprintf("gw-%d", n)
	}
	switch h.g.Intn(7) {
	case 0:
		return fmt.Sprintf("10.0.%d.7:6443-%d-ab", n, 4000+n)
	case 1:
		return fmt.Sprintf("[fd00::%x]:6443-%d-k8s", n+10, n)
	case 2:
		return fmt.Sprintf("GW-Node.%d.Example", n)
	case 3:
		return fmt.Sprintf("gw.%d-a_b", n)
	case 4:
		return fmt.Sprintf("%s-%d", strings.Repeat("long-prefix.", 7), n) // > 63 characters
	case 5:
		return fmt.Sprintf("gw-é中-%d", n)
	}
	return fmt.Sprintf("gw-%d", n)
}

func (h *history) join() {
	w := &gw{id: h.identity(), quota: map[string]proxyv1alpha1.LimitItemDetail{}, demand: map[string]float64{}}
	h.nextID++
	for _, s := range h.schemas {
		w.demand[s.Name] = []float64{0, 0.05, 0.3, 1.0}[h.g.Intn(4)]
	}
	_ = h.srv.Limiter.Heartbeat(w.id)
	h.gws = append(h.gws, w)
	h.logf("join %s", w.id)
}

func (h *history) heartbeatAll() {
	for _, w := range h.gws {
		_ = h.srv.Limiter.Heartbeat(w.id)
	}
	for _, id := range h.extras {
		_ = h.srv.Limiter.Heartbeat(id)
	}
}

// send delivers one report; returns the per-schema records with the answers filled in (nil on a refused report).
// sendHTTP delivers the report the way gateways do: PUT .../ratelimitconditions/<upstream>.<instance>/status on the HTTP front
// the limiter server mounts (the real dispatcher, pkg/ratelimiter/endpoints/dispather), JSON in, JSON out.
func (h *history) sendHTTP(cond *proxyv1alpha1.RateLimitCondition) (*proxyv1alpha1.RateLimitCondition, error) {
	body, err := json.Marshal(cond)
	if err != nil {
		return nil, err
	}
	req, err := http.NewRequest("PUT", h.front.URL+"/apis/proxy.kubegateway.io/v1alpha1/ratelimitconditions/"+url.PathEscape(cond.Name)+"/status", bytes.NewReader(body))
	if err != nil {
		return nil, err
	}
	req.Header.Set("Content-Type", "application/json")
	resp, err := h.front.Client().Do(req)
	if err != nil {
		return nil, err
	}
	defer resp.Body.Close()
	data, _ := ioutil.ReadAll(resp.Body)
	if resp.StatusCode != http.StatusOK {
		return nil, fmt.Errorf("HTTP %d: %s", resp.StatusCode, strings.TrimSpace(string(data)))
	}
	ans := &proxyv1alpha1.RateLimitCondition{}
	if err := json.Unmarshal(data, ans); err != nil {
		return nil, err
	}
	return ans, nil
}

func (h *history) send(w *gw, cond *proxyv1alpha1.RateLimitCondition, recs []reportRec) []reportRec {
	var ans *proxyv1alpha1.RateLimitCondition
	var err error
	var p interface{}
	if h.front != nil {
		ans, err = h.sendHTTP(cond)
		h.r.Count("sys_reports_over_http", 1)
	} else {
		p = vkit.Safely(func() { ans, err = h.srv.Limiter.UpdateRateLimitConditionStatus(h.upstream, cond) })
	}
	if p != nil {
		h.viol("C07/system/panic", fmt.Sprintf("UpdateRateLimitConditionStatus panicked: %v", p), h.witness(map[string]interface{}{"report": recs, "panic": fmt.Sprint(p)}))
		return nil
	}
	if err != nil || ans == nil {
		h.r.Count("sys_report_errors", 1)
		return nil
	}
	got := map[string]proxyv1alpha1.LimitItemDetail{}
	for _, it := range ans.Spec.LimitItemConfigurations {
		got[it.Name] = *it.LimitItemDetail.DeepCopy()
	}
	for i := range recs {
		d, ok := got[recs[i].Schema]
		if !ok {
			continue
		}
		recs[i].Answer, recs[i].Burst, _ = quotaOf(d)
		w.quota[recs[i].Schema] = d
	}
	return recs
}

// violate records a finding. before.status (the allocated sum the server keeps in the upstream state; stale-high after an
// instance was reclaimed) only classifies the signature; the invariants themselves are judged on the quotas on record.
func (h *history) violate(f Finding, before record, s *schema, current int64, extra map[string]interface{}) {
	h.dead = true
	sumBefore := before.sum[s.Name]
	if before.status[s.Name] > sumBefore {
		sumBefore = before.status[s.Name]
	}
	sig := Sig(h.scenario, f, sumBefore, int64(s.Limit), current)
	if h.everBig {
		sig += "/int32-range" // limits in the upper half of the int32 range: sums of quotas pass 2^31
	}
	h.viol(sig,
		fmt.Sprintf("schema %s (%s, global limit %d): %s", s.Name, s.kind(), s.Limit, f.What), h.witness(extra))
}

func (h *history) classify(before record, s *schema, current int64) {
	L := int64(s.Limit)
	if L > 1<<30 {
		h.r.Count("sys_reports_with_limit_above_2_pow_30", 1)
	}
	sb := before.sum[s.Name]
	switch {
	case sb > L:
		h.r.Count("sys_steps_overcommitted", 1)
		h.nontriv = true
	case float64(sb) >= 0.9*float64(L):
		h.r.Count("sys_steps_near_limit", 1)
		h.nontriv = true
	}
	if current == 0 && sb >= L {
		h.r.Count("sys_new_instance_no_room", 1)
	}
}

// reportOne: one report answered in isolation, judged exactly (I1-I4 + record consistency).
func (h *history) reportOne(w *gw) {
	before := readRecord(h.srv, h.upstream)
	cond, recs := buildReport(h.upstream, w, h.schemas, h.g)
	recs = h.send(w, cond, recs)
	if recs == nil {
		return
	}
	after := readRecord(h.srv, h.upstream)
	if h.vanished(before, after) || (h.returned[w.id] && after.per[w.id] == nil) {
		if !h.dead {
			h.dead = true
			h.r.Count("sys_return_record_removed_by_pending_cleanup", 1)
		}
		return
	}
	h.r.Count("sys_reports_sequential", 1)
	// an instance that claims a quota but is not on record (reclaimed while silent) is its own scenario class
	h.scenario = h.sc("system")
	if len(w.quota) > 0 && before.per[w.id] == nil && len(recs) > 0 && recs[0].Previous > 0 {
		h.scenario = h.sc("system-return")
	}
	defer func() { h.scenario = h.sc("system") }()
	for _, rc := range recs {
		s := h.schemaByName(rc.Schema)
		h.logf("report %s %s: previous=%d used=%d level=%d%s -> quota=%d burst=%d   (sum on record %d -> %d, limit %d)",
			w.id, rc.Schema, rc.Previous, rc.Used, rc.Level, noStatus(rc), rc.Answer, rc.Burst, before.sum[rc.Schema], after.sum[rc.Schema], s.Limit)
		if rc.NoStatus && rc.Previous > 0 {
			h.r.Count("sys_quota_reported_without_status_entry", 1)
		}
		cur := before.per[w.id][rc.Schema]
		h.classify(before, s, cur)
		ex := map[string]interface{}{"report": rc}
		for _, f := range JudgeAnswer(s.kind(), int64(s.Limit), int64(s.Burst), int64(rc.Answer), int64(rc.Burst)) {
			h.violate(f, before, s, cur, ex)
		}
		for _, f := range JudgeStep(int64(s.Limit), before.sum[rc.Schema], after.sum[rc.Schema], cur, int64(rc.Answer)) {
			h.violate(f, before, s, cur, ex)
		}
		h.consistency(after, w, rc, s)
	}
}

// consistency: the quota on record for the instance is the quota answered, and the allocated sum kept in the upstream
// state condition (what the next report's arithmetic will use) is the sum of the quotas on record. This is judged ONLY
// right after a report was answered, at quiescence (no cleanup goroutine pending, see leave): that is when
// calculateUpstreamCondition has just recomputed the sum. A cleanup pass does not recompute it (the sum is then stale-high,
// which only makes the server stricter) and is never followed by this check.
func (h *history) consistency(after record, w *gw, rc reportRec, s *schema) {
	if rc.Answer < 1 {
		return
	}
	if got := after.per[w.id][rc.Schema]; got != int64(rc.Answer) {
		h.dead = true
		h.viol("C07/"+h.sc("system")+"/record-differs-from-answer", fmt.Sprintf("schema %s: instance %s was answered %d but %d is on record", rc.Schema, w.id, rc.Answer, got), h.witness(nil))
	}
	// The recorded sum is an int32 field of the API type. With a limit at the top of that range the quotas on record can sum
	// to more than it can hold (limit fully allocated + the minimum quota 1 of further instances): then the only value that
	// still says the truth that matters ("everything is allocated") is the largest int32 - never a wrapped, negative one.
	want := after.sum[rc.Schema]
	if want > math.MaxInt32 {
		want = math.MaxInt32
		h.r.Count("sys_recorded_sums_beyond_int32", 1)
	}
	if after.status[rc.Schema] != want {
		h.dead = true
		sig := "C07/" + h.sc("system") + "/recorded-sum-wrong"
		if h.everBig {
			sig += "/int32-range"
		}
		if h.lapsing {
			sig += "/instance-lapsed-not-yet-reclaimed"
		}
		h.viol(sig, fmt.Sprintf("schema %s: the upstream state records an allocated sum of %d, the quotas on record sum to %d", rc.Schema, after.status[rc.Schema], after.sum[rc.Schema]), h.witness(nil))
	}
}

// reportConcurrently: every chosen instance reports once, all at the same time. The server serialises the reports in
// some order; for ANY order the statement implies  sum_after <= max(sum_before, limit) + #(new instances answered 1):
// while the sum is within the limit a step keeps it there unless it answers 1, and only a new instance's 1 adds to the sum
// (an existing honest instance has a quota >= 1 already); while the sum is above the limit nothing grows but such 1s.
func (h *history) reportConcurrently(ws []*gw, racingLimitChange ...bool) {
	before := readRecord(h.srv, h.upstream)
	// optionally the global limit of one schema changes WHILE the reports are in flight: every report is then answered
	// under the old or under the new limit, so an answer is legal if it is legal under either, and the sum is bounded by
	// the larger of the two limits
	var old *schema
	var pending *proxyv1alpha1.UpstreamCluster
	if len(racingLimitChange) > 0 && racingLimitChange[0] {
		h.deferApply = true
		h.changeLimit()
		h.deferApply = false
		old, pending = h.pendingOld, h.pending
		h.r.Count("sys_limit_changes_racing_with_reports", 1)
	}
	type job struct {
		w    *gw
		cond *proxyv1alpha1.RateLimitCondition
		recs []reportRec
	}
	jobs := make([]*job, len(ws))
	for i, w := range ws {
		c, rc := buildReport(h.upstream, w, h.schemas, h.g)
		jobs[i] = &job{w: w, cond: c, recs: rc}
	}
	start := make(chan struct{})
	var wg sync.WaitGroup
	for _, j := range jobs {
		wg.Add(1)
		go func(j *job) {
			defer wg.Done()
			<-start
			j.recs = h.send(j.w, j.cond, j.recs)
		}(j)
	}
	if pending != nil {
		wg.Add(1)
		go func() {
			defer wg.Done()
			<-start
			if err := h.srv.ApplyUpstream(pending); err != nil {
				h.r.Count("sys_report_errors", 1)
			}
		}()
	}
	close(start)
	wg.Wait()
	after := readRecord(h.srv, h.upstream)
	if h.vanished(before, after) {
		return
	}
	for _, j := range jobs {
		if h.returned[j.w.id] && j.recs != nil && after.per[j.w.id] == nil {
			h.dead = true
			h.r.Count("sys_return_record_removed_by_pending_cleanup", 1)
			return
		}
	}
	joins1 := map[string]int64{}
	var all []reportRec
	for _, j := range jobs {
		if j.recs == nil {
			continue
		}
		h.r.Count("sys_reports_concurrent", 1)
		for _, rc := range j.recs {
			all = append(all, rc)
			if before.per[j.w.id][rc.Schema] == 0 && rc.Answer == 1 {
				joins1[rc.Schema]++
			}
		}
	}
	sort.Slice(all, func(a, b int) bool { return all[a].Instance+all[a].Schema < all[b].Instance+all[b].Schema })
	for _, rc := range all {
		h.logf("concurrent report %s %s: previous=%d used=%d level=%d%s -> quota=%d burst=%d", rc.Instance, rc.Schema, rc.Previous, rc.Used, rc.Level, noStatus(rc), rc.Answer, rc.Burst)
		if rc.NoStatus && rc.Previous > 0 {
			h.r.Count("sys_quota_reported_without_status_entry", 1)
		}
	}
	for _, s0 := range h.schemas {
		s := h.schemaByName(s0.Name)
		h.logf("  batch of %d: sum on record %s %d -> %d, limit %d", len(ws), s.Name, before.sum[s.Name], after.sum[s.Name], s.Limit)
	}
	// A quota < 1 answered to one instance of the batch corrupts the sum the other answers were computed from; then only
	// the < 1 answers are reported (the rest of the batch would be consequences, not separate findings).
	below := false
	for _, rc := range all {
		if rc.Answer < 1 {
			below = true
		}
	}
	bad := false
	for _, j := range jobs {
		for _, rc := range j.recs {
			s := h.schemaByName(rc.Schema)
			cur := before.per[j.w.id][rc.Schema]
			h.classify(before, s, cur)
			fs := JudgeAnswer(s.kind(), int64(s.Limit), int64(s.Burst), int64(rc.Answer), int64(rc.Burst))
			if old != nil && old.Name == s.Name && len(fs) > 0 && len(JudgeAnswer(old.kind(), int64(old.Limit), int64(old.Burst), int64(rc.Answer), int64(rc.Burst))) == 0 {
				fs = nil // answered under the limit that was in force before the racing change
			}
			for _, f := range fs {
				bad = true
				if below && f.Inv != "answer-below-1" {
					continue
				}
				h.violate(f, before, s, cur, map[string]interface{}{"report": rc, "concurrent_batch": true})
			}
			if !below {
				h.consistency(after, j.w, rc, s)
			}
		}
	}
	if bad {
		h.dead = true
		return
	}
	for i := range h.schemas {
		s := &h.schemas[i]
		L := int64(s.Limit)
		if old != nil && old.Name == s.Name && int64(old.Limit) > L {
			L = int64(old.Limit)
		}
		bound := before.sum[s.Name]
		if bound < L {
			bound = L
		}
		bound += joins1[s.Name]
		if after.sum[s.Name] > bound {
			h.dead = true
			csig := fmt.Sprintf("C07/%s/overcommit/%s", h.sc("system-concurrent"), regime(before.sum[s.Name], L))
			if h.everBig {
				csig += "/int32-range"
			}
			h.viol(csig,
				fmt.Sprintf("schema %s (global limit %d): %d concurrent reports took the sum on record from %d to %d; no serial order of reports that each respect the limit can exceed %d (max(sum before, limit) + %d new instances answered the minimum 1)",
					s.Name, L, len(ws), before.sum[s.Name], after.sum[s.Name], bound, joins1[s.Name]), h.witness(nil))
		}
	}
}

func (h *history) changeLimit() {
	i := h.g.Intn(len(h.schemas))
	s := &h.schemas[i]
	oldSchema := *s
	rec := readRecord(h.srv, h.upstream)
	S := rec.sum[s.Name]
	old := int64(s.Limit)
	var nl int64
	switch h.g.Intn(12) {
	case 0:
		nl = old / 10
	case 1:
		nl = old / 4
	case 2:
		nl = old / 2
	case 3:
		nl = old * 9 / 10
	case 4:
		nl = old * 11 / 10
	case 5:
		nl = old * 2
	case 6:
		nl = old * 10
	case 7:
		nl = S
	case 8:
		nl = S - 1
	case 9:
		nl = S + 1
	case 10:
		nl = int64(len(h.gws))
	default:
		nl = 1
	}
	if nl < 1 {
		nl = 1
	}
	if cap := int64(10000000); nl > cap && old <= cap {
		nl = cap
	} else if nl > math.MaxInt32 {
		nl = math.MaxInt32 // a schema that starts in the int32 range may stay there
	}
	if nl == old {
		nl = old + 1
		if nl > math.MaxInt32 {
			nl = old - 1
		}
	}
	s.Limit = int32(nl)
	if s.TB {
		switch h.g.Intn(3) {
		case 0:
			s.Burst = s.Limit
		case 1:
			s.Burst = clamp32(2 * nl)
		case 2:
			if h.g.Bool() {
				s.Burst = []int32{1, clamp32(nl / 2)}[h.g.Intn(2)]
			}
		}
		if s.Burst < 1 {
			s.Burst = 1
		}
	}
	if nl < old {
		h.r.Count("sys_limit_lowered", 1)
		if nl < S {
			h.r.Count("sys_limit_lowered_below_sum", 1)
		}
	} else {
		h.r.Count("sys_limit_raised", 1)
	}
	if h.deferApply {
		h.pending, h.pendingOld = buildCluster(h.upstream, h.schemas), &oldSchema
		h.logf("limit of %s: %d -> %d (burst %d), delivered WHILE the next reports are being answered; sum on record %d", s.Name, old, nl, s.Burst, S)
		return
	}
	if err := h.srv.ApplyUpstream(buildCluster(h.upstream, h.schemas)); err != nil {
		h.r.Count("sys_report_errors", 1)
	}
	h.logf("limit of %s: %d -> %d (burst %d); sum on record %d", s.Name, old, nl, s.Burst, S)
}

// leave: the instance goes silent and the server's cleanup passes reclaim it.
func (h *history) leave() {
	if len(h.gws) < 2 {
		return
	}
	h.leaveAt(h.g.Intn(len(h.gws)))
}

// lapse: an instance's heartbeats stop reaching the server (its last heartbeat is more than the 3 s timeout old) but NO cleanup
// pass has run yet, so it is still on record with its quota - and it still holds that quota. The others keep reporting
// (twice each, so that a growth decided on the first report shows on record): every step is judged as usual on the quotas
// on record, the lapsed instance included. Then either its heartbeats come through again, or the cleanup passes reclaim it.
func (h *history) lapse() {
	if len(h.gws) < 2 {
		return
	}
	i := h.g.Intn(len(h.gws))
	w := h.gws[i]
	rec := readRecord(h.srv, h.upstream)
	if rec.per[w.id] == nil {
		return
	}
	h.heartbeatAll()
	h.srv.Handle.SetHeartbeat(w.id, time.Now().Add(-4*time.Second))
	h.r.Count("sys_lapses_before_any_cleanup", 1)
	h.logf("heartbeats of %s stop (last one 4 s old); no cleanup pass yet, it stays on record with %v", w.id, rec.per[w.id])
	h.lapsing = true
	defer func() { h.lapsing = false }()
	for round := 0; round < 2 && !h.dead; round++ {
		for _, k := range h.g.Perm(len(h.gws)) {
			if h.dead {
				break
			}
			if o := h.gws[k]; o != w {
				_ = h.srv.Limiter.Heartbeat(o.id)
				h.reportOne(o)
				h.r.Count("sys_reports_while_an_instance_is_lapsed", 1)
			}
		}
	}
	if h.dead {
		return
	}
	if h.g.Bool() {
		_ = h.srv.Limiter.Heartbeat(w.id)
		h.logf("heartbeats of %s come through again; it still holds its quota", w.id)
		return
	}
	h.lapsing = false
	for k, o := range h.gws {
		if o == w {
			h.leaveAt(k)
			return
		}
	}
}

func (h *history) leaveAt(i int) {
	w := h.gws[i]
	h.gws = append(h.gws[:i], h.gws[i+1:]...)
	h.heartbeatAll()
	before := readRecord(h.srv, h.upstream)
	h.srv.Handle.SetHeartbeat(w.id, time.Now().Add(-4*time.Second))
	h.srv.Handle.CleanupTimeoutClient()
	h.srv.Handle.CleanupUnknownCondition()
	// The timeout pass deletes from a goroutine; nothing is judged before it has ended (found by name in the goroutine dump).
	if !vkit.WaitFor(30*time.Second, noCleanupGoroutine) {
		h.dead = true
		h.r.Inconclusive("a cleanupTimeoutClient goroutine was still present 30 s after the pass")
		return
	}
	h.gone = append(h.gone, w)
	h.r.Count("sys_instances_reclaimed", 1)
	h.logf("instance %s silent, cleanup passes run", w.id)
	// Whether reclamation removes exactly the dead instance is C18's subject, not C07's. The model of this history (who
	// holds which quota on record) is only valid if it did; otherwise the history is abandoned, not judged on a wrong model.
	after := readRecord(h.srv, h.upstream)
	same := len(after.per) == len(before.per) || len(after.per) == len(before.per)-1
	if _, still := after.per[w.id]; still {
		same = false
	}
	for id, m := range before.per {
		if id == w.id {
			continue
		}
		am, ok := after.per[id]
		if !ok || len(am) != len(m) {
			same = false
			break
		}
		for k, v := range m {
			if am[k] != v {
				same = false
			}
		}
	}
	for id := range after.per {
		if _, ok := before.per[id]; !ok {
			same = false
		}
	}
	if !same {
		h.dead = true
		h.r.Count("histories_abandoned_store_differs_from_model_after_cleanup", 1)
		return
	}
	h.r.Count("sys_reclaim_steps_usable", 1)
}

var stackBuf = sync.Pool{New: func() interface{} { b := make([]byte, 1<<20); return &b }}

// noCleanupGoroutine reports whether no goroutine started by rateLimiter.cleanupTimeoutClient exists in the process right now.
func noCleanupGoroutine() bool {
	bp := stackBuf.Get().(*[]byte)
	defer stackBuf.Put(bp)
	for {
		n := runtime.Stack(*bp, true)
		if n < len(*bp) {
			return !bytes.Contains((*bp)[:n], []byte("cleanupTimeoutClient.func"))
		}
		*bp = make([]byte, 2*len(*bp))
	}
}

// comeBack: an instance that was reclaimed while silent (e.g. cut off from the limiter for more than the heartbeat timeout;
// a gateway keeps its identity and its last quota through that) heartbeats again and reports the quota it holds. It is not
// on record any more, so (I2) reads: sum on record within the limit before => within the limit after, unless answered 1.
func (h *history) comeBack() {
	if len(h.gone) == 0 || len(h.gws) >= 12 {
		return
	}
	i := h.g.Intn(len(h.gone))
	w := h.gone[i]
	h.gone = append(h.gone[:i], h.gone[i+1:]...)
	h.gws = append(h.gws, w)
	if h.returned == nil {
		h.returned = map[string]bool{}
	}
	h.returned[w.id] = true
	_ = h.srv.Limiter.Heartbeat(w.id)
	h.logf("instance %s is back with the quotas it held", w.id)
	if rec := readRecord(h.srv, h.upstream); rec.per[w.id] != nil {
		return // not reclaimed after all; nothing special about it
	}
	h.r.Count("sys_returns", 1)
	h.reportOne(w)
}

// vanished: the cleanup pass that reclaimed an identity deletes its conditions from a goroutine that may still be pending
// when the same identity is back; it then removes the fresh record (by name). Such a step has no defined "sum before" and
// is not judged here (C18 is the property about reclamation); the history ends.
func (h *history) vanished(before, after record) bool {
	for id := range h.returned {
		if before.per[id] != nil && after.per[id] == nil {
			h.dead = true
			h.r.Count("sys_return_record_removed_by_pending_cleanup", 1)
			return true
		}
	}
	return false
}

func (h *history) run() {
	nOps := h.g.Range(10, 28)
	for op := 0; op < nOps && !h.dead; op++ {
		switch x := h.g.Intn(100); {
		case x < 28:
			for _, k := range h.g.Perm(len(h.gws)) {
				if h.dead {
					break
				}
				h.reportOne(h.gws[k])
			}
		case x < 50:
			h.reportOne(h.gws[h.g.Intn(len(h.gws))])
		case x < 76:
			ws := append([]*gw(nil), h.gws...)
			if h.g.Chance(0.3) && len(ws) > 2 {
				p := h.g.Perm(len(ws))
				k := h.g.Range(2, len(ws))
				sub := make([]*gw, 0, k)
				for _, idx := range p[:k] {
					sub = append(sub, ws[idx])
				}
				ws = sub
			}
			h.reportConcurrently(ws, h.g.Chance(0.25))
		case x < 82:
			h.changeLimit()
		case x < 84:
			h.changeBurstOnly()
		case x < 85:
			h.reinit()
		case x < 86:
			h.rejectedReport()
		case x < 87:
			h.schemaRemovedAndReAdded()
		case x < 88:
			h.otherUpstreamTraffic()
		case x < 92:
			if len(h.gws) < 12 {
				h.join()
			}
		case x < 95:
			h.leave()
		case x < 97:
			h.lapse()
		default:
			h.comeBack()
		}
	}
}

func system(r *vkit.R) {
	n := r.N(900, 20000)
	if vkit.Instrumented() {
		vkit.Sched.Enable(uint64(r.Seed), 0.05, 0.02, 0.001)
		defer vkit.Sched.Disable()
	}
	r.Parallel(n, 16, func(i int, g *vkit.Rand) {
		h := &history{r: r, g: g, upstream: fmt.Sprintf("up%d", i), scenario: "system", realIDs: i%4 == 1}
		o := bed.LimiterOptions{LeadAll: true, Shards: 1 + i%3}
		if i%6 == 4 { // the API-backed store, write-through (every save goes to the API and a COPY of what the API returns is kept)
			o.Store, o.GatewayClient = "k8s", gatewayfake.NewSimpleClientset()
			h.apiStore = true
			r.Count("sys_histories_on_the_api_backed_store", 1)
		}
		h.srv = bed.NewLimiterServer(o)
		h.scenario = h.sc("system")
		if i%5 == 3 { // the reports of this history go over HTTP, through the dispatcher the limiter server mounts
			h.front = httptest.NewServer(dispather.WithLimiterDispatcher(http.NotFoundHandler(), h.srv.Limiter))
			defer h.front.Close()
			h.realIDs = false // plain identities: what a condition name may look like in a URL path is not this property's subject
			r.Count("sys_histories_over_http", 1)
			h.scenario = h.sc("system")
		}
		if h.realIDs {
			r.Count("sys_histories_with_realistic_identities", 1)
		}
		ns := g.PickInt([]int{1, 1, 2, 2, 3, 4})
		for k := 0; k < ns; k++ {
			s := schema{Name: fmt.Sprintf("s%d", k), TB: g.Bool()}
			s.Limit = g.PickI32([]int32{1, 3, 10, 12, 50, 100, 500, 1000, 1000, 3000, 10000, 100000})
			if g.Chance(0.08) { // limits over the whole int32 range (the property quantifies over every global limit)
				s.Limit = g.PickI32([]int32{1 << 29, 1000000000, 1<<30 + 1, 2000000000, math.MaxInt32 - 1, math.MaxInt32})
				r.Count("sys_schemas_with_limit_near_int32_range", 1)
				if s.Limit > 1<<30 {
					r.Count("sys_schemas_with_limit_above_2_pow_30", 1)
					h.everBig = true
				}
			}
			if s.TB {
				s.Burst = clamp32(int64(s.Limit) * int64(g.Range(1, 2)))
				if g.Chance(0.25) {
					s.Burst = []int32{1, clamp32(int64(s.Limit)/2 + 1)}[g.Intn(2)] // a global burst below the global qps
				}
			}
			h.schemas = append(h.schemas, s)
		}
		// the same server also serves a second upstream, with its own schemas of the same names
		h.other = h.upstream + "-other"
		if err := h.srv.ApplyUpstream(buildCluster(h.other, []schema{{Name: "s0", Limit: 40}, {Name: "s1", TB: true, Limit: 400, Burst: 400}})); err != nil {
			r.Inconclusive("ApplyUpstream failed: " + err.Error())
			return
		}
		if g.Chance(0.3) { // many gateways heartbeat to this server, only some use this upstream (client count > 10)
			for k, ne := 0, g.Range(6, 15); k < ne; k++ {
				id := fmt.Sprintf("other-gw-%d", k)
				h.extras = append(h.extras, id)
				_ = h.srv.Limiter.Heartbeat(id)
			}
			r.Count("sys_histories_with_more_than_10_clients", 1)
		}
		// the upstream is registered before anything concurrent happens (rateLimiter.upstreamLock is an unsynchronised map)
		if err := h.srv.ApplyUpstream(buildCluster(h.upstream, h.schemas)); err != nil {
			r.Inconclusive("ApplyUpstream failed: " + err.Error())
			return
		}
		h.logf("upstream %s: %+v", h.upstream, h.schemas)
		n0 := g.Range(1, 8)
		for k := 0; k < n0; k++ {
			h.join()
		}
		h.run()
		r.Eval(1)
		r.Count("sys_histories", 1)
		if h.nontriv {
			r.Distinct(vkit.Hash64(strings.Join(h.trace, "\n")))
		}
		if i < 2 {
			tr := h.trace
			if len(tr) > 25 {
				tr = tr[:25]
			}
			r.Sample(map[string]interface{}{"kind": "history", "trace_head": tr})
		}
	})
}
