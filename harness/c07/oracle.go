// Package c07 checks property C07 (global allocation: quotas never over-commit the global limit and are never < 1).
//
// The oracle is written from the property statement only:
//
//	(I1) every quota answered is >= 1 and <= the global limit;
//	(I2) if the quotas on record sum to at most the limit before a report is answered, they sum to at most the limit after
//	     it, unless the answer is the minimum quota 1 ("an instance held at the minimum quota of 1 aside");
//	(I3) if the quotas on record exceed the limit (e.g. the limit was lowered), the answer does not grow the instance's
//	     quota; because (I1) forces >= 1 a new instance (previous quota 0) may still be answered 1: next <= max(current, 1);
//	(I4) a token-bucket burst never exceeds the global burst and is the quota's share of it:
//	     burst within rounding of next/limit*globalBurst (float rounding tolerated: floor(x) <= burst <= ceil(x)+1).
//
// Nothing is demanded about WHICH value inside these bounds is answered (growth/shrink policy, thresholds, fairness).
package c07

import (
	"fmt"
	"math"
	"strings"
)

// Case is one report as the allocation arithmetic sees it.
type Case struct {
	Kind        string `json:"kind"` // maxInflight | tokenBucket
	Total       int32  `json:"globalLimit"`
	GlobalBurst int32  `json:"globalBurst,omitempty"`
	Allocated   int32  `json:"sumOnRecord"` // includes Current when the instance is on record
	GlobalLevel int32  `json:"globalRequestLevel"`
	Current     int32  `json:"previousQuota"` // 0 = new instance
	Used        int32  `json:"used"`
	Level       int32  `json:"requestLevel"`
	Clients     int    `json:"instances"`
}

// Finding is one broken invariant: Inv is the low-cardinality class used in signatures.
type Finding struct {
	Inv  string
	What string
}

func regime(sumBefore, limit int64) string {
	if sumBefore > limit {
		return "sum-above-limit"
	}
	return "sum-within-limit"
}

func instClass(current int64) string {
	if current <= 0 {
		return "new-instance"
	}
	return "existing-instance"
}

// JudgeAnswer checks (I1) and (I4) on one answered quota.
func JudgeAnswer(kind string, limit, globalBurst, next, burst int64) []Finding {
	var out []Finding
	if next < 1 {
		return []Finding{{"answer-below-1", fmt.Sprintf("quota answered is %d (< 1)", next)}}
	}
	if next > limit {
		out = append(out, Finding{"answer-above-limit", fmt.Sprintf("quota answered %d exceeds the global limit %d", next, limit)})
	}
	if kind == "tokenBucket" {
		if burst > globalBurst {
			out = append(out, Finding{"burst-above-global", fmt.Sprintf("burst answered %d exceeds the global burst %d (quota %d of %d)", burst, globalBurst, next, limit)})
		} else if next <= limit {
			x := float64(next) * float64(globalBurst) / float64(limit)
			if float64(burst) < math.Floor(x) || float64(burst) > math.Ceil(x)+1 {
				out = append(out, Finding{"burst-not-scaled", fmt.Sprintf("burst answered %d is not quota/limit*globalBurst = %d/%d*%d = %.2f", burst, next, limit, globalBurst, x)})
			}
		}
	}
	return out
}

// JudgeStep checks (I2) and (I3) for one report answered in isolation: sumBefore/sumAfter are the sums on record right
// before and right after it, current the instance's quota on record before (0 = none), next the answer.
func JudgeStep(limit, sumBefore, sumAfter, current, next int64) []Finding {
	if next < 1 {
		return nil // already reported by JudgeAnswer; the sums are meaningless with a non-positive quota
	}
	var out []Finding
	if sumBefore <= limit {
		if sumAfter > limit && next != 1 {
			out = append(out, Finding{"overcommit", fmt.Sprintf("sum on record was %d <= limit %d before the report and is %d after it (quota %d -> %d)", sumBefore, limit, sumAfter, current, next)})
		}
	} else {
		floor := current
		if floor < 1 {
			floor = 1
		}
		if next > floor {
			out = append(out, Finding{"growth-while-overcommitted", fmt.Sprintf("sum on record %d exceeds the limit %d, yet the quota grew %d -> %d", sumBefore, limit, current, next)})
		}
	}
	return out
}

// Judge applies all invariants to one arithmetic case.
func Judge(c Case, next, burst int32) []Finding {
	out := JudgeAnswer(c.Kind, int64(c.Total), int64(c.GlobalBurst), int64(next), int64(burst))
	sumAfter := int64(c.Allocated) - int64(c.Current) + int64(next)
	out = append(out, JudgeStep(int64(c.Total), int64(c.Allocated), sumAfter, int64(c.Current), int64(next))...)
	return out
}

// Sig builds the signature of a finding: scenario class (arith | system | system-concurrent), broken invariant, whether the
// sum on record was within the limit, and whether the instance was new. The value answered is deliberately not part of it.
func Sig(scenario string, f Finding, sumBefore, limit, current int64) string {
	if strings.HasPrefix(f.Inv, "burst-") {
		return fmt.Sprintf("C07/%s/%s", scenario, f.Inv) // the burst rule does not depend on the sums
	}
	return fmt.Sprintf("C07/%s/%s/%s/%s", scenario, f.Inv, regime(sumBefore, limit), instClass(current))
}
