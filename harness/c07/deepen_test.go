package c07

import (
	"fmt"

	proxyv1alpha1 "github.com/kubewharf/kubegateway/pkg/apis/proxy/v1alpha1"
	"github.com/kubewharf/kubegateway/pkg/ratelimiter/util"

	"verifharness/bed"
	"verifharness/vkit"
)

// reinit: the server's record of the upstream starts over while the instances keep the quotas they hold - the upstream is
// deleted and created again under the same name, or the server loses and regains the leadership of the shard (a new, empty
// local store). Every instance then reports, claiming its quota: the claims are not on record, so each report is judged
// like the one of an instance coming back after it was reclaimed (scenario class system-return).
func (h *history) reinit() {
	how := []string{"upstream-recreated", "leader-restart"}[h.g.Intn(2)]
	switch how {
	case "upstream-recreated":
		if err := h.srv.DeleteUpstream(h.upstream); err != nil {
			h.r.Count("sys_report_errors", 1)
		}
		if err := h.srv.ApplyUpstream(buildCluster(h.upstream, h.schemas)); err != nil {
			h.r.Count("sys_report_errors", 1)
		}
	default:
		sh := util.GetShardID(h.upstream, h.srv.Shards)
		h.srv.Elector.Lose(sh, "")
		h.srv.Elector.Gain(sh)
	}
	h.r.Count("sys_reinit_"+how, 1)
	h.heartbeatAll()
	rec := readRecord(h.srv, h.upstream)
	// premise of what follows: the record starts over (a new local store / a re-created upstream is empty; the API-backed store
	// re-loads exactly the instances' conditions). If the store says otherwise the model has nothing to stand on.
	if (!h.apiStore || how == "upstream-recreated") && len(rec.per) > 0 {
		h.dead = true
		h.r.Count("reinit_premise_not_met", 1)
		bed.MarkPremiseBroken()
		h.logf("%s: the record did NOT start over (%d instances on record): history abandoned", how, len(rec.per))
		return
	}
	h.logf("%s: the instances keep their quotas, on record now: %d instance(s)", how, len(rec.per))
	for round := 0; round < 2 && !h.dead; round++ {
		for _, k := range h.g.Perm(len(h.gws)) {
			if h.dead {
				break
			}
			if round == 0 && len(h.gws[k].quota) > 0 {
				h.r.Count("sys_reports_claiming_quota_after_reinit", 1)
			}
			h.reportOne(h.gws[k])
		}
	}
}

// rejectedReport: a report the server refuses - the instance still describes a schema with the type it had before the cluster
// changed it (max-in-flight <-> token bucket), or it reports for an upstream the server does not know. Whatever the answer,
// the statement's rule for the sums holds: within the limit before => within the limit after; above => not larger.
func (h *history) rejectedReport() {
	if len(h.gws) == 0 {
		return
	}
	w := h.gws[h.g.Intn(len(h.gws))]
	before := readRecord(h.srv, h.upstream)
	cond, _ := buildReport(h.upstream, w, h.schemas, h.g)
	up := h.upstream
	what := ""
	if h.g.Bool() && len(cond.Spec.LimitItemConfigurations) > 0 {
		k := h.g.Intn(len(cond.Spec.LimitItemConfigurations))
		it := &cond.Spec.LimitItemConfigurations[k]
		q, b, ok := quotaOf(it.LimitItemDetail)
		if !ok {
			q, b = 5, 5
		}
		if it.MaxRequestsInflight != nil || (!ok && h.schemaByName(it.Name) != nil && !h.schemaByName(it.Name).TB) {
			it.LimitItemDetail = proxyv1alpha1.LimitItemDetail{TokenBucket: &proxyv1alpha1.TokenBucketFlowControlSchema{QPS: q, Burst: q}}
		} else {
			it.LimitItemDetail = proxyv1alpha1.LimitItemDetail{MaxRequestsInflight: &proxyv1alpha1.MaxRequestsInflightFlowControlSchema{Max: q}}
		}
		_ = b
		what = "schema " + it.Name + " described with the other flow-control type"
	} else {
		up = h.upstream + "-unknown"
		cond.Spec.UpstreamCluster = up
		cond.Name = util.GenerateRateLimitConditionName(up, w.id)
		what = "upstream " + up + " is not known to the server"
	}
	var err error
	p := vkit.Safely(func() { _, err = h.srv.Limiter.UpdateRateLimitConditionStatus(up, cond) })
	h.r.Count("sys_rejected_reports", 1)
	if err == nil && p == nil {
		h.r.Count("sys_rejected_reports_answered_without_error", 1)
	}
	h.logf("report of %s with %s: err=%v panic=%v", w.id, what, err, p)
	if p != nil {
		h.dead = true
		h.viol("C07/system/panic/rejected-report", fmt.Sprintf("UpdateRateLimitConditionStatus panicked on a report with %s: %v", what, p), h.witness(nil))
		return
	}
	after := readRecord(h.srv, h.upstream)
	for i := range h.schemas {
		s := &h.schemas[i]
		sb, sa, L := before.sum[s.Name], after.sum[s.Name], int64(s.Limit)
		if (sb <= L && sa > L) || (sb > L && sa > sb) {
			h.dead = true
			h.viol("C07/system/rejected-report/overcommit/"+regime(sb, L),
				fmt.Sprintf("schema %s (global limit %d): a report with %s (answered err=%v) took the sum on record from %d to %d", s.Name, L, what, err, sb, sa), h.witness(nil))
			return
		}
	}
	if err == nil {
		// the server accepted it after all: the instance now holds what is on record for it
		h.dead = true // the model of what the instance holds is not defined by the statement here; stop without a verdict
		h.r.Count("histories_stopped_after_an_unexpectedly_accepted_report", 1)
	}
}

// schemaRemovedAndReAdded: a schema disappears from the cluster and comes back under the same name. A gateway drops the
// limiter (and the quota) of a schema that is gone, so all instances start over on it as new instances, while the conditions
// on record still list what they were answered before - the record, not the claim, is what the sums are judged on.
func (h *history) schemaRemovedAndReAdded() {
	if len(h.schemas) < 2 {
		return
	}
	k := h.g.Intn(len(h.schemas))
	gone := h.schemas[k]
	var rest []schema
	for i, s := range h.schemas {
		if i != k {
			rest = append(rest, s)
		}
	}
	if err := h.srv.ApplyUpstream(buildCluster(h.upstream, rest)); err != nil {
		h.r.Count("sys_report_errors", 1)
	}
	for _, w := range h.gws {
		delete(w.quota, gone.Name)
	}
	for _, w := range h.gone {
		delete(w.quota, gone.Name)
	}
	h.logf("schema %s removed from the cluster", gone.Name)
	// every instance reports while it is gone (gateways report every 2 s): the answers, and with them the conditions on
	// record, leave the schema out, so nothing stale is on record when it comes back
	saved := h.schemas
	h.schemas = rest
	for _, i := range h.g.Perm(len(h.gws)) {
		if h.dead {
			break
		}
		h.reportOne(h.gws[i])
	}
	h.schemas = saved
	if h.dead {
		return
	}
	if err := h.srv.ApplyUpstream(buildCluster(h.upstream, h.schemas)); err != nil {
		h.r.Count("sys_report_errors", 1)
	}
	h.r.Count("sys_schema_removed_and_readded", 1)
	h.logf("schema %s added again (limit %d)", gone.Name, gone.Limit)
	for _, i := range h.g.Perm(len(h.gws)) {
		if h.dead {
			break
		}
		h.reportOne(h.gws[i])
	}
}

// otherUpstreamTraffic: the same instances report to the second upstream of the server (not judged itself); the sums of the
// judged upstream obey the same rule as for any step: not pushed over the limit, not grown while above it.
func (h *history) otherUpstreamTraffic() {
	before := readRecord(h.srv, h.upstream)
	ss := []schema{{Name: "s0", Limit: 40}, {Name: "s1", TB: true, Limit: 400, Burst: 400}}
	for _, w := range h.gws {
		o := &gw{id: w.id, quota: map[string]proxyv1alpha1.LimitItemDetail{}, demand: map[string]float64{"s0": 0.3, "s1": 1}}
		for round := 0; round < 2; round++ {
			cond, recs := buildReport(h.other, o, ss, h.g)
			var ans *proxyv1alpha1.RateLimitCondition
			var err error
			if p := vkit.Safely(func() { ans, err = h.srv.Limiter.UpdateRateLimitConditionStatus(h.other, cond) }); p != nil || err != nil || ans == nil {
				h.r.Count("sys_report_errors", 1)
				continue
			}
			for _, it := range ans.Spec.LimitItemConfigurations {
				o.quota[it.Name] = *it.LimitItemDetail.DeepCopy()
			}
			_ = recs
			h.r.Count("sys_other_upstream_reports", 1)
		}
	}
	after := readRecord(h.srv, h.upstream)
	h.logf("%d instances reported twice to the second upstream %s", len(h.gws), h.other)
	for i := range h.schemas {
		s := &h.schemas[i]
		sb, sa, L := before.sum[s.Name], after.sum[s.Name], int64(s.Limit)
		if (sb <= L && sa > L) || (sb > L && sa > sb) {
			h.dead = true
			h.viol("C07/system/other-upstream/overcommit/"+regime(sb, L),
				fmt.Sprintf("schema %s of %s (global limit %d): reports of the same instances to ANOTHER upstream (%s) took its sum on record from %d to %d", s.Name, h.upstream, L, h.other, sb, sa), h.witness(nil))
			return
		}
	}
}

// changeBurstOnly: the global BURST of a token-bucket schema changes while its qps stays what it is (also: the cluster object
// is delivered again unchanged, as every edit of servers / policies / certificates does). Every instance then reports twice;
// the answers are judged as always - the burst answered is the quota's share of the global burst NOW in force.
func (h *history) changeBurstOnly() {
	var tbs []int
	for i, s := range h.schemas {
		if s.TB {
			tbs = append(tbs, i)
		}
	}
	if len(tbs) == 0 {
		return
	}
	s := &h.schemas[tbs[h.g.Intn(len(tbs))]]
	old := s.Burst
	nb := []int64{1, int64(old) / 2, int64(old) - 1, int64(old) + 1, int64(s.Limit), 2 * int64(s.Limit), int64(s.Limit) / 2, int64(old)}[h.g.Intn(8)]
	if nb < 1 {
		nb = 1
	}
	s.Burst = clamp32(nb)
	h.r.Count("sys_burst_only_changes", 1)
	switch {
	case s.Burst < old:
		h.r.Count("sys_burst_only_lowered", 1)
	case s.Burst == old:
		h.r.Count("sys_cluster_redelivered_unchanged", 1)
	}
	if err := h.srv.ApplyUpstream(buildCluster(h.upstream, h.schemas)); err != nil {
		h.r.Count("sys_report_errors", 1)
	}
	h.logf("global burst of %s: %d -> %d (qps stays %d)", s.Name, old, s.Burst, s.Limit)
	for round := 0; round < 2 && !h.dead; round++ {
		for _, k := range h.g.Perm(len(h.gws)) {
			if h.dead {
				break
			}
			h.reportOne(h.gws[k])
			h.r.Count("sys_token_bucket_answers_after_burst_only_change", 1)
		}
	}
}
