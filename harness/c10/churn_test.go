package c10

import (
	"crypto/tls"
	"fmt"
	"runtime"
	"strings"
	"sync"
	"sync/atomic"
	"time"

	"k8s.io/apiserver/pkg/authentication/user"

	gatewaynet "github.com/kubewharf/kubegateway/pkg/gateway/net"

	"verifharness/bed"
	"verifharness/vkit"
)

// namesUnderUpdate: "at every moment": while the controller applies updates that change a cluster's server-name list, the
// names the cluster KEEPS across the update in flight (its own name included) and the names of an untouched cluster must
// resolve to their cluster at every moment. Resolver goroutines hammer the production resolution paths (Manager.Get behind
// HostWithoutPort in case/port variants, WrapGetConfigForClient, a request through the handler chain) while the main
// goroutine applies a fixed number of updates. For the names an update adds or removes only before-or-after is demanded
// (the cluster or nobody, never another cluster).
func namesUnderUpdate(r *vkit.R) {
	initMaterial()
	nUpdates := r.N(2000, 20000)
	g := r.Rng.Fork("names-under-update")

	gw := bed.NewGateway(bed.GatewayOptions{})
	defer gw.Close()
	stubA, stubB := bed.NewStub("alpha"), bed.NewStub("beta")
	defer stubA.Close()
	defer stubB.Close()
	token := gw.Tokens.Add(&user.DefaultInfo{Name: "c10-churn", Groups: []string{"system:authenticated"}})

	kept := []string{"keep-1.io", "Keep-2.IO", "keep-3.example.com", "keep-4.local", "keep-5"}
	volatile := []string{"x.io", "Y.io", "shared.Example.COM", "api.k8s.local", "tenant-1", "edge"}
	var certVar int32 = 1 // alpha's serving certificate is rotated in place while the resolvers run
	build := func(vol []string, shuffle bool) (*ObjSpec, []string) {
		names := append(append([]string{}, kept...), vol...)
		if shuffle {
			g.Shuffle(names)
		}
		return &ObjSpec{Cluster: "alpha", Names: names, Cert: int(atomic.LoadInt32(&certVar)), CA: 1}, names
	}
	o, _ := build(nil, false)
	if sr := gw.Apply(buildObject(o, stubA.URL)); sr.Requeue || sr.Err != nil || sr.Panic != nil {
		r.Inconclusive(fmt.Sprintf("names-under-update: cluster alpha not applied: %+v", sr))
		return
	}
	ob := &ObjSpec{Cluster: "beta", Names: []string{"beta-alias.io"}, Cert: 2, CA: 2}
	if sr := gw.Apply(buildObject(ob, stubB.URL)); sr.Requeue || sr.Err != nil || sr.Panic != nil {
		r.Inconclusive(fmt.Sprintf("names-under-update: cluster beta not applied: %+v", sr))
		return
	}
	if !gw.WaitReady("alpha", stubA.URL, true, 20*time.Second) || !gw.WaitReady("beta", stubB.URL, true, 20*time.Second) {
		r.Inconclusive("names-under-update: stub endpoints did not become ready within the 20s watchdog")
		return
	}
	base := &tls.Config{MinVersion: tls.VersionTLS12}
	wrap := gw.Ctrl.WrapGetConfigForClient(func(*tls.ClientHelloInfo) (*tls.Config, error) { return base, nil })

	// what must hold at every moment: host string -> cluster
	type must struct{ host, cluster, class string }
	var musts []must
	for _, n := range append([]string{"alpha"}, kept...) {
		for _, v := range variantsOf(strings.ToLower(n)) {
			musts = append(musts, must{v.Host, "alpha", v.Class})
		}
	}
	for _, n := range []string{"beta", "beta-alias.io"} {
		for _, v := range variantsOf(n) {
			musts = append(musts, must{v.Host, "beta", v.Class})
		}
	}
	var volHosts []string
	for _, n := range volatile {
		volHosts = append(volHosts, strings.ToLower(n), strings.ToUpper(n)+":443")
	}
	volHosts = append(volHosts, "gamma", "GAMMA:6443", "gamma-alias.io")

	var stop int32
	var lookups, getconfigs, chainReqs int64
	var updateNo int64
	var wg sync.WaitGroup
	var once sync.Map
	report := func(sig, what string, x map[string]interface{}) {
		if _, dup := once.LoadOrStore(sig, true); dup {
			r.Violation(sig, what, nil)
			return
		}
		r.Violation(sig, what, x)
	}
	workers := runtime.GOMAXPROCS(0) / 2
	if workers < 3 {
		workers = 3
	}
	if workers > 6 {
		workers = 6
	}
	for wkr := 0; wkr < workers; wkr++ {
		wkr := wkr
		wg.Add(1)
		go func() {
			defer wg.Done()
			k := wkr
			for atomic.LoadInt32(&stop) == 0 {
				k++
				m := musts[k%len(musts)]
				switch {
				case wkr == 0 && k%4 == 0: // a request through the handler chain (exact / case / port variants)
					rec := gw.Serve(bed.NewRequest("GET", m.host, "/api/v1/namespaces/default/pods", token, fmt.Sprintf("c10u-%d", k), nil))
					atomic.AddInt64(&chainReqs, 1)
					if served := rec.Header().Get("X-Verif-Stub"); served != m.cluster {
						report("C10/names-under-update/kept-name-not-served/chain", fmt.Sprintf("during update #%d a request with Host %q (a name cluster %q has before and after the update) got status %d, served by %q: %.100s",
							atomic.LoadInt64(&updateNo), m.host, m.cluster, rec.Code, served, rec.Body.String()), map[string]interface{}{"host": m.host, "status": rec.Code})
					}
				case wkr == 1 && k%2 == 0 && !strings.Contains(m.host, ":"): // TLS config chosen by SNI
					cfg, err := wrap(&tls.ClientHelloInfo{ServerName: m.host})
					atomic.AddInt64(&getconfigs, 1)
					id := "base"
					if err == nil && cfg != nil && len(cfg.Certificates) > 0 {
						id = whichCert(cfg.Certificates[0].Certificate[0])
					}
					want := map[string]string{"alpha": "alpha/1", "beta": "beta/2"}[m.cluster]
					// alpha's certificate is being rotated between variants 1 and 2: before-or-after, never the base / another one
					if id != want && !(m.cluster == "alpha" && id == "alpha/2") {
						report("C10/names-under-update/kept-name-gets-other-certificate/getconfig", fmt.Sprintf("during update #%d GetConfigForClient(SNI %q), a name cluster %q has before and after the update, returned certificate %s instead of %s",
							atomic.LoadInt64(&updateNo), m.host, m.cluster, id, want), map[string]interface{}{"sni": m.host, "certificate": id})
					}
				default:
					ci, ok := gw.Ctrl.Get(gatewaynet.HostWithoutPort(m.host))
					atomic.AddInt64(&lookups, 1)
					if !ok || ci == nil {
						report("C10/names-under-update/kept-name-does-not-resolve", fmt.Sprintf("during update #%d host %q, a name cluster %q has before and after the update, did not resolve",
							atomic.LoadInt64(&updateNo), m.host, m.cluster), map[string]interface{}{"host": m.host})
					} else if ci.Cluster != m.cluster {
						report("C10/names-under-update/kept-name-resolves-to-other-cluster", fmt.Sprintf("during update #%d host %q of cluster %q resolved to %q", atomic.LoadInt64(&updateNo), m.host, m.cluster, ci.Cluster), map[string]interface{}{"host": m.host})
					}
					if k%8 == 0 { // a name that updates add and remove: the cluster or nobody
						h := volHosts[(k/8)%len(volHosts)]
						allowed := "alpha"
						if strings.HasPrefix(strings.ToLower(h), "gamma") {
							allowed = "gamma" // the third cluster is deleted and created again all the time
						}
						if ci, ok := gw.Ctrl.Get(gatewaynet.HostWithoutPort(h)); ok && ci != nil && ci.Cluster != allowed {
							report("C10/names-under-update/volatile-name-resolves-to-other-cluster", fmt.Sprintf("host %q resolved to %q", h, ci.Cluster), map[string]interface{}{"host": h})
						}
					}
				}
			}
		}()
	}

	overlapped, rotations, gammaToggles := 0, 0, 0
	gammaLive := false
	prev := ""
	for u := 1; u <= nUpdates; u++ {
		var vol []string
		for {
			vol = vol[:0]
			for _, n := range volatile {
				if g.Bool() {
					vol = append(vol, randCase(g, n))
				}
			}
			if key := strings.ToLower(strings.Join(vol, ",")); key != prev {
				prev = key
				break
			}
		}
		if u%7 == 0 {
			atomic.StoreInt32(&certVar, 3-atomic.LoadInt32(&certVar))
			rotations++
		}
		if u%5 == 0 {
			// a third cluster is created / deleted next to the one being updated
			if gammaLive {
				gw.Delete("gamma")
			} else if sr := gw.Apply(buildObject(&ObjSpec{Cluster: "gamma", Names: []string{"Gamma-Alias.io"}, Cert: 1, CA: 2}, stubB.URL)); sr.Requeue || sr.Err != nil || sr.Panic != nil {
				atomic.StoreInt32(&stop, 1)
				wg.Wait()
				r.Inconclusive(fmt.Sprintf("names-under-update: third cluster not applied: %+v", sr))
				return
			}
			gammaLive = !gammaLive
			gammaToggles++
		}
		o, _ := build(vol, g.Chance(0.5))
		obj := buildObject(o, stubA.URL)
		atomic.StoreInt64(&updateNo, int64(u))
		before := atomic.LoadInt64(&lookups) + atomic.LoadInt64(&getconfigs) + atomic.LoadInt64(&chainReqs)
		sr := gw.Apply(obj)
		if after := atomic.LoadInt64(&lookups) + atomic.LoadInt64(&getconfigs) + atomic.LoadInt64(&chainReqs); after > before {
			overlapped++
		}
		if sr.Requeue || sr.Err != nil || sr.Panic != nil {
			atomic.StoreInt32(&stop, 1)
			wg.Wait()
			r.Inconclusive(fmt.Sprintf("names-under-update: update #%d was not applied: %+v", u, sr))
			return
		}
		if u%16 == 0 {
			runtime.Gosched()
		}
	}
	atomic.StoreInt32(&stop, 1)
	wg.Wait()
	r.Eval(nUpdates)
	r.Count("names_under_update_updates", nUpdates)
	r.Count("names_under_update_updates_overlapped_by_lookups", overlapped)
	r.Count("names_under_update_certificate_rotations", rotations)
	r.Count("names_under_update_third_cluster_created_or_deleted", gammaToggles)
	r.Count("names_under_update_lookups", int(atomic.LoadInt64(&lookups)))
	r.Count("names_under_update_getconfig_calls", int(atomic.LoadInt64(&getconfigs)))
	r.Count("names_under_update_chain_requests", int(atomic.LoadInt64(&chainReqs)))
	r.Require(overlapped >= nUpdates/2, "names-under-update: fewer than half of the updates had a lookup completing while they were applied")
	r.Require(atomic.LoadInt64(&lookups) >= int64(nUpdates*20) && atomic.LoadInt64(&getconfigs) >= int64(nUpdates) && atomic.LoadInt64(&chainReqs) >= int64(nUpdates/4),
		"names-under-update: too few concurrent lookups / GetConfigForClient calls / chain requests")
}
