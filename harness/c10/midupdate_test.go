package c10

import (
	"bytes"
	"flag"
	"fmt"
	"runtime"
	"strconv"
	"sync"

	"k8s.io/klog"
)

// "At every moment": the intermediate states of ONE update are observed deterministically. The cluster manager writes a
// log line (verbosity 1) for every single name it registers or releases; the log sink is owned by the harness, and klog
// calls it synchronously in the goroutine that is inside the controller. So the sink is a schedule point between the
// individual name operations of AddOrUpdateForServerNames / DeleteForServerNames: at each such point every base name is
// resolved and must be in its state before the event or in its state after it (before-or-after, per name); a name the
// event does not touch - every name of the other clusters and every name the subject keeps - must not change at all.

type midState struct {
	subject   string
	pre, post map[string]string
	amb       map[string]bool
}

var hookWorlds sync.Map // goroutine id -> *world

type managerLogSink struct{}

func (managerLogSink) Write(p []byte) (int, error) {
	if !bytes.Contains(p, []byte("[cluster manager]")) {
		return len(p), nil
	}
	if v, ok := hookWorlds.Load(goid()); ok {
		v.(*world).midUpdate(string(bytes.TrimSpace(p)))
	}
	return len(p), nil
}

func goid() int64 {
	var buf [64]byte
	b := buf[:runtime.Stack(buf[:], false)]
	b = bytes.TrimPrefix(b, []byte("goroutine "))
	if i := bytes.IndexByte(b, ' '); i > 0 {
		n, _ := strconv.ParseInt(string(b[:i]), 10, 64)
		return n
	}
	return -1
}

var sinkOnce sync.Once

func installManagerLogSink() {
	sinkOnce.Do(func() {
		fs := flag.NewFlagSet("klog-c10", flag.ContinueOnError)
		klog.InitFlags(fs)
		_ = fs.Set("logtostderr", "false")
		_ = fs.Set("alsologtostderr", "false")
		_ = fs.Set("stderrthreshold", "FATAL")
		_ = fs.Set("v", "1")
		klog.SetOutput(managerLogSink{})
	})
}

// duringDelivery runs deliver() with the schedule point armed for this world.
func (w *world) duringDelivery(subject string, post *Model, deliver func()) {
	w.mid = &midState{subject: subject, pre: map[string]string{}, post: post.Owner, amb: map[string]bool{}}
	for k, v := range w.model.Owner {
		w.mid.pre[k] = v
	}
	for n := range post.Amb {
		w.mid.amb[n] = true
	}
	id := goid()
	hookWorlds.Store(id, w)
	defer func() {
		hookWorlds.Delete(id)
		w.mid = nil
	}()
	deliver()
}

func (w *world) midUpdate(line string) {
	m := w.mid
	if m == nil || w.failed {
		return
	}
	w.r.Count("mid_update_schedule_points", 1)
	for _, n := range baseNames {
		got, _ := w.resolve(n)
		pre, post := m.pre[n], m.post[n]
		if got == pre || got == post || (m.amb[n] && (got == "" || got == m.subject)) {
			continue
		}
		w.failed = true
		sig := "C10/every-moment/name-in-third-state-during-update"
		if pre == post {
			sig = "C10/every-moment/untouched-name-changed-during-update"
		}
		w.r.Violation(sig, fmt.Sprintf("inside the controller, at %q: host %q resolves to %q; before the event it belongs to %q, after it to %q (event about cluster %q) [history %d, step %d: %s]",
			line, n, got, pre, post, m.subject, w.hist, len(w.events)-1, evString(w.events[len(w.events)-1])), w.witness(map[string]interface{}{"host": n, "schedule_point": line}))
		return
	}
}
