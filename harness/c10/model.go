// Package c10 checks tenant resolution (property C10): which cluster a host name resolves to, over histories of
// create/update/delete of clusters whose names and server-name lists overlap, collide, change case or move.
package c10

import (
	"sort"
	"strings"
)

// ObjSpec is the part of an UpstreamCluster object that matters for tenant resolution.
type ObjSpec struct {
	Cluster string   `json:"cluster"`
	Names   []string `json:"serverNames"` // as written in the object (any case, duplicates allowed)
	Cert    int      `json:"cert"`        // serving certificate variant (0 = none)
	CA      int      `json:"ca"`          // client CA variant (0 = none)
}

// Event is one delivery to the controller.
type Event struct {
	Kind string   `json:"kind"` // apply | delete | redeliver
	Obj  *ObjSpec `json:"obj,omitempty"`
	Name string   `json:"cluster"`
	Note string   `json:"note,omitempty"`
}

// normHost is the reference reading of "case-insensitively and ignoring the port" (independent of the code under test):
// lower-case, and a trailing ":<digits>" - also with an empty port, "host:" is a legal authority - is dropped.
func normHost(h string) string {
	h = strings.ToLower(h)
	if i := strings.LastIndexByte(h, ':'); i >= 0 {
		digits := true
		for _, c := range h[i+1:] {
			if c < '0' || c > '9' {
				digits = false
			}
		}
		if digits {
			h = h[:i]
		}
	}
	return h
}

func claimed(o *ObjSpec) []string {
	seen := map[string]bool{}
	var out []string
	add := func(n string) {
		n = strings.ToLower(n)
		if !seen[n] {
			seen[n] = true
			out = append(out, n)
		}
	}
	add(o.Cluster)
	for _, n := range o.Names {
		add(n)
	}
	return out
}

// Model is the reference ownership model: a name belongs to the first cluster that successfully claimed it, until that
// cluster gives it up (update without it, or delete). An object claiming a name that belongs to another live cluster is
// refused (the statement: "never removes or captures a name that belongs to another cluster").
type Model struct {
	Owner map[string]string // lower-case name -> cluster
	// Ambiguous: right after a refused (conflicting) event the statement does not say whether the non-conflicting part of
	// the refused object takes effect. For those names both "resolves to the claimant" and "unchanged" are accepted and
	// the observed outcome is adopted. name -> claimant
	Amb map[string]string
	// TLS material variants per cluster; more than one allowed value only right after a refused event (same widening).
	Cert map[string][]int
	CA   map[string][]int
	// material the cluster had before its last in-place rotation (only used to classify a violation as "stale")
	PrevCert map[string]int
	PrevCA   map[string]int
}

func NewModel() *Model {
	return &Model{Owner: map[string]string{}, Amb: map[string]string{}, Cert: map[string][]int{}, CA: map[string][]int{}, PrevCert: map[string]int{}, PrevCA: map[string]int{}}
}

func (m *Model) NamesOf(c string) []string {
	var out []string
	for n, o := range m.Owner {
		if o == c {
			out = append(out, n)
		}
	}
	sort.Strings(out)
	return out
}

func (m *Model) Live(c string) bool { return len(m.NamesOf(c)) > 0 }

// Conflicts returns the names claimed by o that belong to another cluster.
func (m *Model) Conflicts(o *ObjSpec) []string {
	var out []string
	for _, n := range claimed(o) {
		if ow, ok := m.Owner[n]; ok && ow != o.Cluster {
			out = append(out, n)
		}
	}
	return out
}

// Apply steps the model for a delivered object; returns whether the object must be refused.
func (m *Model) Apply(o *ObjSpec) (refused bool) {
	c := o.Cluster
	want := map[string]bool{}
	for _, n := range claimed(o) {
		want[n] = true
	}
	if len(m.Conflicts(o)) > 0 {
		// refused: names of other clusters stay; names in both the old and the new set definitely stay with c;
		// the rest of c's old and new names is ambiguous (see Amb)
		for _, n := range m.NamesOf(c) {
			if !want[n] {
				m.Amb[n] = c
			}
		}
		for n := range want {
			if _, owned := m.Owner[n]; !owned {
				m.Amb[n] = c
			}
		}
		m.Cert[c] = union(m.Cert[c], o.Cert)
		m.CA[c] = union(m.CA[c], o.CA)
		return true
	}
	for _, n := range m.NamesOf(c) {
		if !want[n] {
			delete(m.Owner, n)
		}
	}
	for n := range want {
		m.Owner[n] = c
	}
	if old := m.Cert[c]; len(old) == 1 && old[0] != o.Cert {
		m.PrevCert[c] = old[0]
	}
	if old := m.CA[c]; len(old) == 1 && old[0] != o.CA {
		m.PrevCA[c] = old[0]
	}
	m.Cert[c] = []int{o.Cert}
	m.CA[c] = []int{o.CA}
	return false
}

func union(xs []int, v int) []int {
	for _, x := range xs {
		if x == v {
			return xs
		}
	}
	return append(append([]int{}, xs...), v)
}

// Delete steps the model for a delete event.
func (m *Model) Delete(c string) {
	for _, n := range m.NamesOf(c) {
		delete(m.Owner, n)
	}
	delete(m.Cert, c)
	delete(m.CA, c)
	delete(m.PrevCert, c)
	delete(m.PrevCA, c)
}

// Adopt resolves an ambiguous name from the observed resolution; returns false when the observation is outside the
// accepted set {claimant, previous state}.
func (m *Model) Adopt(n, observed string) bool {
	cl, ok := m.Amb[n]
	if !ok {
		return true
	}
	delete(m.Amb, n)
	prev, had := m.Owner[n]
	switch {
	case observed == cl:
		m.Owner[n] = cl
		return true
	case observed == "" && (!had || prev == cl):
		delete(m.Owner, n)
		return true
	case had && observed == prev:
		return true
	}
	return false
}

// Clone copies the model (used to compute the state an event must lead to before the event is delivered).
func (m *Model) Clone() *Model {
	c := NewModel()
	for k, v := range m.Owner {
		c.Owner[k] = v
	}
	for k, v := range m.Amb {
		c.Amb[k] = v
	}
	for k, v := range m.Cert {
		c.Cert[k] = append([]int{}, v...)
	}
	for k, v := range m.CA {
		c.CA[k] = append([]int{}, v...)
	}
	for k, v := range m.PrevCert {
		c.PrevCert[k] = v
	}
	for k, v := range m.PrevCA {
		c.PrevCA[k] = v
	}
	return c
}
