package c10

import (
	"bytes"
	"crypto/tls"
	"crypto/x509"
	"encoding/json"
	"fmt"
	"net"
	"runtime"
	"strings"
	"sync"
	"testing"
	"time"

	"k8s.io/apiserver/pkg/authentication/user"

	proxyv1alpha1 "github.com/kubewharf/kubegateway/pkg/apis/proxy/v1alpha1"
	"github.com/kubewharf/kubegateway/pkg/clusters"
	gatewaynet "github.com/kubewharf/kubegateway/pkg/gateway/net"

	"verifharness/bed"
	"verifharness/vkit"
)

// ---- universe ----

// cluster object names (DNS subdomains, lower case as API validation demands); the last two are also used as aliases
var clusterNames = []string{"alpha", "beta", "gamma", "delta.example.com", "x.io", "edge"}

// alias pool as written into objects (mixed case on purpose); includes names of clusters
// longName: a 240+ character DNS name made of 63-character labels; idnName: an internationalised name in its wire form
var (
	longName = strings.Repeat(strings.Repeat("l", 63)+".", 3) + "long-name.example"
	idnName  = "xn--bcher-kva.Example"
	// rawName: the same kind of name as raw UTF-8 (not legal on the wire, but nothing stops an object or a client from
	// carrying it); judged only for what the statement fixes: case-insensitive (as Go folds case), port ignored
	rawName = "B\u00fccher.Example"
)

var aliasPool = []string{"x.io", "Y.io", "shared.Example.COM", "api.k8s.local", "tenant-1", "edge", "alpha", "beta", "gamma", longName, idnName, rawName,
	// server names that contain a port: a Host never equals them (its port is ignored), so they match nothing - and must not
	// capture or disturb the host they look like
	"x.io:8443", "Beta:443"}

// base names of the probe universe: every name that can be claimed plus two that never are ("alph" is a prefix of a
// cluster name, "ghost.io" is unrelated)
var baseNames = []string{"alpha", "beta", "gamma", "delta.example.com", "x.io", "y.io", "shared.example.com", "api.k8s.local", "tenant-1", "edge", "alph", "ghost.io", longName, strings.ToLower(idnName), strings.ToLower(rawName)}

func mixCase(s string) string {
	b := []byte(s)
	for i := range b {
		if i%2 == 0 && b[i] >= 'a' && b[i] <= 'z' {
			b[i] -= 32
		}
	}
	return string(b)
}

type variant struct {
	Host  string
	Class string // exact | case | port | case+port
	SNI   bool   // usable as TLS server name (no port)
}

func variantsOf(n string) []variant {
	return []variant{
		{n, "exact", true},
		{strings.ToUpper(n), "case", true},
		{mixCase(n), "case", true},
		{n + ":6443", "port", false},
		{strings.ToUpper(n) + ":443", "case+port", false},
		// boundary ports: empty port ("host:" is a legal authority), 0 and 65535
		{n + ":", "port", false},
		{mixCase(n) + ":65535", "case+port", false},
		{n + ":0", "port", false},
	}
}

// ---- certificate material ----

type material struct {
	serving [3]*bed.KeyPair // index 1,2 used
	ca      [3]*bed.KeyPair
	client  [3]*bed.KeyPair // client certificate signed by ca[i]
}

var (
	matOnce sync.Once
	mats    map[string]*material
	base    *material // the gateway's own (base) serving material: index 1
)

func initMaterial() {
	matOnce.Do(func() {
		mats = map[string]*material{}
		mk := func(name string) *material {
			m := &material{}
			for v := 1; v <= 2; v++ {
				m.serving[v] = bed.NewServing(fmt.Sprintf("serving-%s-v%d", name, v), []string{name}, nil)
				m.ca[v] = bed.NewCA(fmt.Sprintf("ca-%s-v%d", name, v))
				m.client[v] = bed.NewServing(fmt.Sprintf("client-of-%s-v%d", name, v), nil, m.ca[v])
			}
			return m
		}
		for _, c := range clusterNames {
			mats[c] = mk(c)
		}
		base = mk("gateway-base")
	})
}

// ---- world: one gateway living through one history ----

type world struct {
	r           *vkit.R
	gw          *bed.Gateway
	stubs       map[string]*bed.Stub
	model       *Model
	lister      map[string]*ObjSpec                       // what the lister holds
	pend        map[string]*proxyv1alpha1.UpstreamCluster // delivered object that asked for a requeue (still the lister's version)
	pendS       map[string]*ObjSpec
	infos       map[string]*clusters.ClusterInfo // last ClusterInfo seen for a live cluster (to check its context after delete)
	events      []Event
	token       string
	wrap        func(*tls.ClientHelloInfo) (*tls.Config, error)
	baseC       *tls.Config
	ln          net.Listener
	failed      bool
	idn         int
	hist        int
	traffic     bool
	stableBase  bool
	mid         *midState
	everDeleted map[string]bool
	errLeft     map[string]int  // pending object whose sync returned an error: deliveries the queue will still make
	queried     map[string]bool // host strings already used as SNI / Host before (GetConfigForClient, SNIVerifyOptions, handshake)

	caCache map[*x509.CertPool][]string
}

// endpointOf returns the upstream endpoint of a cluster in this history: a stub of its own in histories that send
// traffic (closed with the history, which also releases the gateway's idle connections), otherwise an address nothing
// listens on (the endpoint just stays unhealthy; resolution and TLS material do not depend on it).
func (w *world) endpointOf(c string) string {
	if !w.traffic {
		return "http://127.0.0.1:9"
	}
	if s, ok := w.stubs[c]; ok {
		return s.URL
	}
	s := bed.NewStub(c)
	w.stubs[c] = s
	return s.URL
}

func buildObject(o *ObjSpec, endpoint string) *proxyv1alpha1.UpstreamCluster {
	obj := bed.BuildCluster(bed.ClusterSpec{Name: o.Cluster, Servers: []string{endpoint}})
	obj.Spec.SecureServing.ServerNames = append([]string{}, o.Names...)
	m := mats[o.Cluster]
	if o.Cert > 0 {
		obj.Spec.SecureServing.CertData = m.serving[o.Cert].CertPEM
		obj.Spec.SecureServing.KeyData = m.serving[o.Cert].KeyPEM
	}
	if o.CA > 0 {
		obj.Spec.SecureServing.ClientCAData = m.ca[o.CA].CertPEM
	}
	return obj
}

func newWorld(r *vkit.R, traffic bool, hist int) *world {
	w := &world{r: r, stubs: map[string]*bed.Stub{}, traffic: traffic, model: NewModel(), lister: map[string]*ObjSpec{}, pend: map[string]*proxyv1alpha1.UpstreamCluster{},
		pendS: map[string]*ObjSpec{}, infos: map[string]*clusters.ClusterInfo{}, hist: hist, caCache: map[*x509.CertPool][]string{}, queried: map[string]bool{}, everDeleted: map[string]bool{}, errLeft: map[string]int{}}
	w.gw = bed.NewGateway(bed.GatewayOptions{})
	w.token = w.gw.Tokens.Add(&user.DefaultInfo{Name: "c10-user", Groups: []string{"system:authenticated"}})
	pool := x509.NewCertPool()
	pool.AddCert(base.ca[1].Cert)
	cert, err := tls.X509KeyPair(base.serving[1].CertPEM, base.serving[1].KeyPEM)
	if err != nil {
		panic(err)
	}
	// the base configuration the generic API server would hand to WrapGetConfigForClient (pkg/server/secure_serving.go):
	// its own certificate, its own client CA, RequestClientCert
	w.baseC = &tls.Config{Certificates: []tls.Certificate{cert}, ClientCAs: pool, ClientAuth: tls.RequestClientCert, MinVersion: tls.VersionTLS12}
	// The base GetConfigForClientFunc may hand out a fresh clone per handshake (what the generic API server's functions do)
	// or one long-lived *tls.Config (equally legal for the interface); both are exercised, alternating by history.
	w.stableBase = hist%3 != 2
	w.wrap = w.gw.Ctrl.WrapGetConfigForClient(func(*tls.ClientHelloInfo) (*tls.Config, error) {
		if w.stableBase {
			return w.baseC, nil
		}
		c := w.baseC.Clone()
		c.GetConfigForClient = nil
		return c, nil
	})
	return w
}

func (w *world) close() {
	if w.ln != nil {
		w.ln.Close()
	}
	w.gw.Close()
	for _, s := range w.stubs {
		s.Close()
	}
}

func (w *world) witness(extra map[string]interface{}) map[string]interface{} {
	m := map[string]interface{}{"history": w.hist, "events": w.events, "failing_step": len(w.events) - 1}
	for k, v := range extra {
		m[k] = v
	}
	return m
}

func (w *world) violate(sig, what string, extra map[string]interface{}) {
	w.failed = true
	w.r.Violation(sig, what+fmt.Sprintf(" [history %d, step %d: %s]", w.hist, len(w.events)-1, evString(w.events[len(w.events)-1])), w.witness(extra))
}

func evString(e Event) string {
	if e.Obj != nil {
		return fmt.Sprintf("%s %s serverNames=%q cert=%d ca=%d", e.Kind, e.Name, e.Obj.Names, e.Obj.Cert, e.Obj.CA)
	}
	return e.Kind + " " + e.Name
}

// resolve is the production resolution path for a Host value: pkg/gateway/net.HostWithoutPort (used by ExtraRequestInfo and
// SNIVerifyOptions) followed by Manager.Get.
func (w *world) resolve(host string) (string, *clusters.ClusterInfo) {
	ci, ok := w.gw.Ctrl.Get(gatewaynet.HostWithoutPort(host))
	if !ok || ci == nil {
		return "", nil
	}
	return ci.Cluster, ci
}

// step delivers one event and checks every invariant.
func (w *world) step(ev Event, g *vkit.Rand, deep bool) {
	w.events = append(w.events, ev)
	r := w.r
	var sr bed.SyncResult
	var refused bool
	deleted := ""
	// in-place rotation: the hosts of the cluster are used BEFORE the update (same host strings, same case variants) ...
	var rotHosts []variant
	if strings.HasPrefix(ev.Note, "rotate") {
		for _, n := range w.model.NamesOf(ev.Name) {
			if strings.Contains(n, ":") {
				continue // a server name with a port can never be an SNI value (RFC 6066), nor equal a Host whose port is ignored
			}
			vs := variantsOf(n)
			rotHosts = append(rotHosts, vs[0], vs[2])
		}
		r.Count("rotations", 1)
		for _, v := range rotHosts {
			if !w.checkGetConfig(v, ev.Name) {
				return
			}
			if w.traffic && !w.checkHandshake(v, ev.Name) {
				return
			}
			r.Count("rotation_hosts_used_before_and_after", 1)
		}
	}
	switch ev.Kind {
	case "apply":
		obj := buildObject(ev.Obj, w.endpointOf(ev.Obj.Cluster))
		o := w.gw.SetLister(obj)
		w.lister[ev.Name] = ev.Obj
		postA := w.model.Clone()
		postA.Apply(ev.Obj)
		w.duringDelivery(ev.Name, postA, func() { sr = w.gw.Deliver(o) })
		wasLive := w.model.Live(ev.Name)
		refused = w.model.Apply(ev.Obj)
		if !refused && !wasLive && w.everDeleted[ev.Name] {
			r.Count("clusters_recreated_under_same_name", 1)
		}
		delete(w.pend, ev.Name)
		delete(w.pendS, ev.Name)
		delete(w.errLeft, ev.Name)
		switch {
		case sr.Requeue:
			w.pend[ev.Name], w.pendS[ev.Name] = o, ev.Obj
		case sr.Err != nil && sr.Panic == nil:
			// an error goes through the queue's rate-limited retry: at most maxErrRetries (3) more deliveries
			w.pend[ev.Name], w.pendS[ev.Name], w.errLeft[ev.Name] = o, ev.Obj, errRetries()
		}
	case "redeliver":
		// the queue re-delivers the very object that asked for a requeue; only generated while it still is the lister's
		// version (re-delivery of a superseded version is C11's subject)
		o := w.pend[ev.Name]
		postR := w.model.Clone()
		postR.Apply(w.pendS[ev.Name])
		w.duringDelivery(ev.Name, postR, func() { sr = w.gw.Deliver(o) })
		refused = w.model.Apply(w.pendS[ev.Name])
		switch {
		case sr.Requeue:
			delete(w.errLeft, ev.Name) // a RequeueAfter result is re-delivered for as long as the sync keeps asking
		case sr.Err != nil && sr.Panic == nil:
			left, counted := w.errLeft[ev.Name]
			if !counted {
				left = errRetries()
			}
			left--
			w.errLeft[ev.Name] = left
			if left <= 0 {
				// the queue gives up on an object whose sync keeps returning an error
				delete(w.pend, ev.Name)
				delete(w.pendS, ev.Name)
				delete(w.errLeft, ev.Name)
				r.Count("objects_dropped_by_the_queue_after_error_retries", 1)
			}
		default:
			delete(w.pend, ev.Name)
			delete(w.pendS, ev.Name)
			delete(w.errLeft, ev.Name)
		}
		r.Count("redeliveries", 1)
	case "delete":
		postD := w.model.Clone()
		postD.Delete(ev.Name)
		w.duringDelivery(ev.Name, postD, func() { sr = w.gw.Delete(ev.Name) })
		delete(w.lister, ev.Name)
		delete(w.pend, ev.Name)
		delete(w.pendS, ev.Name)
		delete(w.errLeft, ev.Name)
		if w.model.Live(ev.Name) {
			w.everDeleted[ev.Name] = true
			deleted = ev.Name
			r.Count("deletes_of_live_cluster", 1)
		}
		w.model.Delete(ev.Name)
	}
	r.Count("events", 1)
	if sr.Panic != nil {
		w.violate("C10/panic/"+ev.Kind, fmt.Sprintf("controller panicked: %v", sr.Panic), nil)
		return
	}
	if ev.Kind != "delete" {
		if refused {
			r.Count("conflicting_events", 1)
			if sr.Requeue {
				r.Count("refusals_observed", 1)
			}
		} else {
			r.Count("accepted_events", 1)
			if sr.Requeue || sr.Err != nil {
				w.violate("C10/apply/refused-without-conflict/"+ev.Kind,
					fmt.Sprintf("object of cluster %q claims only free or own names %q but the controller did not apply it (requeue=%v err=%v)", ev.Name, claimed(w.specOf(ev)), sr.Requeue, sr.Err), nil)
				return
			}
		}
	}

	// adopt the outcome for names the statement leaves open after a refused event
	for _, n := range baseNames {
		if _, amb := w.model.Amb[n]; amb {
			got, _ := w.resolve(n)
			if !w.model.Adopt(n, got) {
				w.violate("C10/resolve/refused-object-changed-resolution", fmt.Sprintf("after a refused object name %q resolves to %q", n, got), map[string]interface{}{"host": n})
				return
			}
		}
	}
	for c := range w.model.Cert {
		if !w.model.Live(c) {
			delete(w.model.Cert, c)
			delete(w.model.CA, c)
		}
	}

	// I3: a deleted cluster's context is done
	if deleted != "" {
		if ci := w.infos[deleted]; ci != nil {
			if ci.Context().Err() == nil {
				w.violate("C10/delete/context-not-cancelled", fmt.Sprintf("cluster %q was deleted but its ClusterInfo context is still alive", deleted), nil)
			}
			r.Count("delete_context_checks", 1)
		}
		delete(w.infos, deleted)
	}

	// I1/I2/I3: resolution of every host variant, against the model
	for _, n := range baseNames {
		want := w.model.Owner[n]
		for _, v := range variantsOf(n) {
			if normHost(v.Host) != n {
				panic("harness: variant does not normalise to its base name")
			}
			got, ci := w.resolve(v.Host)
			r.Count("resolutions_checked", 1)
			if got != want {
				w.resolutionViolation(ev, v, n, want, got, deleted)
				return
			}
			if ci != nil {
				if ci.Context().Err() != nil {
					w.violate("C10/resolve/resolves-to-stopped-cluster", fmt.Sprintf("host %q resolves to cluster %q whose context is cancelled", v.Host, got), map[string]interface{}{"host": v.Host})
					return
				}
				w.infos[got] = ci
			}
		}
	}
	// a trailing dot ("y.io.") is not covered by the statement: observed and counted, never judged
	for _, n := range baseNames {
		if want := w.model.Owner[n]; want != "" {
			if got, _ := w.resolve(n + "."); got == want {
				r.Count("trailing_dot_hosts_resolving_to_the_owner_not_judged", 1)
			} else {
				r.Count("trailing_dot_hosts_not_resolving_not_judged", 1)
			}
		}
	}
	// I1b: the cluster's own view of its names equals the set of names that resolve to it; no name is claimed by two
	// live clusters (over the probe universe, which contains every claimable name)
	claimedBy := map[string]string{}
	for c, ci := range w.infos {
		if !w.model.Live(c) {
			continue
		}
		set := map[string]bool{}
		for _, n := range ci.LoadServerNames() {
			set[strings.ToLower(n)] = true
		}
		var names []string
		for n := range set {
			names = append(names, n)
			if o, dup := claimedBy[n]; dup && o != c {
				w.violate("C10/names/claimed-by-two-live-clusters", fmt.Sprintf("name %q is in the server names of both %q and %q", n, o, c), map[string]interface{}{"host": n})
				return
			}
			claimedBy[n] = c
		}
		wantNames := w.model.NamesOf(c)
		if !sameSet(names, wantNames) {
			w.violate("C10/names/servernames-disagree-with-resolution", fmt.Sprintf("cluster %q reports server names %q but the names that (must) resolve to it are %q", c, names, wantNames), nil)
			return
		}
	}

	// I4: TLS material chosen by SNI / by Host
	for _, n := range baseNames {
		owner := w.model.Owner[n]
		for _, v := range variantsOf(n) {
			if v.SNI {
				if !w.checkGetConfig(v, owner) {
					return
				}
			}
			if !w.checkSNIVerify(v, owner) {
				return
			}
		}
	}

	// ... and again right after its sync returned: they must present the new material at once (I4 above covered
	// GetConfigForClient / SNIVerifyOptions for every variant; here the real handshakes)
	if w.traffic && !refused {
		for _, v := range rotHosts {
			if !w.checkHandshake(v, w.model.Owner[normHost(v.Host)]) {
				return
			}
			r.Count("rotation_handshakes_after", 1)
		}
	}

	if deep {
		// I6: real handshakes; I5: real requests through the handler chain
		for k := 0; k < 3; k++ {
			n := baseNames[g.Intn(len(baseNames))]
			vs := variantsOf(n)
			if !w.checkHandshake(vs[g.Intn(3)], w.model.Owner[n]) {
				return
			}
		}
		for k := 0; k < 2; k++ {
			n := baseNames[g.Intn(len(baseNames))]
			if k == 0 && len(w.model.Owner) > 0 && g.Chance(0.7) {
				// prefer an owned name
				var owned []string
				for _, b := range baseNames {
					if w.model.Owner[b] != "" {
						owned = append(owned, b)
					}
				}
				n = owned[g.Intn(len(owned))]
			}
			vs := variantsOf(n)
			if !w.checkChain(vs[g.Intn(len(vs))], w.model.Owner[n]) {
				return
			}
		}
	}
}

// quiesce: everything the queue would still deliver is delivered (a pending object is re-delivered until it is applied, the
// queue gives up on it, or a whole round changes nothing). Afterwards nothing is in flight any more, so "C's current server
// names" are those of C's latest object: every cluster whose latest object claims only free or own names must be applied -
// its own name and every server name resolve to it. (A cluster whose latest object still collides with a name another
// cluster holds stays refused; nothing is demanded for it.)
func (w *world) quiesce(g *vkit.Rand) {
	for round := 0; round < 5 && len(w.pend) > 0 && !w.failed; round++ {
		before := len(w.pend)
		for _, c := range clusterNames {
			if w.pend[c] != nil && !w.failed {
				w.step(Event{Kind: "redeliver", Name: c, Note: "quiescence"}, g, false)
				w.r.Count("quiescence_redeliveries", 1)
			}
		}
		if len(w.pend) == before && round >= 1 {
			break
		}
	}
	if w.failed {
		return
	}
	w.r.Count("quiescence_checks", 1)
	for _, c := range clusterNames {
		spec := w.lister[c]
		if spec == nil {
			continue
		}
		w.r.Count("quiescence_clusters_checked", 1)
		if len(w.model.Conflicts(spec)) > 0 {
			w.r.Count("quiescence_clusters_still_in_conflict", 1)
			continue
		}
		for _, n := range claimed(spec) {
			if strings.Contains(n, ":") {
				w.r.Count("server_names_with_port_matching_no_host", 1)
				continue // no Host equals a server name that contains a port: nothing to demand for it
			}
			if got, _ := w.resolve(n); got != c {
				w.events = append(w.events, Event{Kind: "quiescence", Name: c, Note: "nothing left to deliver"})
				w.violate("C10/quiescence/latest-object-never-applied", fmt.Sprintf("cluster %q: its latest object claims only free or own names %q and the queue has nothing left to deliver, but host %q resolves to %q", c, claimed(spec), n, got),
					map[string]interface{}{"host": n, "pending": len(w.pend)})
				return
			}
		}
	}
}

// shutdownCheck: the manager is shut down (DeleteAll, what the gateway does when it stops): no name resolves any more and
// the context of every cluster that was alive is cancelled.
func (w *world) shutdownCheck() {
	live := map[string]*clusters.ClusterInfo{}
	for c, ci := range w.infos {
		if w.model.Live(c) {
			live[c] = ci
		}
	}
	w.gw.Ctrl.DeleteAll()
	w.r.Count("shutdown_checks", 1)
	for c, ci := range live {
		w.r.Count("shutdown_cluster_contexts_checked", 1)
		if ci.Context().Err() == nil {
			w.r.Violation("C10/shutdown/context-not-cancelled", fmt.Sprintf("after DeleteAll the context of cluster %q is still alive", c), w.witness(nil))
		}
	}
	for _, n := range baseNames {
		if got, _ := w.resolve(n); got != "" {
			w.r.Violation("C10/shutdown/name-still-resolves", fmt.Sprintf("after DeleteAll host %q still resolves to %q", n, got), w.witness(nil))
		}
	}
}

func (w *world) specOf(ev Event) *ObjSpec {
	if ev.Obj != nil {
		return ev.Obj
	}
	if s := w.pendS[ev.Name]; s != nil {
		return s
	}
	return &ObjSpec{Cluster: ev.Name}
}

func sameSet(a, b []string) bool {
	if len(a) != len(b) {
		return false
	}
	m := map[string]bool{}
	for _, x := range a {
		m[x] = true
	}
	for _, x := range b {
		if !m[x] {
			return false
		}
	}
	return true
}

func (w *world) resolutionViolation(ev Event, v variant, n, want, got, deleted string) {
	x := map[string]interface{}{"host": v.Host, "expected_cluster": want, "resolved_cluster": got}
	subject := ev.Name
	switch {
	case want != "" && want != subject && got == "":
		w.violate("C10/frame/name-of-other-cluster-removed/"+ev.Kind, fmt.Sprintf("host %q belongs to cluster %q, which is not the subject of the event, and no longer resolves", v.Host, want), x)
	case want != "" && want != subject && got != "":
		w.violate("C10/frame/name-of-other-cluster-captured/"+ev.Kind, fmt.Sprintf("host %q belongs to cluster %q but resolves to %q after an event about %q", v.Host, want, got, subject), x)
	case want == "" && got != "" && got == deleted:
		w.violate("C10/delete/name-of-deleted-cluster-still-resolves/"+v.Class, fmt.Sprintf("host %q still resolves to deleted cluster %q", v.Host, got), x)
	case want == "" && got != "":
		w.violate("C10/resolve/unowned-name-resolves/"+ev.Kind+"/"+v.Class, fmt.Sprintf("host %q is nobody's name or server name but resolves to %q", v.Host, got), x)
	case want != "" && got == "":
		w.violate("C10/resolve/owned-name-does-not-resolve/"+ev.Kind+"/"+v.Class, fmt.Sprintf("host %q is a name of cluster %q (names %q) but does not resolve", v.Host, want, w.model.NamesOf(want)), x)
	default:
		w.violate("C10/resolve/wrong-cluster/"+ev.Kind+"/"+v.Class, fmt.Sprintf("host %q is a name of cluster %q but resolves to %q", v.Host, want, got), x)
	}
}

func verifies(leaf *x509.Certificate, roots *x509.CertPool) bool {
	if roots == nil {
		return false
	}
	_, err := leaf.Verify(x509.VerifyOptions{Roots: roots, KeyUsages: []x509.ExtKeyUsage{x509.ExtKeyUsageClientAuth}})
	return err == nil
}

// whichCert identifies a leaf DER: "base", "<cluster>/<variant>" or "unknown".
func whichCert(der []byte) string {
	if bytes.Equal(der, base.serving[1].DER) {
		return "base"
	}
	for c, m := range mats {
		for v := 1; v <= 2; v++ {
			if bytes.Equal(der, m.serving[v].DER) {
				return fmt.Sprintf("%s/%d", c, v)
			}
		}
	}
	return "unknown"
}

// whichCA tells which client certificates a pool accepts: sorted list of "base", "<cluster>/<variant>".
// whichCA is memoised per pool object within one history (pools are immutable once published by the code under test;
// the map key keeps the pool alive, so an address cannot be recycled for another pool).
func (w *world) whichCA(pool *x509.CertPool) []string {
	if pool == nil {
		return nil
	}
	if v, ok := w.caCache[pool]; ok {
		return v
	}
	out := whichCAUncached(pool)
	w.caCache[pool] = out
	return out
}

func whichCAUncached(pool *x509.CertPool) []string {
	var out []string
	if verifies(base.client[1].Cert, pool) {
		out = append(out, "base")
	}
	for _, c := range clusterNames {
		for v := 1; v <= 2; v++ {
			if verifies(mats[c].client[v].Cert, pool) {
				out = append(out, fmt.Sprintf("%s/%d", c, v))
			}
		}
	}
	return out
}

func allowedIDs(owner string, variants []int, baseWhenNone bool) map[string]bool {
	out := map[string]bool{}
	for _, v := range variants {
		if v == 0 {
			if baseWhenNone {
				out["base"] = true
			} else {
				out[""] = true
			}
		} else {
			out[fmt.Sprintf("%s/%d", owner, v)] = true
		}
	}
	return out
}

// narrow adopts the observed variant when the model allowed several (only after a refused event).
func narrow(cur []int, owner, id string) []int {
	if len(cur) <= 1 {
		return cur
	}
	for _, v := range cur {
		if (v == 0 && (id == "base" || id == "")) || id == fmt.Sprintf("%s/%d", owner, v) {
			return []int{v}
		}
	}
	return cur
}

// staleClass: the observed material is what the cluster had before its last in-place rotation.
func (w *world) staleClass(owner, id string, prev map[string]int) bool {
	p, ok := prev[owner]
	if !ok {
		return false
	}
	if p == 0 {
		return id == "base" || id == ""
	}
	return id == fmt.Sprintf("%s/%d", owner, p)
}

func (w *world) checkGetConfig(v variant, owner string) bool {
	w.r.Count("getconfig_checked", 1)
	defer func() { w.queried["sni:"+v.Host] = true }()
	cfg, err := w.wrap(&tls.ClientHelloInfo{ServerName: v.Host})
	if err != nil || cfg == nil {
		w.violate("C10/tls/getconfig/error", fmt.Sprintf("GetConfigForClient(%q) returned %v", v.Host, err), map[string]interface{}{"host": v.Host})
		return false
	}
	certID := "none"
	if len(cfg.Certificates) > 0 && len(cfg.Certificates[0].Certificate) > 0 {
		certID = whichCert(cfg.Certificates[0].Certificate[0])
	}
	caIDs := strings.Join(w.whichCA(cfg.ClientCAs), ",")
	x := map[string]interface{}{"host": v.Host, "owner": owner, "certificate": certID, "client_ca_accepts": caIDs, "client_auth": fmt.Sprint(cfg.ClientAuth)}
	if owner == "" {
		if certID != "base" || caIDs != "base" || cfg.ClientAuth != w.baseC.ClientAuth {
			w.violate("C10/tls/getconfig/unresolved-name-not-base-config/"+v.Class, fmt.Sprintf("SNI %q belongs to no cluster but the TLS config has certificate %s, client CA accepting [%s]", v.Host, certID, caIDs), x)
			return false
		}
		return true
	}
	okCert := allowedIDs(owner, w.model.Cert[owner], true)
	if !okCert[certID] {
		sig := "C10/tls/getconfig/wrong-certificate/" + v.Class
		if w.staleClass(owner, certID, w.model.PrevCert) {
			sig = "C10/tls/getconfig/stale-certificate-after-rotation"
		}
		w.violate(sig, fmt.Sprintf("SNI %q belongs to cluster %q (cert variants %v) but the TLS config serves certificate %s (SNI used before: %v)", v.Host, owner, w.model.Cert[owner], certID, w.queried["sni:"+v.Host]), x)
		return false
	}
	w.model.Cert[owner] = narrow(w.model.Cert[owner], owner, certID)
	okCA := allowedIDs(owner, w.model.CA[owner], true)
	if !okCA[caIDs] {
		sig := "C10/tls/getconfig/wrong-client-ca/" + v.Class
		if w.staleClass(owner, caIDs, w.model.PrevCA) {
			sig = "C10/tls/getconfig/stale-client-ca-after-rotation"
		}
		w.violate(sig, fmt.Sprintf("SNI %q belongs to cluster %q (CA variants %v) but the client-CA pool accepts [%s] (SNI used before: %v)", v.Host, owner, w.model.CA[owner], caIDs, w.queried["sni:"+v.Host]), x)
		return false
	}
	w.model.CA[owner] = narrow(w.model.CA[owner], owner, caIDs)
	if caIDs != "base" && cfg.ClientAuth != tls.RequestClientCert {
		w.violate("C10/tls/getconfig/client-auth-mode", fmt.Sprintf("SNI %q: cluster CA in use but ClientAuth=%v", v.Host, cfg.ClientAuth), x)
		return false
	}
	return true
}

func (w *world) checkSNIVerify(v variant, owner string) bool {
	w.r.Count("sniverify_checked", 1)
	opts, ok := w.gw.Ctrl.SNIVerifyOptions(v.Host)
	ids := ""
	if ok {
		ids = strings.Join(w.whichCA(opts.Roots), ",")
	}
	x := map[string]interface{}{"host": v.Host, "owner": owner, "ok": ok, "roots_accept": ids}
	if owner == "" {
		if ok {
			w.violate("C10/tls/sniverify/unresolved-name-has-options/"+v.Class, fmt.Sprintf("host %q belongs to no cluster but SNIVerifyOptions returns roots accepting [%s]", v.Host, ids), x)
			return false
		}
		return true
	}
	allowed := allowedIDs(owner, w.model.CA[owner], false)
	if !allowed[ids] {
		sig := "C10/tls/sniverify/wrong-roots/" + v.Class
		if w.staleClass(owner, ids, w.model.PrevCA) {
			sig = "C10/tls/sniverify/stale-roots-after-rotation"
		}
		w.violate(sig, fmt.Sprintf("host %q belongs to cluster %q (CA variants %v) but SNIVerifyOptions ok=%v roots accept [%s]", v.Host, owner, w.model.CA[owner], ok, ids), x)
		return false
	}
	if ok {
		hasUsage := false
		for _, u := range opts.KeyUsages {
			if u == x509.ExtKeyUsageClientAuth {
				hasUsage = true
			}
		}
		if !hasUsage {
			w.violate("C10/tls/sniverify/key-usage", fmt.Sprintf("host %q: verify options lack the client-auth key usage", v.Host), x)
			return false
		}
	}
	return true
}

func (w *world) listener() net.Listener {
	if w.ln != nil {
		return w.ln
	}
	// the suite opens tens of thousands of short-lived loopback connections; when the ephemeral port range is crowded
	// with TIME_WAIT sockets a bind can fail transiently: retry for a while before giving up (giving up = inconclusive)
	var l net.Listener
	var err error
	for attempt := 0; attempt < 300; attempt++ {
		if l, err = net.Listen("tcp", "127.0.0.1:0"); err == nil {
			break
		}
		time.Sleep(100 * time.Millisecond)
	}
	if err != nil {
		return nil
	}
	w.ln = tls.NewListener(l, &tls.Config{GetConfigForClient: w.wrap, MinVersion: tls.VersionTLS12})
	go func(ln net.Listener) {
		for {
			c, err := ln.Accept()
			if err != nil {
				return
			}
			go func() {
				defer c.Close()
				_ = c.SetDeadline(time.Now().Add(20 * time.Second))
				if tc, ok := c.(*tls.Conn); ok {
					if tc.Handshake() == nil {
						buf := make([]byte, 1)
						_, _ = tc.Read(buf)
					}
				}
			}()
		}
	}(w.ln)
	return w.ln
}

func (w *world) checkHandshake(v variant, owner string) bool {
	for i := 0; i < len(v.Host); i++ {
		if v.Host[i] >= 0x80 {
			w.r.Count("handshakes_skipped_non_ascii_sni", 1) // crypto/tls does not put such a name into a ClientHello
			return true
		}
	}
	ln := w.listener()
	if ln == nil {
		w.r.Inconclusive("cannot open a TLS listener")
		return false
	}
	var acceptable [][]byte
	asked := false
	conn, err := tls.DialWithDialer(&net.Dialer{Timeout: 20 * time.Second}, "tcp", ln.Addr().String(), &tls.Config{
		ServerName: v.Host, InsecureSkipVerify: true,
		GetClientCertificate: func(cri *tls.CertificateRequestInfo) (*tls.Certificate, error) {
			asked = true
			acceptable = cri.AcceptableCAs
			return &tls.Certificate{}, nil
		},
	})
	if err != nil {
		w.r.Count("handshake_client_errors", 1)
		w.r.Inconclusive(fmt.Sprintf("TLS handshake with the in-process listener failed: %v", err))
		return false
	}
	st := conn.ConnectionState()
	conn.Close()
	w.r.Count("handshakes_checked", 1)
	certID := "none"
	if len(st.PeerCertificates) > 0 {
		certID = whichCert(st.PeerCertificates[0].Raw)
	}
	var subj []string
	for _, a := range acceptable {
		subj = append(subj, caBySubject(a))
	}
	caID := strings.Join(subj, ",")
	x := map[string]interface{}{"sni": v.Host, "owner": owner, "leaf": certID, "certificate_request": asked, "acceptable_cas": caID}
	wantCert, wantCA := map[string]bool{"base": true}, map[string]bool{"base": true}
	if owner != "" {
		wantCert = allowedIDs(owner, w.model.Cert[owner], true)
		wantCA = allowedIDs(owner, w.model.CA[owner], true)
	}
	if !wantCert[certID] {
		sig := "C10/handshake/wrong-leaf-certificate/" + v.Class
		if w.staleClass(owner, certID, w.model.PrevCert) {
			sig = "C10/handshake/stale-leaf-certificate-after-rotation"
		}
		w.violate(sig, fmt.Sprintf("client handshake with SNI %q (cluster %q) received leaf certificate %s", v.Host, owner, certID), x)
		return false
	}
	if !asked || !wantCA[caID] {
		sig := "C10/handshake/wrong-acceptable-cas/" + v.Class
		if w.staleClass(owner, caID, w.model.PrevCA) {
			sig = "C10/handshake/stale-acceptable-cas-after-rotation"
		}
		w.violate(sig, fmt.Sprintf("client handshake with SNI %q (cluster %q): certificate requested=%v acceptable CAs [%s]", v.Host, owner, asked, caID), x)
		return false
	}
	return true
}

func caBySubject(raw []byte) string {
	if bytes.Equal(raw, base.ca[1].Cert.RawSubject) {
		return "base"
	}
	for c, m := range mats {
		for v := 1; v <= 2; v++ {
			if bytes.Equal(raw, m.ca[v].Cert.RawSubject) {
				return fmt.Sprintf("%s/%d", c, v)
			}
		}
	}
	return "unknown"
}

func (w *world) checkChain(v variant, owner string) bool {
	if owner != "" {
		st := w.stubs[owner]
		if !w.gw.WaitReady(owner, st.URL, true, 20*time.Second) {
			w.r.Inconclusive("a stub endpoint did not become ready within the 20s watchdog")
			return false
		}
	}
	w.idn++
	id := fmt.Sprintf("c10-%d-%d", w.hist, w.idn)
	req := bed.NewRequest("GET", v.Host, "/api/v1/namespaces/default/pods", w.token, id, nil)
	if w.idn%3 == 0 {
		// the request arrives on a TLS connection whose handshake named ANOTHER host (a client is free to do that): the
		// request is still addressed to the host of its Host header
		sni := baseNames[(w.idn/3)%len(baseNames)]
		req.TLS = &tls.ConnectionState{ServerName: sni, HandshakeComplete: true, Version: tls.VersionTLS13}
		if w.model.Owner[sni] != owner {
			w.r.Count("chain_requests_whose_sni_names_another_cluster", 1)
		}
	}
	rec := w.gw.Serve(req)
	w.r.Count("chain_requests", 1)
	if w.idn%5 == 0 {
		// IP literals are never cluster names: such a request must not reach any cluster's upstream
		ip := []string{"127.0.0.1:6443", "[::1]:443", "10.0.0.1", "[fe80::1]"}[(w.idn/5)%4]
		rip := w.gw.Serve(bed.NewRequest("GET", ip, "/api/v1/namespaces/default/pods", w.token, id+"-ip", nil))
		w.r.Count("chain_requests_with_ip_literal_host", 1)
		if s := rip.Header().Get("X-Verif-Stub"); s != "" {
			w.violate("C10/chain/ip-literal-host-served", fmt.Sprintf("request with Host %q was served by the upstream of cluster %q", ip, s), map[string]interface{}{"host": ip})
			return false
		}
	}
	served := rec.Header().Get("X-Verif-Stub")
	x := map[string]interface{}{"host": v.Host, "owner": owner, "status": rec.Code, "answered_by_stub_of": served, "body": fmt.Sprintf("%.120s", rec.Body.String())}
	switch {
	case owner == "" && served != "":
		w.violate("C10/chain/unowned-host-served/"+v.Class, fmt.Sprintf("request with Host %q (nobody's name) was served by the upstream of cluster %q", v.Host, served), x)
		return false
	case owner == "":
		if rec.Code != 503 {
			w.violate("C10/chain/unowned-host-status", fmt.Sprintf("request with Host %q (nobody's name) got status %d instead of 503", v.Host, rec.Code), x)
			return false
		}
		w.r.Count("chain_unresolved", 1)
	case served == "":
		w.violate("C10/chain/owned-host-not-served/"+v.Class, fmt.Sprintf("request with Host %q (cluster %q, endpoint ready) got status %d and reached no upstream", v.Host, owner, rec.Code), x)
		return false
	case served != owner:
		w.violate("C10/chain/served-by-wrong-cluster/"+v.Class, fmt.Sprintf("request with Host %q belongs to cluster %q but was served by the upstream of %q", v.Host, owner, served), x)
		return false
	default:
		w.r.Count("chain_served", 1)
	}
	return true
}

// ---- history generation ----

func randCase(g *vkit.Rand, s string) string {
	switch g.Intn(4) {
	case 0:
		return strings.ToLower(s)
	case 1:
		return strings.ToUpper(s)
	case 2:
		return mixCase(strings.ToLower(s))
	}
	return s
}

type gen struct {
	g       *vkit.Rand
	w       *world
	planned []Event
	classes map[string]bool
}

func (x *gen) live() []string {
	var out []string
	for _, c := range clusterNames {
		if _, ok := x.w.lister[c]; ok {
			out = append(out, c)
		}
	}
	return out
}

func (x *gen) pickCluster(preferLive bool) string {
	if l := x.live(); preferLive && len(l) > 0 {
		return l[x.g.Intn(len(l))]
	}
	// the two alias-like cluster names are rarer
	if x.g.Chance(0.8) {
		return clusterNames[x.g.Intn(4)]
	}
	return clusterNames[x.g.Intn(len(clusterNames))]
}

func (x *gen) freeAlias() string {
	g := x.g
	for try := 0; try < 8; try++ {
		a := aliasPool[g.Intn(len(aliasPool))]
		if _, owned := x.w.model.Owner[strings.ToLower(a)]; !owned {
			return randCase(g, a)
		}
	}
	return randCase(g, aliasPool[g.Intn(len(aliasPool))])
}

func (x *gen) cur(c string) *ObjSpec {
	if o, ok := x.w.lister[c]; ok {
		cp := *o
		cp.Names = append([]string{}, o.Names...)
		return &cp
	}
	return &ObjSpec{Cluster: c}
}

func (x *gen) next() Event {
	if len(x.planned) > 0 {
		e := x.planned[0]
		x.planned = x.planned[1:]
		if e.Kind == "redeliver" && x.w.pend[e.Name] == nil {
			return x.next()
		}
		return e
	}
	g, w := x.g, x.w
	roll := g.Intn(100)
	if l := x.live(); len(l) > 0 && g.Chance(0.08) {
		// one name is dropped and, in the same update, replaced by a duplicate (other spelling) of a name that stays - or of
		// the cluster's own name - so that the list keeps its length; afterwards another cluster claims the dropped name
		c := l[g.Intn(len(l))]
		if o := x.cur(c); w.pend[c] == nil && w.model.Live(c) && len(o.Names) >= 1 {
			j := g.Intn(len(o.Names))
			dropped := strings.ToLower(o.Names[j])
			rest := append(append([]string{}, o.Names[:j]...), o.Names[j+1:]...)
			stillListed := dropped == c
			for _, n := range rest {
				if strings.ToLower(n) == dropped {
					stillListed = true
				}
			}
			if !stillListed && w.model.Owner[dropped] == c {
				dup := c
				if len(rest) > 0 && g.Chance(0.6) {
					dup = rest[g.Intn(len(rest))]
				}
				// another spelling of the duplicated name (names are compared case-insensitively)
				if alt := strings.ToUpper(dup); alt != dup && g.Bool() {
					dup = alt
				} else {
					dup = mixCase(strings.ToLower(dup))
				}
				o.Names = append(rest, dup)
				if g.Bool() {
					g.Shuffle(o.Names)
				}
				x.classes["replaced-by-duplicate"] = true
				// the dropped name is free now: another cluster takes it
				b := x.pickCluster(g.Chance(0.6))
				if b != c && b != dropped {
					ob := x.cur(b)
					ob.Names = append(ob.Names, randCase(g, dropped))
					x.planned = append(x.planned, Event{Kind: "apply", Name: b, Obj: ob, Note: "takes the dropped name " + dropped})
				}
				return Event{Kind: "apply", Name: c, Obj: o, Note: "drops " + dropped + ", lists a duplicate of " + strings.ToLower(dup) + " instead (same length)"}
			}
		}
	}
	if l := x.live(); len(l) > 1 && g.Chance(0.22) {
		// a: a live cluster that holds at least one alias; b: another live cluster
		var withAlias []string
		for _, c := range l {
			if w.pend[c] == nil && len(w.model.NamesOf(c)) > 1 {
				withAlias = append(withAlias, c)
			}
		}
		a, b := "", l[g.Intn(len(l))]
		if len(withAlias) > 0 {
			a = withAlias[g.Intn(len(withAlias))]
		}
		if a != "" && a != b && w.pend[a] == nil && w.pend[b] == nil && w.model.Live(a) && w.model.Live(b) {
			var aAliases, bAliases []string
			for _, n := range w.model.NamesOf(a) {
				if n != a {
					aAliases = append(aAliases, n)
				}
			}
			for _, n := range w.model.NamesOf(b) {
				if n != b {
					bAliases = append(bAliases, n)
				}
			}
			if g.Bool() && len(aAliases) > 0 {
				// a long conflict: b claims a name a still holds, the queue retries b several times while the conflict lasts,
				// then an event of the OTHER cluster (update or delete of a) ends the conflict
				n := aAliases[g.Intn(len(aAliases))]
				ob := x.cur(b)
				ob.Names = append(ob.Names, randCase(g, n))
				for k := 0; k < 3+g.Intn(2); k++ {
					x.planned = append(x.planned, Event{Kind: "redeliver", Name: b, Note: "retry while the conflict lasts"})
				}
				if g.Bool() {
					oa := x.cur(a)
					var keep []string
					for _, s := range oa.Names {
						if strings.ToLower(s) != n {
							keep = append(keep, s)
						}
					}
					oa.Names = keep
					x.planned = append(x.planned, Event{Kind: "apply", Name: a, Obj: oa, Note: "gives up " + n + " after a long conflict"})
				} else {
					x.planned = append(x.planned, Event{Kind: "delete", Name: a, Note: "deleted after a long conflict"})
				}
				x.planned = append(x.planned, Event{Kind: "redeliver", Name: b, Note: "retry after the conflict ended"})
				x.classes["long-conflict"] = true
				return Event{Kind: "apply", Name: b, Obj: ob, Note: "claims " + n + " (held by " + a + " for a long time)"}
			}
			bAliases = append(bAliases, b) // b's own name is a name b holds, too
			if len(aAliases) > 0 {
				// a refused update that REPLACES a held name by a name of another cluster, then the cluster is deleted while
				// that refused version is its latest object; afterwards somebody else takes the name it held
				xn, yn := aAliases[g.Intn(len(aAliases))], bAliases[g.Intn(len(bAliases))]
				oa := x.cur(a)
				var keep []string
				for _, s := range oa.Names {
					if strings.ToLower(s) != xn {
						keep = append(keep, s)
					}
				}
				oa.Names = append(keep, randCase(g, yn))
				x.planned = append(x.planned, Event{Kind: "delete", Name: a, Note: "deleted while its refused version is the latest object"})
				ob := x.cur(b)
				ob.Names = append(ob.Names, randCase(g, xn))
				x.planned = append(x.planned, Event{Kind: "apply", Name: b, Obj: ob, Note: "takes " + xn + ", which the deleted cluster held"})
				x.classes["refused-replace-then-delete"] = true
				return Event{Kind: "apply", Name: a, Obj: oa, Note: "replaces " + xn + " by " + yn + " (held by " + b + ")"}
			}
		}
	}
	if l := x.live(); len(l) > 0 && g.Chance(0.12) {
		// in-place rotation of TLS material: same object name, same server names; only the key pair, only the client CA,
		// both, or one of them removed / added
		c := l[g.Intn(len(l))]
		if w.model.Live(c) && len(w.model.Cert[c]) == 1 {
			o := x.cur(c)
			other := func(v int) int { return (v + 1 + g.Intn(2)) % 3 } // a different variant; 0 = none (removed / added)
			what := ""
			switch g.Intn(3) {
			case 0:
				o.Cert, what = other(o.Cert), "key pair"
			case 1:
				o.CA, what = other(o.CA), "client CA"
			default:
				o.Cert, o.CA, what = other(o.Cert), other(o.CA), "key pair and client CA"
			}
			x.classes["rotation"] = true
			return Event{Kind: "apply", Name: c, Obj: o, Note: "rotate " + what + " in place"}
		}
	}
	switch {
	case roll < 22: // create or mutate with free aliases
		c := x.pickCluster(g.Chance(0.5))
		o := x.cur(c)
		switch g.Intn(5) {
		case 0:
			o.Names = append(o.Names, x.freeAlias())
		case 1:
			if len(o.Names) > 0 {
				i := g.Intn(len(o.Names))
				o.Names = append(o.Names[:i], o.Names[i+1:]...)
			} else {
				o.Names = append(o.Names, x.freeAlias())
			}
		case 2:
			o.Names = []string{x.freeAlias(), x.freeAlias()}
		case 3:
			o.Cert, o.CA = g.Intn(3), g.Intn(3)
		case 4:
			o.Names = nil
		}
		if _, ok := w.lister[c]; !ok {
			o.Cert, o.CA = g.Intn(3), g.Intn(3)
		}
		return Event{Kind: "apply", Name: c, Obj: o, Note: "mutate"}
	case roll < 32: // delete
		c := x.pickCluster(true)
		x.classes["delete"] = true
		return Event{Kind: "delete", Name: c}
	case roll < 42: // re-delivery of a refused, still current object
		for _, c := range clusterNames {
			if w.pend[c] != nil {
				x.classes["redeliver"] = true
				return Event{Kind: "redeliver", Name: c}
			}
		}
		return x.next()
	case roll < 57: // collision: claim a name that belongs to another cluster (alias or the other cluster's own name)
		var owned []string
		for n := range w.model.Owner {
			owned = append(owned, n)
		}
		if len(owned) == 0 {
			return x.next()
		}
		sortStrings(owned)
		n := owned[g.Intn(len(owned))]
		c := x.pickCluster(g.Chance(0.6))
		if g.Chance(0.15) && isClusterName(n) {
			// an object whose own name is somebody's alias
			c = n
		}
		o := x.cur(c)
		o.Names = append(o.Names, randCase(g, n))
		if g.Chance(0.3) {
			o.Names = append(o.Names, x.freeAlias())
		}
		if g.Chance(0.3) {
			o.Cert, o.CA = g.Intn(3), g.Intn(3)
		}
		x.classes["collision"] = true
		return Event{Kind: "apply", Name: c, Obj: o, Note: "claims " + n}
	case roll < 75: // alias move A -> B, in either order
		var as []string
		for n, ow := range w.model.Owner {
			if n != ow {
				as = append(as, n)
			}
		}
		if len(as) == 0 {
			return x.next()
		}
		sortStrings(as)
		n := as[g.Intn(len(as))]
		a := w.model.Owner[n]
		if _, ok := w.lister[a]; !ok {
			return x.next()
		}
		b := x.pickCluster(g.Chance(0.7))
		if b == a || b == n {
			return x.next()
		}
		oa := x.cur(a)
		var keep []string
		for _, s := range oa.Names {
			if strings.ToLower(s) != n {
				keep = append(keep, s)
			}
		}
		oa.Names = keep
		ob := x.cur(b)
		ob.Names = append(ob.Names, randCase(g, n))
		drop := Event{Kind: "apply", Name: a, Obj: oa, Note: "gives up " + n}
		take := Event{Kind: "apply", Name: b, Obj: ob, Note: "takes " + n}
		if g.Bool() {
			x.classes["move-release-first"] = true
			x.planned = append(x.planned, take)
			return drop
		}
		x.classes["move-claim-first"] = true
		x.planned = append(x.planned, drop, Event{Kind: "redeliver", Name: b})
		return take
	case roll < 83: // rename by delete + create under another name with the same aliases
		l := x.live()
		if len(l) == 0 {
			return x.next()
		}
		a := l[g.Intn(len(l))]
		b := x.pickCluster(false)
		if _, ok := w.lister[b]; ok || b == a {
			return x.next()
		}
		ob := &ObjSpec{Cluster: b, Names: append([]string{}, w.lister[a].Names...), Cert: g.Intn(3), CA: g.Intn(3)}
		x.classes["rename"] = true
		if g.Chance(0.3) {
			// wrong order: the new name is created first (refused while the old cluster holds the aliases), then redelivered
			x.planned = append(x.planned, Event{Kind: "delete", Name: a}, Event{Kind: "redeliver", Name: b})
			return Event{Kind: "apply", Name: b, Obj: ob, Note: "rename of " + a + " (create first)"}
		}
		x.planned = append(x.planned, Event{Kind: "apply", Name: b, Obj: ob, Note: "rename of " + a})
		return Event{Kind: "delete", Name: a}
	case roll < 93: // case change / reorder / duplicate of own aliases
		l := x.live()
		if len(l) == 0 {
			return x.next()
		}
		c := l[g.Intn(len(l))]
		o := x.cur(c)
		if len(o.Names) == 0 {
			return x.next()
		}
		switch g.Intn(4) {
		case 0:
			for i := range o.Names {
				o.Names[i] = randCase(g, o.Names[i])
			}
		case 1:
			g.Shuffle(o.Names)
		case 2:
			o.Names = append(o.Names, randCase(g, o.Names[g.Intn(len(o.Names))]))
		case 3:
			o.Names = append(o.Names, randCase(g, c)) // own name as alias
		}
		x.classes["case-change"] = true
		return Event{Kind: "apply", Name: c, Obj: o, Note: "case/reorder/duplicate"}
	default: // delete event for something that is not in the lister (never created, refused earlier, or already deleted)
		c := clusterNames[g.Intn(len(clusterNames))]
		if _, ok := w.lister[c]; ok {
			return x.next()
		}
		return Event{Kind: "delete", Name: c, Note: "not in lister"}
	}
}

func isClusterName(n string) bool {
	for _, c := range clusterNames {
		if c == n {
			return true
		}
	}
	return false
}

func sortStrings(s []string) {
	for i := 1; i < len(s); i++ {
		for j := i; j > 0 && s[j] < s[j-1]; j-- {
			s[j], s[j-1] = s[j-1], s[j]
		}
	}
}

func TestCheck(t *testing.T) {
	vkit.Run(t, "C10", "exploration", func(r *vkit.R) {
		initMaterial()
		installManagerLogSink()
		go observeQueueContract() // the real pkg/syncqueue, observed next to the other phases (about 8 s of waiting, no CPU)
		r.Rule("seeded random histories of apply/delete/re-delivery events over 6 cluster names and a 9-entry alias pool (mixed case, includes other clusters' names), " +
			"with scripted sub-sequences: collisions (a name of another live cluster is claimed, also as the object's own name), alias moves A->B in both orders " +
			"(release first; claim first = refused, then re-delivered after the release), rename by delete+create in both orders, case changes / reorders / duplicates, " +
			"long conflicts (the refused object is retried 3-4 times while the other cluster still holds the name, then an update or delete of the OTHER cluster ends the conflict), " +
			"a refused update that replaces a held name by another cluster's name followed by the deletion of the cluster and a new claimant for the name it held, " +
			"delete events for objects the controller refused or never saw, a name dropped and replaced in the same update by a duplicate (other spelling) of a remaining name or of the cluster's own name " +
			"so that the list keeps its length, followed by another cluster claiming the dropped name, in-place rotation of a live cluster's serving key pair / client CA / both (changed, removed, added; names unchanged) " +
			"with the cluster's hosts used as SNI (GetConfigForClient and, in traffic histories, a real handshake) immediately before and after the update. The base GetConfigForClientFunc " +
			"returns one long-lived *tls.Config in 2 of 3 histories and a fresh clone in the others. The real UpstreamClusterController processes every event (VerifSync over a scripted lister). " +
			"After EVERY event: all 15 base names (incl. a raw UTF-8 name) (incl. a 240-character name of 63-character labels and an IDN name in wire form) x 8 case/port variants (ports 443, 6443, 0, 65535 and the empty port) are resolved through the production path and compared with a first-claimant ownership model " +
			"(I1 resolution, I2 frame, I3 delete), the TLS config from WrapGetConfigForClient and SNIVerifyOptions are compared with the owner's certificate / client CA " +
			"(behaviourally: which client certificates verify) (I4); on a sample of events real requests go through the handler chain to per-cluster stub upstreams (I5) " +
			"and real TLS handshakes are made against a listener using the wrapped GetConfigForClient (I6). Concurrent part (names-under-update): 2 000 updates (thorough 20 000) that change one cluster's server-name list (6 volatile aliases in random subsets, order and case shuffled) " +
			"while keeping 5 aliases and the cluster's own name, applied while 3-6 goroutines resolve the kept names and an untouched cluster's names through Manager.Get (case/port variants), " +
			"WrapGetConfigForClient and the handler chain: a kept name must resolve to its cluster at every moment. Non-trivial = the history contains a collision, a move, a rename or a delete of a live cluster; distinct = hash of the event list.")
		r.Assume("after a refused (conflicting) object the statement leaves open whether its non-conflicting part takes effect; both outcomes are accepted and the observed one is adopted")
		r.Assume("queue contract, observed on the real pkg/syncqueue in every run (queue_test.go): an object whose sync asks for RequeueAfter is re-delivered for as long as it keeps asking; an object whose sync returns an error is re-delivered N more times (N measured, 'dropped' = no delivery for 5 s while the requeueing control object keeps being delivered) and then dropped; at the end of a history everything still pending is delivered, then nothing is in flight")
		r.Assume("SNI values carry no port (RFC 6066); port variants are exercised through the Host-header paths (handler chain, SNIVerifyOptions)")

		nh := r.N(1500, 20000)
		evPer := 15
		workers := runtime.GOMAXPROCS(0)
		if workers > 16 {
			workers = 16
		}
		var mu sync.Mutex
		classCount := map[string]int{}
		r.Parallel(nh, workers, func(i int, g *vkit.Rand) {
			deepHist := i%3 == 0
			w := newWorld(r, deepHist, i)
			defer w.close()
			x := &gen{g: g, w: w, classes: map[string]bool{}}
			p := vkit.Safely(func() {
				for s := 0; s < evPer && !w.failed; s++ {
					ev := x.next()
					w.step(ev, g, deepHist && g.Chance(0.5))
				}
			})
			if p != nil {
				r.Inconclusive(fmt.Sprintf("harness panic in history %d: %v", i, p))
				return
			}
			if !w.failed {
				vkit.Safely(func() { w.quiesce(g) })
			}
			if !w.failed {
				w.shutdownCheck()
			}
			r.Eval(1)
			b, _ := json.Marshal(w.events)
			if len(x.classes) > 0 {
				r.Distinct(vkit.Hash64(string(b)))
			}
			mu.Lock()
			for c := range x.classes {
				classCount[c]++
			}
			mu.Unlock()
			if i < 2 {
				r.Sample(map[string]interface{}{"history": i, "events": w.events, "final_owner_map": w.model.Owner})
			}
		})
		namesUnderUpdate(r)
		reportQueueContract(r)
		r.Set("histories_by_scenario_class", classCount)
		r.Set("events_per_history", evPer)
		r.Require(r.Counter("events") >= int64(nh*evPer*9/10), "too few events processed")
		r.Require(r.Counter("refusals_observed") >= int64(nh/4), "too few refused (conflicting) objects observed")
		r.Require(r.Counter("redeliveries") >= int64(nh/10), "too few re-deliveries")
		r.Require(r.Counter("deletes_of_live_cluster") >= int64(nh/4), "too few deletes of live clusters")
		r.Require(r.Counter("chain_served") >= int64(nh/10) && r.Counter("chain_unresolved") >= int64(nh/30), "too few requests through the handler chain")
		r.Require(r.Counter("handshakes_checked") >= int64(nh/3), "too few TLS handshakes")
		r.Require(r.Counter("chain_requests_whose_sni_names_another_cluster") >= int64(nh/10) && r.Counter("chain_requests_with_ip_literal_host") >= int64(nh/10), "too few chain requests with a foreign SNI / an IP literal host")
		r.Require(r.Counter("clusters_recreated_under_same_name") >= int64(nh/4), "too few clusters deleted and created again under the same name")
		r.Require(r.Counter("shutdown_cluster_contexts_checked") >= int64(nh), "too few shutdown checks")
		r.Require(r.Counter("rotations") >= int64(nh/2) && r.Counter("rotation_hosts_used_before_and_after") >= int64(nh) && r.Counter("rotation_handshakes_after") >= int64(nh/4),
			"too few in-place rotations of TLS material with hosts used before and after")
		r.Require(r.Counter("mid_update_schedule_points") >= int64(nh*10), "too few schedule points inside updates (the cluster manager's log lines were not seen)")
		r.Require(r.Counter("quiescence_clusters_checked") >= int64(nh) && r.Counter("quiescence_redeliveries") >= int64(nh/10), "too few quiescence checks")
		for _, c := range []string{"long-conflict", "refused-replace-then-delete", "replaced-by-duplicate", "rotation", "collision", "move-release-first", "move-claim-first", "rename", "case-change", "delete", "redeliver"} {
			r.Require(classCount[c] >= nh/20, "scenario class "+c+" under-represented")
		}
	})
}
