package c10

import (
	"fmt"
	"sync"
	"sync/atomic"
	"time"

	metav1 "k8s.io/apimachinery/pkg/apis/meta/v1"

	proxyv1alpha1 "github.com/kubewharf/kubegateway/pkg/apis/proxy/v1alpha1"
	"github.com/kubewharf/kubegateway/pkg/syncqueue"

	"verifharness/vkit"
)

// The quiescence oracle of this check rests on what the controller's work queue does with an object whose sync did not
// succeed. That contract is OBSERVED here on the real pkg/syncqueue (the constructor the controller uses,
// NewPassthroughSyncQueue, one worker, a stub sync function), next to the other phases:
//
//	(A) a sync that asks for RequeueAfter (with the controller's MaxRequeueTimes: 3) is delivered again for as long as it keeps
//	    asking - observed: at least 10 deliveries, far beyond MaxRequeueTimes;
//	(B) a sync that returns an error is delivered again N more times and then dropped - N is measured and is what the model
//	    uses (errRetries()); "dropped" = no further delivery during a quiet period of 5 s, five times the queue's worker
//	    restart interval, while (A)'s object keeps being delivered in the same queue (the control);
//	(C) a sync that succeeds is not delivered again.
//
// If the queue's retry policy changes, either the measured N changes (and the model follows it) or an observation is not
// made and the run is INCONCLUSIVE; the oracle is never applied under a contract that was not observed.

type queueContract struct {
	done       chan struct{}
	errRetries int // deliveries after the first one for an always-failing object; -1 = never dropped (within 10 deliveries)
	problem    string
}

var qc = &queueContract{done: make(chan struct{})}

// errRetries is what the histories use when a sync returned an error (never on the unchanged tree, so they normally do
// not wait for the observation).
func errRetries() int {
	<-qc.done
	if qc.errRetries < 0 {
		return 1 << 20
	}
	return qc.errRetries
}

func observeQueueContract() {
	defer close(qc.done)
	var mu sync.Mutex
	counts := map[string]*int64{"requeue": new(int64), "error": new(int64), "ok": new(int64)}
	objs := map[string]*proxyv1alpha1.UpstreamCluster{}
	for k := range counts {
		objs[k] = &proxyv1alpha1.UpstreamCluster{ObjectMeta: metav1.ObjectMeta{Name: "queue-contract-" + k}}
	}
	sq := syncqueue.NewPassthroughSyncQueue(proxyv1alpha1.SchemeGroupVersion.WithKind("UpstreamCluster"), func(obj interface{}) (syncqueue.Result, error) {
		o, _ := obj.(*proxyv1alpha1.UpstreamCluster)
		mu.Lock()
		defer mu.Unlock()
		switch o {
		case objs["requeue"]:
			atomic.AddInt64(counts["requeue"], 1)
			// exactly the controller's result for a refused object, with a shorter delay
			return syncqueue.Result{RequeueAfter: 100 * time.Millisecond, MaxRequeueTimes: 3}, nil
		case objs["error"]:
			atomic.AddInt64(counts["error"], 1)
			return syncqueue.Result{}, fmt.Errorf("scripted sync error")
		case objs["ok"]:
			atomic.AddInt64(counts["ok"], 1)
		}
		return syncqueue.Result{}, nil
	})
	sq.Run(1)
	defer sq.ShutDown()
	sq.Enqueue(objs["requeue"])
	sq.Enqueue(objs["ok"])
	sq.Enqueue(objs["error"])

	// (B) the failing object: follow its deliveries until a quiet period, or 10 deliveries
	last := int64(0)
	for {
		advanced := vkit.WaitFor(5*time.Second, func() bool { return atomic.LoadInt64(counts["error"]) > last })
		if !advanced {
			break
		}
		last = atomic.LoadInt64(counts["error"])
		if last >= 10 {
			break
		}
	}
	switch {
	case last == 0:
		qc.problem = "the failing object was never delivered by the real queue"
		return
	case last >= 10:
		qc.errRetries = -1
	default:
		qc.errRetries = int(last) - 1
	}
	// (A) the control: the requeueing object must have been delivered all along, far more often than MaxRequeueTimes
	if !vkit.WaitFor(10*time.Second, func() bool { return atomic.LoadInt64(counts["requeue"]) >= 10 }) {
		qc.problem = fmt.Sprintf("an object whose sync keeps asking for RequeueAfter was delivered only %d times by the real queue", atomic.LoadInt64(counts["requeue"]))
		return
	}
	if n := atomic.LoadInt64(counts["ok"]); n != 1 {
		qc.problem = fmt.Sprintf("an object whose sync succeeded was delivered %d times", n)
	}
	qcRequeue, qcOK = atomic.LoadInt64(counts["requeue"]), atomic.LoadInt64(counts["ok"])
}

var qcRequeue, qcOK int64

func reportQueueContract(r *vkit.R) {
	select {
	case <-qc.done:
	case <-time.After(120 * time.Second):
		r.Inconclusive("the observation of the real work queue's retry contract did not finish within the 120s watchdog")
		return
	}
	if qc.problem != "" {
		r.Inconclusive("work queue contract not observed: " + qc.problem)
		return
	}
	r.Set("queue_contract_error_retries_observed", qc.errRetries)
	r.Set("queue_contract_requeue_after_deliveries_observed", qcRequeue)
	r.Set("queue_contract_success_deliveries_observed", qcOK)
	r.Count("queue_contract_observations", 3)
}
