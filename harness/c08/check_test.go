package c08

import (
	"fmt"
	"math"
	"regexp"
	"sort"
	"strconv"
	"strings"
	"sync"
	"sync/atomic"
	"testing"
	"time"

	"github.com/anishathalye/porcupine"
	metav1 "k8s.io/apimachinery/pkg/apis/meta/v1"

	proxyv1alpha1 "github.com/kubewharf/kubegateway/pkg/apis/proxy/v1alpha1"
	"github.com/kubewharf/kubegateway/pkg/ratelimiter/store/flowcontrol"
	"github.com/kubewharf/kubegateway/pkg/ratelimiter/util"

	"verifharness/bed"
	"verifharness/vkit"
)

func TestCheck(t *testing.T) {
	vkit.Run(t, "C08", "exploration", func(r *vkit.R) {
		r.Rule("max-in-flight: (S) seeded sequential op lists (request ids as small integers and at UnixNano scale; fresh, equal, stale from 1 ns to hours behind incl. latest-3e10+-1, 1, <= 0; counts 0..limit+2 and int32 boundaries (MaxInt32, MaxInt32-1, 2^30, 2^30+1, limit, limit+1, the count that takes the sum to 2^31), limits up to MaxInt32, removals, limit raised/lowered) on flowcontrol.NewGlobalFlowControl objects and " +
			"through the real server (DoAcquire / DeleteInstanceState / cluster handler), every answer and DebugInfo() compared with the reference model (model.go); " +
			"(B) concurrent batches of five kinds (one writer per instance; several writers per instance; removals racing with other instances' reports; several removals of one instance; " +
			"removal racing with the instance's own reports) with schedule points at the lock/atomic statements, accounting checked at quiescence; " +
			"(H) histories of <= 60 calls checked for linearizability against the model with porcupine. token bucket: (T) 2-8 instances hammer DoAcquire with asks from " +
			"{0,1,2,3,5,8,16,burst,burst+1,2*burst,-1,-7}; window bound on (t_call,t_return,granted) over all windows; grants in {n,n/2,n/4,n/8,0}. " +
			"Non-trivial = the limit was reached (an increase refused / an ask not fully granted) or a removal/stale id was involved; distinct = hash of the op list / history.")
		r.Assume("the count on record after a call is the `latest` value it returns; a refusal of an increase that would fit is legal (see model.go)")
		if vkit.Instrumented() {
			vkit.Sched.Enable(uint64(r.Seed), 0.20, 0.05, 0.002)
			defer vkit.Sched.Disable()
		}
		sequential(r)
		batches(r)
		histories(r)
		negativeAsks(r)
		tokenBucket(r)
		batchedAcquire(r)
		tokenBucketReconfigured(r)
		tokenBucketReconfiguredWhileAsked(r)
		r.ReportSched()
		r.Require(r.Counter("reinit_premise_not_met") == 0 && !bed.PremiseBroken(),
			"a server's store held state that did not come through that server (stores shared between servers / surviving a loss of leadership: C13's clause): the server-based scenarios give no verdict")
		r.Require(r.Counter("seq_ops") >= 20000 && r.Counter("seq_increase_applied") >= 1000 && r.Counter("seq_increase_refused") >= 1000 &&
			r.Counter("seq_boundary_counts") >= 2000 && r.Counter("seq_asks_whose_sum_exceeds_int32") >= 300 && r.Counter("batch_boundary_counts") >= 1000 &&
			r.Counter("seq_negative_id_after_a_positive_one") >= 200 && r.Counter("seq_stale_id") >= 500 && r.Counter("seq_stale_id_far_behind") >= 300 && r.Counter("seq_removals") >= 500 && r.Counter("seq_decrease_while_over_limit") >= 100, "sequential part observed too little")
		r.Require(r.Counter("batch_racing-removals") >= 50 && r.Counter("batch_removal-vs-own-report") >= 50 && r.Counter("batch_reports") >= 50 &&
			r.Counter("batch_reports-multiwriter") >= 50 && r.Counter("batch_removals-vs-other-reports") >= 50 && r.Counter("batch_reports+resize") >= 50 &&
			r.Counter("batch_racing-removals+resize") >= 50 && r.Counter("batch_removal-vs-own-report+resize") >= 50 && r.Counter("batch_negative_asks_racing") >= 200, "too few concurrent batches")
		r.Require(r.Counter("seq_cases_with_60_instances") >= 100 && r.Counter("seq_ids_at_the_top_of_int64") >= 200, "too few cases with many instances / ids at the top of the int64 range")
		r.Require(r.Counter("seq_cases_with_realistic_identities") >= 200 && r.Counter("seq_reinit_schema-recreated") >= 100 && r.Counter("seq_reinit_type-toggled") >= 100 && r.Counter("seq_reinit_leader-restart") >= 100,
			"too few cases with realistic identities / re-initialisations of the flow control")
		r.Require(r.Counter("batch_increase_refused") >= 200 && r.Counter("batch_decreases") >= 200, "batches did not reach the limit")
		r.Require(r.Counter("lin_histories") >= 100 && r.Counter("lin_overlapping_pairs") >= 500, "too few / too sequential porcupine histories")
		r.Require(r.Counter("tb_runs_serial_exact_bound") >= 20 && r.Counter("tb_runs_concurrent_goroutines_taking_turns_exact_bound") >= 20 && r.Counter("tb_grants") >= 200 && r.Counter("tb_refused_or_partial") >= 200 && r.Counter("tb_negative_asks") >= 20, "token-bucket runs observed too little")
	})
}

// ---------------------------------------------------------------- targets

func mifSchema(name string, max int32) proxyv1alpha1.FlowControlSchema {
	return proxyv1alpha1.FlowControlSchema{Name: name, Strategy: proxyv1alpha1.GlobalCountLimit,
		FlowControlSchemaConfiguration: proxyv1alpha1.FlowControlSchemaConfiguration{GlobalMaxRequestsInflight: &proxyv1alpha1.MaxRequestsInflightFlowControlSchema{Max: max}}}
}

func tbSchema(name string, qps, burst int32) proxyv1alpha1.FlowControlSchema {
	return proxyv1alpha1.FlowControlSchema{Name: name, Strategy: proxyv1alpha1.GlobalCountLimit,
		FlowControlSchemaConfiguration: proxyv1alpha1.FlowControlSchemaConfiguration{GlobalTokenBucket: &proxyv1alpha1.TokenBucketFlowControlSchema{QPS: qps, Burst: burst}}}
}

type debug struct {
	Max, Count, Total int64
	Per               map[string]int64
}

var (
	debugRe = regexp.MustCompile(`^name=(\S*) max=(-?\d+) count=(-?\d+) total=(-?\d+) details=(.*)$`)
)

func parseDebug(s string) (debug, bool) {
	m := debugRe.FindStringSubmatch(s)
	if m == nil {
		return debug{}, false
	}
	d := debug{Per: map[string]int64{}}
	d.Max, _ = strconv.ParseInt(m[2], 10, 64)
	d.Count, _ = strconv.ParseInt(m[3], 10, 64)
	d.Total, _ = strconv.ParseInt(m[4], 10, 64)
	// "[<instance>: <count>],[...]": the instance may contain ':', '[' and ']' (ip:port, IPv6) - entries are separated by "],[",
	// the count follows the LAST ": " of an entry
	if det := m[5]; len(det) >= 2 {
		for _, e := range strings.Split(det[1:len(det)-1], "],[") {
			if k := strings.LastIndex(e, ": "); k > 0 {
				v, _ := strconv.ParseInt(e[k+2:], 10, 64)
				d.Per[e[:k]] = v
			}
		}
	}
	return d, true
}

// target is a max-in-flight global flow control, reached directly or through the server.
type target interface {
	Set(in In) Out
	Resize(max int32)
	Debug() (debug, bool)
	Name() string
}

type direct struct{ fc flowcontrol.GlobalFlowControl }

func newDirect(max int32) *direct {
	return &direct{fc: flowcontrol.NewGlobalFlowControl(mifSchema("s", max))}
}

func toOut(accept bool, latest int32, err error) Out {
	o := Out{Accept: accept, Latest: latest}
	if err == flowcontrol.RequestIDTooOld {
		o.TooOld = true
	} else if err != nil {
		o.Err = err.Error()
	}
	return o
}

func (d *direct) Set(in In) Out        { return toOut(d.fc.SetState(in.Instance, in.ID, in.Count)) }
func (d *direct) Resize(max int32)     { d.fc.Resize(max, 0) }
func (d *direct) Debug() (debug, bool) { return parseDebug(d.fc.DebugInfo()) }
func (d *direct) Name() string         { return "flowcontrol.NewGlobalFlowControl" }

type viaServer struct {
	srv      *bed.LimiterServer
	upstream string
}

func newViaServer(max int32, i int) (*viaServer, error) {
	v := &viaServer{srv: bed.NewLimiterServer(bed.LimiterOptions{LeadAll: true, Shards: 1 + i%3}), upstream: fmt.Sprintf("up%s%d", phaseTag, i)}
	return v, v.apply(max)
}

func (v *viaServer) apply(max int32) error {
	c := &proxyv1alpha1.UpstreamCluster{ObjectMeta: metav1.ObjectMeta{Name: v.upstream}}
	c.Spec.FlowControl.Schemas = []proxyv1alpha1.FlowControlSchema{mifSchema("s", max)}
	return v.srv.ApplyUpstream(c)
}

func (v *viaServer) store() interface {
	GetFlowControl(cluster, name string) (flowcontrol.GlobalFlowControl, error)
	DeleteInstanceState(instance string)
} {
	return v.srv.Handle.Store(util.GetShardID(v.upstream, v.srv.Shards))
}

func (v *viaServer) Set(in In) Out {
	if in.Count < 0 { // what the cleanup passes do for a dead instance
		v.store().DeleteInstanceState(in.Instance)
		return Out{Accept: false, Latest: -1}
	}
	req := &proxyv1alpha1.RateLimitAcquire{ObjectMeta: metav1.ObjectMeta{Name: v.upstream},
		Spec: proxyv1alpha1.RateLimitAcquireSpec{Instance: in.Instance, RequestID: in.ID,
			Requests: []proxyv1alpha1.RateLimitAcquireRequest{{FlowControl: "s", Tokens: in.Count}}}}
	var res *proxyv1alpha1.RateLimitAcquire
	var err error
	if p := vkit.Safely(func() { res, err = v.srv.Limiter.DoAcquire(v.upstream, req) }); p != nil {
		return Out{Err: fmt.Sprintf("DoAcquire panicked: %v", p)}
	}
	if err != nil || res == nil || len(res.Status.Results) != 1 {
		return Out{Err: fmt.Sprintf("DoAcquire: %v", err)}
	}
	rs := res.Status.Results[0]
	switch {
	case rs.Error == flowcontrol.RequestIDTooOld.Error():
		return Out{TooOld: true, Latest: rs.Limit}
	case rs.Error != "":
		return Out{Err: rs.Error}
	}
	return Out{Accept: rs.Accept, Latest: rs.Limit}
}

func (v *viaServer) Resize(max int32) { _ = v.apply(max) }

type askOut struct {
	refusedWithError bool
	accept           bool
	limit            int32
	err              string
}

// ask sends one raw DoAcquire item (any token amount, id 0) and tells how it was answered.
func (v *viaServer) ask(inst string, tokens int32) askOut {
	req := &proxyv1alpha1.RateLimitAcquire{ObjectMeta: metav1.ObjectMeta{Name: v.upstream},
		Spec: proxyv1alpha1.RateLimitAcquireSpec{Instance: inst, Requests: []proxyv1alpha1.RateLimitAcquireRequest{{FlowControl: "s", Tokens: tokens}}}}
	var res *proxyv1alpha1.RateLimitAcquire
	var err error
	if p := vkit.Safely(func() { res, err = v.srv.Limiter.DoAcquire(v.upstream, req) }); p != nil {
		return askOut{err: fmt.Sprintf("panic: %v", p)}
	}
	if err != nil || res == nil || len(res.Status.Results) != 1 {
		return askOut{refusedWithError: err != nil, err: fmt.Sprint(err)}
	}
	rs := res.Status.Results[0]
	return askOut{refusedWithError: !rs.Accept && rs.Error != "", accept: rs.Accept, limit: rs.Limit, err: rs.Error}
}

// recreate: the schema is removed from the cluster and added again under the same name (a new flow-control object).
func (v *viaServer) recreate(max int32) error {
	c := &proxyv1alpha1.UpstreamCluster{ObjectMeta: metav1.ObjectMeta{Name: v.upstream}}
	c.Spec.FlowControl.Schemas = []proxyv1alpha1.FlowControlSchema{mifSchema("other", 3)}
	if err := v.srv.ApplyUpstream(c); err != nil {
		return err
	}
	return v.apply(max)
}

// toggleType: the schema becomes a token bucket and then max-in-flight again (same name).
func (v *viaServer) toggleType(max int32) error {
	c := &proxyv1alpha1.UpstreamCluster{ObjectMeta: metav1.ObjectMeta{Name: v.upstream}}
	c.Spec.FlowControl.Schemas = []proxyv1alpha1.FlowControlSchema{tbSchema("s", 100, 10)}
	if err := v.srv.ApplyUpstream(c); err != nil {
		return err
	}
	return v.apply(max)
}

// restart: the server loses the leadership of the upstream's shard and gains it again (new store, flow controls re-built
// from the lister).
func (v *viaServer) restart() {
	sh := util.GetShardID(v.upstream, v.srv.Shards)
	v.srv.Elector.Lose(sh, "")
	v.srv.Elector.Gain(sh)
}
func (v *viaServer) Debug() (debug, bool) {
	fc, err := v.store().GetFlowControl(v.upstream, "s")
	if err != nil {
		return debug{}, false
	}
	return parseDebug(fc.DebugInfo())
}
func (v *viaServer) Name() string { return "rateLimiter.DoAcquire/DeleteInstanceState" }

// viol records a violation found through a limiter server - unless the premise is broken that the server's stores hold only
// what came through this server (bed.StoreHasForeignUpstreams; C13's statement): then there is no verdict.
func viol(r *vkit.R, srv *bed.LimiterServer, sig, what string, witness interface{}) {
	if (srv != nil && bed.StoreHasForeignUpstreams(srv)) || (srv == nil && bed.PremiseBroken()) {
		r.Count("reinit_premise_not_met", 1)
		return
	}
	r.Violation(sig, what, witness)
}

// phaseTag makes the upstream names of every scenario of every phase unique in the process (the phases run one after the
// other; a name of its own per server is what lets bed.StoreHasForeignUpstreams recognise state that came from another server).
var phaseTag string

func srvOf(tg target) *bed.LimiterServer {
	if v, ok := tg.(*viaServer); ok {
		return v.srv
	}
	return nil
}

// ---------------------------------------------------------------- judging one answer

// classify names the clause of the statement an impossible answer breaks (for the signature).
func classify(m *Model, in In, out Out) string {
	if out.Err != "" {
		return "unexpected-error"
	}
	if in.Count < 0 {
		return "removal-answer"
	}
	cur, exists := m.Inst[in.Instance]
	stale := in.ID != 0 && exists && cur.HasID && in.ID <= cur.LastID
	switch {
	case stale && !out.TooOld:
		switch {
		case in.ID < 0:
			return "stale-id-accepted/negative-id"
		case in.ID == cur.LastID:
			return "stale-id-accepted/equal-id"
		case cur.LastID-in.ID > 1e9:
			return "stale-id-accepted/far-older-id" // more than a second (in UnixNano ids) behind
		}
		return "stale-id-accepted/older-id"
	case !stale && out.TooOld:
		return "fresh-id-refused"
	case in.Count <= cur.Count:
		if m.Total() > int64(m.Max) {
			return "decrease-not-applied/limit-below-total"
		}
		return "decrease-not-applied/within-limit"
	case out.Latest == in.Count:
		if m.Total()-int64(cur.Count)+int64(in.Count) > math.MaxInt32 {
			return "grant-beyond-limit/int32-wrap" // the sum of the counts on record no longer fits the int32 running total
		}
		return "grant-beyond-limit"
	}
	return "answer-inconsistent"
}

func compareDebug(m *Model, d debug) string {
	if d.Max != int64(m.Max) {
		return fmt.Sprintf("the limit in force is %d, the configured global limit is %d", d.Max, m.Max)
	}
	if d.Count != d.Total {
		return fmt.Sprintf("running total count=%d but the per-instance counts sum to %d", d.Count, d.Total)
	}
	if d.Total != m.Total() {
		return fmt.Sprintf("running total %d, the counts accepted so far sum to %d", d.Total, m.Total())
	}
	for k, v := range m.Inst {
		if d.Per[k] != int64(v.Count) {
			return fmt.Sprintf("instance %s has %d on record, last accepted count is %d", k, d.Per[k], v.Count)
		}
	}
	for k, v := range d.Per {
		if _, ok := m.Inst[k]; !ok && v != 0 {
			return fmt.Sprintf("instance %s has %d on record but was removed / never reported", k, v)
		}
	}
	return ""
}

// c32 clamps to the int32 range of a count / limit.
func c32(v int64) int32 {
	if v > math.MaxInt32 {
		return math.MaxInt32
	}
	if v < 0 {
		return 0
	}
	return int32(v)
}

func rng(g *vkit.Rand, lo, hi int64) int64 {
	if hi <= lo {
		return lo
	}
	return lo + int64(g.Uint64()%uint64(hi-lo+1))
}

var bigLimits = []int32{1 << 30, 1<<30 + 1, math.MaxInt32 - 1, math.MaxInt32}

// boundaryCount: counts at the edges of the int32 range and of the limit, and the count that makes the sum of all counts
// (others = what the other instances hold) land exactly on 2^31, one past the largest int32.
func boundaryCount(g *vkit.Rand, max int32, others int64) int32 {
	switch g.Intn(8) {
	case 0:
		return math.MaxInt32
	case 1:
		return math.MaxInt32 - 1
	case 2:
		return 1 << 30
	case 3:
		return 1<<30 + 1
	case 4:
		return c32(int64(max) + 1)
	case 5:
		return max
	case 6:
		if w := int64(1)<<31 - others; w >= 1 && w <= math.MaxInt32 {
			return int32(w)
		}
		return math.MaxInt32
	}
	return c32(int64(1)<<31 - others + rng(g, 0, 2))
}

// ---------------------------------------------------------------- (S) sequential

type seqOp struct {
	Kind string `json:"kind"` // report | stale | removal | resize
	In   *In    `json:"in,omitempty"`
	Out  *Out   `json:"out,omitempty"`
	Max  int32  `json:"newLimit,omitempty"`
}

func sequential(r *vkit.R) {
	phaseTag = "S"
	n := r.N(4000, 40000)
	r.Parallel(n, 16, func(i int, g *vkit.Rand) {
		max := g.PickI32([]int32{1, 2, 3, 5, 10, 50})
		if i%8 == 5 || i%8 == 7 { // limits of the order of the int32 range (direct and through the server)
			max = g.PickI32(bigLimits)
			r.Count("seq_cases_with_limit_near_int32_range", 1)
		}
		var tg target
		if i%4 == 3 {
			v, err := newViaServer(max, i)
			if err != nil {
				r.Inconclusive("ApplyUpstream failed: " + err.Error())
				return
			}
			tg = v
		} else {
			tg = newDirect(max)
		}
		m := NewModel(max)
		k := g.Range(1, 5)
		names := []string{"gw0", "gw1", "gw2", "gw3", "gw4"}
		if i%5 == 2 || i%20 == 3 { // identities as gateways really have them; "a:b" / "a-b" are two different instances
			names = []string{"10.0.0.7:6443-a", "10.0.0.7-6443-a", "[fd00::1]:6443-b", "Node.A_1", "gw-é中", strings.Repeat("n", 70) + "-x"}[:k+1]
			r.Count("seq_cases_with_realistic_identities", 1)
		}
		if i%25 == 7 { // many instances on one flow control
			k = 60
			names = make([]string, k)
			for q := range names {
				names[q] = fmt.Sprintf("gw%d", q)
			}
			r.Count("seq_cases_with_60_instances", 1)
		}
		nano := i%3 != 0 // request ids at UnixNano scale (what gateways send) vs small integers
		nextID := map[string]int64{}
		var trace []seqOp
		nontrivial := false
		fail := func(sig, what string) {
			viol(r, srvOf(tg), sig, what, map[string]interface{}{"target": tg.Name(), "initialLimit": max, "ops": trace})
		}
		nOps := g.Range(25, 60)
		for op := 0; op < nOps; op++ {
			inst := names[g.Intn(k)]
			x := g.Intn(100)
			last := "report"
			vs, onServer := tg.(*viaServer)
			switch {
			case onServer && x < 3:
				// re-initialisation: the flow control is deleted and re-created under the same name, changes type and back, or the
				// server loses and regains the shard. The statement does not say whether counts survive that; what it does say is
				// that the total is exact and the configured limit is in force - the model is re-based on what is on record.
				how := []string{"schema-recreated", "type-toggled", "leader-restart"}[g.Intn(3)]
				var err error
				switch how {
				case "schema-recreated":
					err = vs.recreate(m.Max)
				case "type-toggled":
					err = vs.toggleType(m.Max)
				default:
					vs.restart()
				}
				trace = append(trace, seqOp{Kind: how, Max: m.Max})
				last = how
				r.Count("seq_reinit_"+how, 1)
				d, ok := tg.Debug()
				if err != nil || !ok {
					fail("C08/maxinflight/sequential/reinit/"+how+"/flow-control-missing", fmt.Sprintf("after %s the flow control of schema s is not there / DebugInfo does not parse (%v)", how, err))
					return
				}
				nm := NewModel(m.Max)
				for id, c := range d.Per {
					if c < 0 {
						fail("C08/maxinflight/sequential/reinit/"+how+"/negative-count", fmt.Sprintf("after %s instance %s has %d on record", how, id, c))
						return
					}
					nm.Inst[id] = ist{Count: int32(c)}
				}
				m = nm
			case x < 8: // limit change at quiescence
				nm := c32(rng(g, 1, 2*int64(max)+1))
				if g.Bool() && m.Total() > 1 {
					nm = c32(rng(g, 1, m.Total())) // at or below the recorded total
				}
				tg.Resize(nm)
				m.Max = nm
				trace = append(trace, seqOp{Kind: "resize", Max: nm})
				last = "resize"
			default:
				in := In{Instance: inst}
				kind := "report"
				switch {
				case x < 18:
					in.Count, in.ID, kind = -1, -1, "removal"
					r.Count("seq_removals", 1)
					nontrivial = true
				case x < 30 && m.Inst[inst].LastID > 0:
					kind = "stale"
					latest := m.Inst[inst].LastID
					in.ID = latest
					if nano {
						// replays and re-ordered arrivals from nanoseconds to hours behind the latest processed id, and the
						// boundaries around plausible "reorder windows"
						behind := []int64{0, 1, 1000, 1e6, 1e9, 3e10 - 1, 3e10, 3e10 + 1, 6e10, 1e12, 3.6e12, 8.64e13, latest - 1, latest - math.MinInt64 - 1}
						in.ID = latest - behind[g.Intn(len(behind))]
						if in.ID == math.MinInt64 { // keep away from the overflow itself
							in.ID++
						}
						if in.ID < 0 {
							r.Count("seq_negative_id_after_a_positive_one", 1) // not newer than what was processed: must be refused
						} else if in.ID == 0 {
							r.Count("seq_zero_id", 1) // "no id": not subject to the id rule (model.go)
						} else if latest-in.ID > 1e9 {
							r.Count("seq_stale_id_far_behind", 1)
						}
					} else if g.Bool() {
						in.ID = int64(g.Range(1, int(in.ID)))
					}
					in.Count = c32(rng(g, 0, int64(m.Max)+2))
					r.Count("seq_stale_id", 1)
					nontrivial = true
				default:
					if nano {
						if nextID[inst] == 0 {
							nextID[inst] = 1700000000e9 + int64(g.Intn(1e9)) // RequestID = time.Now().UnixNano() at the gateway
						}
						if nextID[inst] < math.MaxInt64-2e12 {
							nextID[inst] += []int64{1, 1000, 1e6, 2e8, 9e8, 2e9, 4e10, 1e12}[g.Intn(8)]
						}
						if g.Chance(0.01) { // the top of the int64 range: after MaxInt64 no id is newer any more
							nextID[inst] = []int64{math.MaxInt64 - 1, math.MaxInt64}[g.Intn(2)]
							r.Count("seq_ids_at_the_top_of_int64", 1)
						}
					} else {
						nextID[inst] += int64(g.Range(1, 3))
					}
					in.ID = nextID[inst]
					if x >= 95 {
						in.ID = 0 // unchecked id
					}
					switch g.Intn(4) {
					case 0:
						in.Count = c32(rng(g, 0, int64(m.Inst[inst].Count))) // a decrease
					case 1:
						room := int64(m.Max) - m.Total() + int64(m.Inst[inst].Count)
						if room < 0 {
							room = 0
						}
						in.Count = c32(room + rng(g, 0, 1)) // exactly fills / just exceeds
					default:
						in.Count = c32(rng(g, 0, int64(m.Max)+2))
					}
					if g.Chance(0.12) {
						in.Count = boundaryCount(g, m.Max, m.Total()-int64(m.Inst[inst].Count))
						r.Count("seq_boundary_counts", 1)
						if m.Total()-int64(m.Inst[inst].Count)+int64(in.Count) > math.MaxInt32 {
							r.Count("seq_asks_whose_sum_exceeds_int32", 1)
							nontrivial = true
						}
					}
				}
				cur := m.Inst[in.Instance]
				if kind == "report" && in.Count <= cur.Count && m.Total() > int64(m.Max) {
					r.Count("seq_decrease_while_over_limit", 1)
					nontrivial = true
				}
				var out Out
				if p := vkit.Safely(func() { out = tg.Set(in) }); p != nil {
					trace = append(trace, seqOp{Kind: kind, In: &in})
					fail("C08/maxinflight/sequential/panic", fmt.Sprintf("SetState(%+v) panicked: %v", in, p))
					return
				}
				trace = append(trace, seqOp{Kind: kind, In: &in, Out: &out})
				next := m.Step(in, out)
				if len(next) == 0 {
					fail("C08/maxinflight/sequential/"+classify(m, in, out),
						fmt.Sprintf("%s: SetState(%s, id=%d, count=%d) answered accept=%v latest=%d tooOld=%v err=%q; on record before: count=%d lastID=%d, total=%d, limit=%d",
							tg.Name(), in.Instance, in.ID, in.Count, out.Accept, out.Latest, out.TooOld, out.Err, cur.Count, cur.LastID, m.Total(), m.Max))
					return
				}
				if kind == "report" && in.Count > cur.Count {
					if out.Latest == in.Count {
						r.Count("seq_increase_applied", 1)
					} else {
						r.Count("seq_increase_refused", 1)
						nontrivial = true
						last = "increase-refused"
						if m.Total()-int64(cur.Count)+int64(in.Count) <= int64(m.Max) {
							r.Count("seq_increase_refused_though_it_fits", 1)
						}
					}
				}
				if kind != "report" {
					last = kind
				}
				m = next[0]
			}
			r.Count("seq_ops", 1)
			d, ok := tg.Debug()
			if !ok {
				r.Inconclusive("DebugInfo() of the max-in-flight flow control does not parse")
				return
			}
			if msg := compareDebug(m, d); msg != "" {
				fail("C08/maxinflight/sequential/accounting/after-"+last, fmt.Sprintf("%s: after %d sequential calls (last: %s) %s; DebugInfo: max=%d count=%d total=%d %v", tg.Name(), len(trace), last, msg, d.Max, d.Count, d.Total, d.Per))
				return
			}
		}
		r.Eval(1)
		if nontrivial {
			r.Distinct(vkit.Hash64(fmt.Sprintf("%v%+v", max, traceKey(trace))))
		}
		if i < 2 {
			t := trace
			if len(t) > 12 {
				t = t[:12]
			}
			r.Sample(map[string]interface{}{"kind": "sequential", "target": tg.Name(), "limit": max, "ops_head": t})
		}
	})
}

func traceKey(t []seqOp) string {
	s := ""
	for _, o := range t {
		if o.In != nil {
			s += fmt.Sprintf("%s:%d:%d;", o.In.Instance, o.In.ID, o.In.Count)
		} else {
			s += fmt.Sprintf("R%d;", o.Max)
		}
	}
	return s
}

// ---------------------------------------------------------------- (B) concurrent batches

type callRec struct {
	Client int   `json:"client"`
	In     In    `json:"in"`
	Out    Out   `json:"out"`
	Call   int64 `json:"call"`
	Return int64 `json:"return"`
}

var batchKinds = []string{"reports", "reports-multiwriter", "removals-vs-other-reports", "racing-removals", "removal-vs-own-report", "reports+resize",
	"racing-removals+resize", "removal-vs-own-report+resize"}

// runClients runs each client's op list in its own goroutine (ids for reports are drawn from the per-instance counter right
// before the call, so they increase in send order while arrival may be re-ordered) and returns the calls with logical times.
func runClients(tg target, clients [][]In, ids map[string]*int64, extra ...func()) []callRec {
	var clock int64
	var mu sync.Mutex
	var all []callRec
	start := make(chan struct{})
	var wg sync.WaitGroup
	for _, fn := range extra { // e.g. a limit change racing with the reports
		wg.Add(1)
		go func(fn func()) {
			defer wg.Done()
			<-start
			fn()
		}(fn)
	}
	for c, ops := range clients {
		wg.Add(1)
		go func(c int, ops []In) {
			defer wg.Done()
			<-start
			var mine []callRec
			for _, in := range ops {
				if in.Count >= 0 {
					in.ID = atomic.AddInt64(ids[in.Instance], 1)
				}
				rec := callRec{Client: c, In: in}
				rec.Call = atomic.AddInt64(&clock, 1)
				p := vkit.Safely(func() { rec.Out = tg.Set(in) })
				rec.Return = atomic.AddInt64(&clock, 1)
				if p != nil {
					rec.Out = Out{Err: fmt.Sprintf("panic: %v", p)}
				}
				mine = append(mine, rec)
			}
			mu.Lock()
			all = append(all, mine...)
			mu.Unlock()
		}(c, ops)
	}
	close(start)
	wg.Wait()
	sort.Slice(all, func(a, b int) bool { return all[a].Call < all[b].Call })
	return all
}

func batches(r *vkit.R) {
	phaseTag = "B"
	n := r.N(1500, 15000)
	r.Parallel(n, 8, func(i int, g *vkit.Rand) {
		max := g.PickI32([]int32{2, 5, 10, 20, 100})
		if i%8 == 6 || i%40 == 4 { // limits of the order of the int32 range (i%40==4: through the server)
			max = g.PickI32(bigLimits)
			r.Count("batch_cases_with_limit_near_int32_range", 1)
		}
		var tg target = newDirect(max)
		if i%5 == 4 {
			v, err := newViaServer(max, i)
			if err != nil {
				r.Inconclusive("ApplyUpstream failed: " + err.Error())
				return
			}
			tg = v
		}
		k := g.Range(2, 6)
		insts := make([]string, k)
		ids := map[string]*int64{}
		for j := range insts {
			insts[j] = fmt.Sprintf("gw%d", j)
			ids[insts[j]] = new(int64)
		}
		rec := map[string]int64{} // counts on record at quiescence
		var log []interface{}
		nb := g.Range(3, 8)
		for b := 0; b < nb; b++ {
			kind := batchKinds[g.Intn(len(batchKinds))]
			if i%5 == 4 && kind == "racing-removals" && g.Bool() {
				kind = "reports" // DeleteInstanceState walks every flow control; keep the server variant mostly on reports
			}
			var sumBefore int64
			for _, v := range rec {
				sumBefore += v
			}
			genReports := func(inst string, m int) []In {
				ops := make([]In, m)
				for q := range ops {
					c := c32(rng(g, 0, int64(max)+2))
					if g.Chance(0.3) {
						c = c32(rng(g, 0, int64(max)/int64(k)+1))
					}
					if g.Chance(0.1) {
						c = boundaryCount(g, max, sumBefore-rec[inst])
						r.Count("batch_boundary_counts", 1)
					}
					ops[q] = In{Instance: inst, Count: c}
				}
				return ops
			}
			rm := func(inst string) In { return In{Instance: inst, ID: -1, Count: -1} }
			var clients [][]In
			victim := insts[g.Intn(k)]
			switch kind {
			case "reports":
				for _, in := range insts {
					clients = append(clients, genReports(in, g.Range(1, 4)))
				}
			case "reports-multiwriter":
				for _, in := range insts {
					for w := 0; w < g.Range(1, 3); w++ {
						clients = append(clients, genReports(in, g.Range(1, 3)))
					}
				}
			case "removals-vs-other-reports":
				for _, in := range insts {
					if in == victim {
						clients = append(clients, []In{rm(in)})
					} else {
						clients = append(clients, genReports(in, g.Range(1, 4)))
					}
				}
			case "reports+resize":
				for _, in := range insts {
					clients = append(clients, genReports(in, g.Range(2, 4)))
				}
			case "racing-removals", "racing-removals+resize":
				for w := 0; w < g.Range(2, 4); w++ {
					clients = append(clients, []In{rm(victim)})
				}
				for _, in := range insts {
					if in != victim && g.Bool() {
						clients = append(clients, genReports(in, g.Range(1, 2)))
					}
				}
			case "removal-vs-own-report", "removal-vs-own-report+resize":
				clients = append(clients, []In{rm(victim)})
				clients = append(clients, genReports(victim, g.Range(1, 3)))
				for _, in := range insts {
					if in != victim && g.Bool() {
						clients = append(clients, genReports(in, g.Range(1, 2)))
					}
				}
			}
			var extra []func()
			oldMax := max
			if strings.HasSuffix(kind, "+resize") { // the limit changes WHILE reports / removals are being processed
				nm := c32(rng(g, 1, 2*int64(max)))
				if g.Bool() && sumBefore > 1 {
					nm = c32(rng(g, 1, sumBefore))
				}
				extra = append(extra, func() { tg.Resize(nm) })
				max = nm
			}
			if vs, ok := tg.(*viaServer); ok && g.Chance(0.4) {
				// negative asks through DoAcquire race with the batch: each must be refused and change nothing (the accounting and
				// per-call checks below would show it)
				var victims []string
				for q, nq := 0, g.Range(1, 4); q < nq; q++ {
					victims = append(victims, insts[g.Intn(len(insts))])
				}
				neg := -int32(g.Range(1, 9))
				if g.Chance(0.2) {
					neg = math.MinInt32
				}
				extra = append(extra, func() {
					for _, in := range victims {
						r.Count("batch_negative_asks_racing", 1)
						if out := vs.ask(in, neg); !out.refusedWithError {
							viol(r, srvOf(tg), "C08/doacquire/negative-ask-not-refused/racing", fmt.Sprintf("DoAcquire(%s, tokens=%d) racing with reports answered accept=%v limit=%d error=%q", in, neg, out.accept, out.limit, out.err), nil)
						}
					}
				})
			}
			calls := runClients(tg, clients, ids, extra...)
			r.Count("batch_"+kind, 1)
			r.Count("batch_calls", len(calls))
			d, ok := tg.Debug()
			if !ok {
				r.Inconclusive("DebugInfo() of the max-in-flight flow control does not parse")
				return
			}
			log = append(log, map[string]interface{}{"batch": b, "kind": kind, "onRecordBefore": copyMap(rec), "limit": max, "calls": calls,
				"debugAfter": fmt.Sprintf("max=%d count=%d total=%d %v", d.Max, d.Count, d.Total, d.Per)})
			wit := func() map[string]interface{} {
				l := log
				if len(l) > 3 {
					l = l[len(l)-3:]
				}
				return map[string]interface{}{"target": tg.Name(), "instances": insts, "lastBatches": l,
					"how": "each client's calls run in its own goroutine, all released together; schedule points (yield/sleep) at the statements of SetState"}
			}
			for _, c := range calls {
				if c.Out.Err != "" {
					viol(r, srvOf(tg), "C08/maxinflight/concurrent/"+kind+"/unexpected-error", fmt.Sprintf("%s: SetState(%+v) failed: %s", tg.Name(), c.In, c.Out.Err), wit())
					return
				}
			}
			// (A) exact accounting at quiescence
			if d.Count != d.Total {
				viol(r, srvOf(tg), "C08/maxinflight/concurrent/"+kind+"/total-differs-from-sum",
					fmt.Sprintf("%s: after a batch of kind %q the running total is %d but the per-instance counts on record sum to %d (limit %d, %v)", tg.Name(), kind, d.Count, d.Total, d.Max, d.Per), wit())
				return
			}
			for in, v := range d.Per {
				if v < 0 {
					viol(r, srvOf(tg), "C08/maxinflight/concurrent/"+kind+"/negative-instance-count",
						fmt.Sprintf("%s: after a batch of kind %q instance %s has %d on record", tg.Name(), kind, in, v), wit())
					return
				}
			}
			// (B) safety: nothing but increases within the limit can raise the sum
			bound := sumBefore
			if bound < int64(max) {
				bound = int64(max)
			}
			if bound < int64(oldMax) { // a limit change raced with the batch: each step respected the limit then in force
				bound = int64(oldMax)
			}
			if d.Max != int64(max) {
				viol(r, srvOf(tg), "C08/maxinflight/concurrent/"+kind+"/limit-in-force-differs", fmt.Sprintf("%s: after the batch the limit in force is %d, the configured global limit is %d", tg.Name(), d.Max, max), wit())
				return
			}
			var sumPer int64 // the per-instance counts summed in int64 (the server's own totals are int32)
			for _, v := range d.Per {
				sumPer += v
			}
			if sumPer > bound {
				sig := "C08/maxinflight/concurrent/sum-beyond-limit"
				if sumPer > math.MaxInt32 {
					sig += "/int32-wrap"
				}
				viol(r, srvOf(tg), sig, fmt.Sprintf("%s: counts on record sum to %d after the batch (limit %d, sum before %d; the server prints count=%d total=%d)", tg.Name(), sumPer, max, sumBefore, d.Count, d.Total), wit())
				return
			}
			// per call (kinds with one writer per instance and no removal of that instance: its record is known exactly)
			if kind == "reports" || kind == "removals-vs-other-reports" || kind == "racing-removals" || kind == "reports+resize" || kind == "racing-removals+resize" {
				known := copyMap(rec)
				last := map[string]int64{}
				bad := false
				for _, c := range calls {
					if c.In.Count < 0 {
						continue
					}
					prev := known[c.In.Instance]
					switch {
					case c.Out.TooOld:
						viol(r, srvOf(tg), "C08/maxinflight/concurrent/"+kind+"/fresh-id-refused", fmt.Sprintf("%s: the only writer of %s sent increasing ids, id %d was refused as too old", tg.Name(), c.In.Instance, c.In.ID), wit())
						bad = true
					case int64(c.In.Count) <= prev:
						r.Count("batch_decreases", 1)
						if int64(c.Out.Latest) != int64(c.In.Count) {
							ctx := "racing-increase"
							if sumBefore > int64(max) {
								ctx = "limit-below-total"
							}
							if strings.HasSuffix(kind, "+resize") {
								ctx = "racing-limit-change"
							}
							viol(r, srvOf(tg), "C08/maxinflight/concurrent/decrease-not-applied/"+ctx,
								fmt.Sprintf("%s: instance %s had %d on record and reported %d (id %d): answered accept=%v latest=%d - a report that does not raise the count must be applied (limit %d, sum before the batch %d)",
									tg.Name(), c.In.Instance, prev, c.In.Count, c.In.ID, c.Out.Accept, c.Out.Latest, max, sumBefore), wit())
							bad = true
						}
					case int64(c.Out.Latest) == int64(c.In.Count):
						r.Count("batch_increase_applied", 1)
					case int64(c.Out.Latest) == prev:
						r.Count("batch_increase_refused", 1)
					default:
						viol(r, srvOf(tg), "C08/maxinflight/concurrent/"+kind+"/answer-inconsistent",
							fmt.Sprintf("%s: instance %s had %d on record, reported %d, answered latest=%d (neither)", tg.Name(), c.In.Instance, prev, c.In.Count, c.Out.Latest), wit())
						bad = true
					}
					if bad {
						return
					}
					known[c.In.Instance] = int64(c.Out.Latest)
					last[c.In.Instance] = int64(c.Out.Latest)
				}
				for in, v := range last {
					if d.Per[in] != v {
						viol(r, srvOf(tg), "C08/maxinflight/concurrent/"+kind+"/record-differs-from-answer",
							fmt.Sprintf("%s: the only writer of %s was last answered latest=%d but %d is on record", tg.Name(), in, v, d.Per[in]), wit())
						return
					}
				}
			} else {
				for _, c := range calls {
					if c.In.Count >= 0 && !c.Out.TooOld && c.Out.Latest != c.In.Count {
						r.Count("batch_increase_refused", 1)
					}
				}
			}
			rec = map[string]int64{}
			for in, v := range d.Per {
				rec[in] = v
			}
			// limit change at quiescence
			if g.Chance(0.25) {
				nm := c32(rng(g, 1, 2*int64(max)))
				if g.Bool() && d.Total > 1 {
					nm = c32(rng(g, 1, d.Total))
				}
				tg.Resize(nm)
				max = nm
				log = append(log, map[string]interface{}{"resize": nm})
				if int64(nm) < d.Total {
					r.Count("batch_limit_lowered_below_total", 1)
				}
			}
		}
		r.Eval(1)
		r.Distinct(vkit.Hash64(fmt.Sprintf("%v", log)))
	})
}

func copyMap(m map[string]int64) map[string]int64 {
	c := make(map[string]int64, len(m))
	for k, v := range m {
		c[k] = v
	}
	return c
}

// ---------------------------------------------------------------- (H) porcupine histories

func histories(r *vkit.R) {
	n := r.N(1000, 10000)
	r.Parallel(n, 8, func(i int, g *vkit.Rand) {
		max := g.PickI32([]int32{2, 3, 5, 8, 12})
		tg := newDirect(max)
		k := g.Range(2, 4)
		ids := map[string]*int64{}
		var clients [][]In
		multi := i%3 == 2
		removals := i%2 == 1
		for j := 0; j < k; j++ {
			inst := fmt.Sprintf("gw%d", j)
			ids[inst] = new(int64)
			writers := 1
			if multi && j == 0 {
				writers = 2
			}
			for w := 0; w < writers; w++ {
				m := g.Range(3, 8)
				ops := make([]In, m)
				for q := range ops {
					ops[q] = In{Instance: inst, Count: int32(g.Range(0, int(max)+1))}
				}
				clients = append(clients, ops)
			}
		}
		if removals {
			m := g.Range(1, 3)
			ops := make([]In, m)
			for q := range ops {
				ops[q] = In{Instance: fmt.Sprintf("gw%d", g.Intn(k)), ID: -1, Count: -1}
			}
			clients = append(clients, ops)
			if g.Bool() { // a second cleaner: both periodic passes may reclaim the same instance at once
				clients = append(clients, []In{ops[0]})
			}
		}
		calls := runClients(tg, clients, ids)
		if len(calls) > 60 {
			r.Inconclusive("history longer than 60 calls")
			return
		}
		ops := make([]porcupine.Operation, len(calls))
		for j, c := range calls {
			ops[j] = porcupine.Operation{ClientId: c.Client, Input: c.In, Call: c.Call, Output: c.Out, Return: c.Return}
		}
		overl := 0
		for a := range calls {
			for b := a + 1; b < len(calls); b++ {
				if calls[b].Call < calls[a].Return && calls[a].Client != calls[b].Client {
					overl++
				}
			}
		}
		r.Count("lin_histories", 1)
		r.Count("lin_calls", len(calls))
		r.Count("lin_overlapping_pairs", overl)
		r.Eval(1)
		r.Distinct(vkit.Hash64(fmt.Sprintf("%+v", calls)))
		mode := "reports"
		if multi {
			mode = "multiwriter"
		}
		if removals {
			mode += "+removals"
		}
		d, _ := tg.Debug()
		wit := map[string]interface{}{"limit": max, "calls": calls, "debugAfter": fmt.Sprintf("max=%d count=%d total=%d %v", d.Max, d.Count, d.Total, d.Per),
			"how": "calls of one client are sequential, clients run concurrently; call/return are ticks of one logical clock"}
		switch vkit.CheckLin(PorcupineModel(max), ops, 20*time.Second) {
		case vkit.LinIllegal:
			// hint: a single-writer instance that is never removed has an exactly known record; a non-increase that was not
			// applied to it explains the history by itself
			hint := "other"
			removed := map[string]bool{}
			writers := map[string]map[int]bool{}
			for _, c := range calls {
				if c.In.Count < 0 {
					removed[c.In.Instance] = true
				} else {
					if writers[c.In.Instance] == nil {
						writers[c.In.Instance] = map[int]bool{}
					}
					writers[c.In.Instance][c.Client] = true
				}
			}
			prev := map[string]int32{}
			for _, c := range calls {
				if c.In.Count < 0 || removed[c.In.Instance] || len(writers[c.In.Instance]) != 1 || c.Out.TooOld {
					continue
				}
				if c.In.Count <= prev[c.In.Instance] && c.Out.Latest != c.In.Count {
					hint = "decrease-not-applied"
				}
				prev[c.In.Instance] = c.Out.Latest
			}
			if hint == "other" {
				switch {
				case removals:
					hint = "with-removals"
				case multi:
					hint = "several-writers-per-instance"
				}
			}
			viol(r, nil, "C08/maxinflight/linearizability/"+hint,
				fmt.Sprintf("a history of %d SetState calls (%s, limit %d) has no sequential explanation under the reference model (decrease always applied, increase only within the limit, stale id refused, removal exact)", len(calls), mode, max), wit)
		case vkit.LinUnknown:
			r.Inconclusive("porcupine timed out on a history")
		}
		if d.Count != d.Total {
			viol(r, nil, "C08/maxinflight/history/total-differs-from-sum",
				fmt.Sprintf("after a history (%s) the running total is %d but the per-instance counts sum to %d", mode, d.Count, d.Total), wit)
		}
		if i < 1 {
			r.Sample(map[string]interface{}{"kind": "history", "limit": max, "calls": calls})
		}
	})
}

// ---------------------------------------------------------------- negative asks and the token bucket, through DoAcquire

type tbServer struct {
	srv      *bed.LimiterServer
	upstream string
	cluster  *proxyv1alpha1.UpstreamCluster
}

func newTBServer(i int, schemas ...proxyv1alpha1.FlowControlSchema) (*tbServer, error) {
	t := &tbServer{srv: bed.NewLimiterServer(bed.LimiterOptions{LeadAll: true, Shards: 1 + i%3}), upstream: fmt.Sprintf("tb%s%d", phaseTag, i)}
	t.cluster = &proxyv1alpha1.UpstreamCluster{ObjectMeta: metav1.ObjectMeta{Name: t.upstream}}
	t.cluster.Spec.FlowControl.Schemas = schemas
	return t, t.srv.ApplyUpstream(t.cluster)
}

func (t *tbServer) acquire(inst, fc string, id int64, n int32) (proxyv1alpha1.RateLimitAcquireResult, error) {
	req := &proxyv1alpha1.RateLimitAcquire{ObjectMeta: metav1.ObjectMeta{Name: t.upstream},
		Spec: proxyv1alpha1.RateLimitAcquireSpec{Instance: inst, RequestID: id,
			Requests: []proxyv1alpha1.RateLimitAcquireRequest{{FlowControl: fc, Tokens: n}}}}
	var res *proxyv1alpha1.RateLimitAcquire
	var err error
	if p := vkit.Safely(func() { res, err = t.srv.Limiter.DoAcquire(t.upstream, req) }); p != nil {
		return proxyv1alpha1.RateLimitAcquireResult{}, panicErr{fmt.Sprint(p)}
	}
	if err != nil || res == nil || len(res.Status.Results) != 1 {
		return proxyv1alpha1.RateLimitAcquireResult{}, fmt.Errorf("DoAcquire: %v", err)
	}
	return res.Status.Results[0], nil
}

// panicErr: DoAcquire panicked (recovered per call and judged by the property).
type panicErr struct{ msg string }

func (p panicErr) Error() string { return "DoAcquire panicked: " + p.msg }

func negativeAsks(r *vkit.R) {
	phaseTag = "N"
	n := r.N(60, 600)
	r.Parallel(n, 8, func(i int, g *vkit.Rand) {
		max := int32(g.Range(2, 20))
		t, err := newTBServer(i, mifSchema("mif", max), tbSchema("tb", 1000, 20))
		if err != nil {
			r.Inconclusive("ApplyUpstream failed: " + err.Error())
			return
		}
		fc, _ := t.srv.Handle.Store(util.GetShardID(t.upstream, t.srv.Shards)).GetFlowControl(t.upstream, "mif")
		held := int32(g.Range(1, int(max)))
		if rs, err := t.acquire("gw0", "mif", 1, held); err != nil || rs.Limit != held {
			r.Inconclusive(fmt.Sprintf("set-up report was not applied: %+v %v", rs, err))
			return
		}
		before, _ := parseDebug(fc.DebugInfo())
		neg := -int32(g.Range(1, 9))
		for _, name := range []string{"mif", "tb"} {
			rs, err := t.acquire("gw0", name, 2, neg)
			r.Count("tb_negative_asks", 1)
			r.Eval(1)
			if pe, ok := err.(panicErr); ok {
				viol(r, t.srv, "C08/doacquire/negative-ask-not-refused/"+name, fmt.Sprintf("DoAcquire with tokens=%d on the %s schema: %v (a negative ask must be refused, not crash the handler)", neg, name, pe),
					map[string]interface{}{"tokens": neg, "schema": name, "panic": pe.msg})
				continue
			}
			if err != nil {
				continue // the whole request refused: fine
			}
			if rs.Accept || rs.Error == "" || rs.Limit < 0 {
				viol(r, t.srv, "C08/doacquire/negative-ask-not-refused/"+name,
					fmt.Sprintf("DoAcquire with tokens=%d on the %s schema answered accept=%v limit=%d error=%q (negative asks must be refused)", neg, name, rs.Accept, rs.Limit, rs.Error),
					map[string]interface{}{"tokens": neg, "schema": name, "result": rs})
			}
		}
		after, _ := parseDebug(fc.DebugInfo())
		if after.Count != before.Count || after.Per["gw0"] != before.Per["gw0"] {
			viol(r, t.srv, "C08/doacquire/negative-ask-changed-state/mif",
				fmt.Sprintf("a refused negative ask (tokens=%d) changed the max-in-flight record of gw0: %d -> %d (total %d -> %d)", neg, before.Per["gw0"], after.Per["gw0"], before.Count, after.Count),
				map[string]interface{}{"tokens": neg, "before": before, "after": after})
		}
	})
}

type grant struct {
	Inst    int   `json:"instance"`
	Asked   int32 `json:"asked"`
	Granted int32 `json:"granted"`
	Call    int64 `json:"t_call_ns"`
	Return  int64 `json:"t_return_ns"`
}

func tokenBucket(r *vkit.R) {
	phaseTag = "T"
	n := r.N(120, 900)
	cfgs := [][2]int32{{50, 1}, {200, 200}, {1000, 50}, {5000, 500}, {20000, 1}, {1000, 10}, {100, 5}}
	r.Parallel(n, 8, func(i int, g *vkit.Rand) {
		cfg := cfgs[g.Intn(len(cfgs))]
		qps, burst := cfg[0], cfg[1]
		t, err := newTBServer(i, tbSchema("tb", qps, burst))
		if err != nil {
			r.Inconclusive("ApplyUpstream failed: " + err.Error())
			return
		}
		// Two kinds of run. serial: ONE caller goroutine rotating over k instance names - the timestamps the bucket sees are
		// non-decreasing and the bound burst + qps*T is exact. concurrent: k caller goroutines - x/time/rate moves its
		// `last` time stamp backwards whenever a caller that read the clock earlier gets the lock later (time.Now() is read
		// outside the limiter lock, as rate.Limiter.Allow itself does), which re-credits up to qps*(duration of that call)
		// tokens per attempt; the statement cannot mean to forbid that library artefact, so the concurrent runs allow
		// qps * 4 attempts * (sum of the durations of all calls overlapping the window) on top (gross over-granting only).
		// A third kind, turns: k caller goroutines that take turns under a mutex of the harness (clock read, call, clock read all
		// inside it). The calls never overlap, so the timestamps the bucket sees are non-decreasing again and the bound is
		// exact, while the callers are different goroutines on different threads.
		serial := i%3 == 0
		turns := i%3 == 2
		k := g.Range(2, 8)
		callers := k
		if serial {
			callers = 1
		}
		var turn sync.Mutex
		pattern := g.Intn(3) // 0 saturating, 1 bursts with pauses, 2 ramp
		perInst := g.Range(80, 250)
		asks := []int32{0, 1, 1, 2, 3, 5, 8, 16, burst, burst + 1, 2 * burst, -1, -7, math.MaxInt32, 1 << 30, math.MinInt32}
		var mu sync.Mutex
		var grants []grant
		var allCalls [][3]int64
		var bad []string
		var wg sync.WaitGroup
		if serial {
			perInst *= 3
		}
		seeds := make([]*vkit.Rand, callers)
		for w := range seeds {
			seeds[w] = g.Sub(w)
		}
		for w := 0; w < callers; w++ {
			wg.Add(1)
			go func(w int, g *vkit.Rand) {
				defer wg.Done()
				var mine []grant
				var myCalls [][3]int64
				for q := 0; q < perInst; q++ {
					ask := asks[g.Intn(len(asks))]
					switch pattern {
					case 1:
						if g.Chance(0.05) {
							time.Sleep(time.Duration(g.Range(1, 4)) * time.Millisecond)
						}
					case 2:
						if q < perInst/2 && g.Chance(0.2) {
							time.Sleep(time.Duration(g.Range(50, 500)) * time.Microsecond)
						}
					}
					if turns {
						turn.Lock()
					}
					t0 := bed.Now()
					rs, err := t.acquire(fmt.Sprintf("gw%d", (w+q)%k), "tb", int64(q+1), ask)
					t1 := bed.Now()
					if turns {
						turn.Unlock()
					}
					// attempts DoAcquire made for this ask (n, n/2, n/4, n/8 until one is granted or the amount reaches 0)
					att := int64(0)
					for v := ask; v > 0 && att < 4; v /= 2 {
						att++
						if err == nil && rs.Accept && rs.Limit == v {
							break
						}
					}
					myCalls = append(myCalls, [3]int64{t0, t1, att})
					if pe, ok := err.(panicErr); ok {
						cls := "C08/doacquire/panic/tb"
						if ask < 0 {
							cls = "C08/doacquire/negative-ask-not-refused/tb"
						}
						viol(r, t.srv, cls, fmt.Sprintf("DoAcquire with tokens=%d on a token-bucket schema: %v", ask, pe), map[string]interface{}{"tokens": ask, "panic": pe.msg})
						continue
					}
					if err != nil {
						mu.Lock()
						bad = append(bad, err.Error())
						mu.Unlock()
						return
					}
					gr := grant{Inst: w, Asked: ask, Call: t0, Return: t1}
					if rs.Accept {
						gr.Granted = rs.Limit
					}
					if ask < 0 {
						if rs.Accept || rs.Error == "" {
							viol(r, t.srv, "C08/doacquire/negative-ask-not-refused/tb", fmt.Sprintf("DoAcquire with tokens=%d on a token-bucket schema answered accept=%v limit=%d error=%q", ask, rs.Accept, rs.Limit, rs.Error), gr)
						}
						r.Count("tb_negative_asks", 1)
						continue
					}
					legal := gr.Granted == 0
					for h, v := 0, ask; h < 4 && v > 0; h, v = h+1, v/2 {
						if gr.Granted == v {
							legal = true
						}
					}
					if !legal || gr.Granted < 0 || gr.Granted > ask {
						viol(r, t.srv, "C08/tokenbucket/grant-not-in-halving-series", fmt.Sprintf("asked %d tokens, granted %d (accept=%v): not one of n, n/2, n/4, n/8, 0", ask, gr.Granted, rs.Accept), gr)
					}
					if gr.Granted != ask {
						r.Count("tb_refused_or_partial", 1)
					}
					if gr.Granted > 0 {
						mine = append(mine, gr)
					}
				}
				mu.Lock()
				grants = append(grants, mine...)
				allCalls = append(allCalls, myCalls...)
				mu.Unlock()
			}(w, seeds[w])
			if w == callers/2 && g.Bool() {
				if serial {
					time.Sleep(200 * time.Microsecond) // let the run get going first
				}
				// a sync in the middle of the run that leaves THIS schema unchanged (the spec is re-delivered as is, or another
				// schema is added to the cluster) must not refill the bucket
				c := t.cluster.DeepCopy()
				if g.Bool() {
					c.Spec.FlowControl.Schemas = append(c.Spec.FlowControl.Schemas, mifSchema("other", 7))
				}
				_ = t.srv.ApplyUpstream(c)
				r.Count("tb_noop_syncs", 1)
			}
		}
		wg.Wait()
		if len(bad) > 0 {
			r.Inconclusive("DoAcquire failed in a token-bucket run: " + bad[0])
			return
		}
		r.Eval(1)
		r.Count("tb_runs", 1)
		if serial {
			r.Count("tb_runs_serial_exact_bound", 1)
		}
		if turns {
			r.Count("tb_runs_concurrent_goroutines_taking_turns_exact_bound", 1)
		}
		exact := serial || turns
		// for the overlapping runs: a call can only have seen the limiter's clock run backwards if another call overlaps it
		sort.Slice(allCalls, func(a, b int) bool { return allCalls[a][0] < allCalls[b][0] })
		overl := make([]bool, len(allCalls))
		if !exact {
			var maxEnd int64 = -1
			for j, c := range allCalls {
				if c[0] <= maxEnd {
					overl[j] = true
				}
				if j+1 < len(allCalls) && allCalls[j+1][0] <= c[1] {
					overl[j] = true
				}
				if c[1] > maxEnd {
					maxEnd = c[1]
				}
			}
		}
		r.Count("tb_grants", len(grants))
		r.Distinct(vkit.Hash64(fmt.Sprintf("%d/%d/%d/%d/%d", qps, burst, k, pattern, i)))
		// window bound: every grant with [t_call, t_return] inside [a, b] took its tokens inside [a, b], where the bucket can
		// hand out at most burst + qps*(b-a) (+1 token of slack for the float arithmetic of x/time/rate).
		sort.Slice(grants, func(a, b int) bool { return grants[a].Call < grants[b].Call })
		for a := 0; a < len(grants); a++ {
			A := grants[a].Call
			// grants with Call >= A, ordered by Return: incremental sums per end point
			sub := make([]grant, 0, len(grants)-a)
			sub = append(sub, grants[a:]...)
			sort.Slice(sub, func(x, y int) bool { return sub[x].Return < sub[y].Return })
			var sum int64
			for _, gr := range sub {
				sum += int64(gr.Granted)
				B := gr.Return
				allowed := float64(burst) + float64(qps)*float64(B-A)/1e9 + 1
				if !exact && float64(sum) > allowed {
					// re-credit by clock inversion: at most qps * (duration of the call) per attempt actually made, and only
					// for calls that overlap another call
					var dur int64
					for j, c := range allCalls {
						if overl[j] && c[1] >= A && c[0] <= B {
							dur += (c[1] - c[0]) * c[2]
						}
					}
					allowed += float64(qps) * float64(dur) / 1e9
				}
				if float64(sum) > allowed {
					sig := "C08/tokenbucket/window-bound/serial-caller"
					if turns {
						sig = "C08/tokenbucket/window-bound/callers-taking-turns"
					} else if !serial {
						sig = "C08/tokenbucket/window-bound/concurrent-callers"
					}
					viol(r, t.srv, sig,
						fmt.Sprintf("token bucket qps=%d burst=%d: %d tokens were granted by calls lying entirely inside a window of %.3f ms, more than burst+qps*T = %.1f", qps, burst, sum, float64(B-A)/1e6, allowed-1),
						map[string]interface{}{"qps": qps, "burst": burst, "window_start_ns": A, "window_end_ns": B, "granted_in_window": sum, "allowed_incl_slack": allowed, "instances": k, "caller_goroutines": callers, "grants_total": len(grants)})
					return
				}
			}
		}
		if i < 1 {
			gs := grants
			if len(gs) > 10 {
				gs = gs[:10]
			}
			r.Sample(map[string]interface{}{"kind": "token-bucket run", "qps": qps, "burst": burst, "instances": k, "grants_head": gs})
		}
	})
}
