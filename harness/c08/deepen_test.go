package c08

import (
	"fmt"
	"math"
	"sort"
	"strings"
	"sync"
	"time"

	metav1 "k8s.io/apimachinery/pkg/apis/meta/v1"

	proxyv1alpha1 "github.com/kubewharf/kubegateway/pkg/apis/proxy/v1alpha1"
	"github.com/kubewharf/kubegateway/pkg/ratelimiter/store/flowcontrol"
	"github.com/kubewharf/kubegateway/pkg/ratelimiter/util"

	"verifharness/bed"
	"verifharness/vkit"
)

// batchedAcquire: what a gateway really sends - ONE acquire request carrying an item for each of its counters (several
// max-in-flight and token-bucket schemas of the upstream), all items under the same instance and request id. Items for a
// schema the server does not know, negative asks and the SAME schema listed twice are mixed in. Every item must be answered
// on its own, in order, under the rules of its schema: an unknown schema or a negative ask is an error of that item only;
// the second item for a max-in-flight schema carries an id that is "not newer than one already processed" and is refused;
// each max-in-flight schema keeps its own exact accounting (own model, own DebugInfo).
func batchedAcquire(r *vkit.R) {
	n := r.N(600, 6000)
	r.Parallel(n, 16, func(i int, g *vkit.Rand) {
		srv := bed.NewLimiterServer(bed.LimiterOptions{LeadAll: true, Shards: 1 + i%3})
		up := fmt.Sprintf("ba%d", i)
		models := map[string]*Model{}
		c := &proxyv1alpha1.UpstreamCluster{ObjectMeta: metav1.ObjectMeta{Name: up}}
		nm := g.Range(2, 3)
		for k := 0; k < nm; k++ {
			name := fmt.Sprintf("m%d", k)
			max := g.PickI32([]int32{1, 3, 10, 50})
			models[name] = NewModel(max)
			c.Spec.FlowControl.Schemas = append(c.Spec.FlowControl.Schemas, mifSchema(name, max))
		}
		c.Spec.FlowControl.Schemas = append(c.Spec.FlowControl.Schemas, tbSchema("tb0", 1000, 20), tbSchema("tb1", 50, 5))
		if err := srv.ApplyUpstream(c); err != nil {
			r.Inconclusive("ApplyUpstream failed: " + err.Error())
			return
		}
		st := srv.Handle.Store(util.GetShardID(up, srv.Shards))
		insts := []string{"gw-a", "10.1.2.3:6443-b", "gw-c"}
		nextID := map[string]int64{}
		var trace []interface{}
		fail := func(sig, what string) {
			t := trace
			if len(t) > 12 {
				t = t[len(t)-12:]
			}
			viol(r, srv, sig, what, map[string]interface{}{"upstream": up, "schemas": c.Spec.FlowControl.Schemas, "lastRequests": t,
				"how": "bed.NewLimiterServer(LeadAll); ApplyUpstream; DoAcquire with the listed Spec.Requests (one instance, one request id per request)"})
		}
		for op := 0; op < 30; op++ {
			inst := insts[g.Intn(len(insts))]
			if g.Chance(0.06) {
				st.DeleteInstanceState(inst)
				for _, m := range models {
					delete(m.Inst, inst)
				}
				trace = append(trace, "DeleteInstanceState("+inst+")")
				continue
			}
			if nextID[inst] == 0 {
				nextID[inst] = 1700000000e9 + int64(g.Intn(1e9))
			}
			id := nextID[inst]
			if !g.Chance(0.12) || id == 0 { // mostly a fresh id; else a replay of the previous one or an older one
				nextID[inst] += []int64{1, 1e6, 9e8, 4e10}[g.Intn(4)]
				id = nextID[inst]
			} else if g.Bool() {
				id -= int64(g.Range(1, 1000000))
			}
			req := &proxyv1alpha1.RateLimitAcquire{ObjectMeta: metav1.ObjectMeta{Name: up}, Spec: proxyv1alpha1.RateLimitAcquireSpec{Instance: inst, RequestID: id}}
			ni := g.Range(1, 5)
			for k := 0; k < ni; k++ {
				var it proxyv1alpha1.RateLimitAcquireRequest
				switch x := g.Intn(20); {
				case x < 10:
					it.FlowControl = fmt.Sprintf("m%d", g.Intn(nm))
					m := models[it.FlowControl]
					it.Tokens = c32(rng(g, 0, int64(m.Max)+2))
					if g.Chance(0.1) {
						it.Tokens = boundaryCount(g, m.Max, m.Total()-int64(m.Inst[inst].Count))
					}
				case x < 15:
					it.FlowControl = []string{"tb0", "tb1"}[g.Intn(2)]
					it.Tokens = []int32{0, 1, 2, 5, 8, 20, 21, 40, math.MaxInt32}[g.Intn(9)]
				case x < 17:
					it.FlowControl = []string{"nope", "", "M0", "m0 "}[g.Intn(4)] // schemas the upstream does not have
					it.Tokens = int32(g.Range(0, 5))
				default:
					it.FlowControl = []string{"m0", "tb0"}[g.Intn(2)]
					it.Tokens = -int32(g.Range(1, 9))
				}
				if k > 0 && g.Chance(0.15) {
					it.FlowControl = req.Spec.Requests[k-1].FlowControl // the same schema twice in one request
					r.Count("batched_duplicate_items", 1)
				}
				req.Spec.Requests = append(req.Spec.Requests, it)
			}
			asked := append([]proxyv1alpha1.RateLimitAcquireRequest(nil), req.Spec.Requests...)
			var res *proxyv1alpha1.RateLimitAcquire
			var err error
			p := vkit.Safely(func() { res, err = srv.Limiter.DoAcquire(up, req) })
			rec := map[string]interface{}{"instance": inst, "requestID": id, "requests": asked}
			trace = append(trace, rec)
			r.Count("batched_requests", 1)
			r.Count("batched_items", len(asked))
			if len(asked) > 1 {
				r.Count("batched_requests_with_several_items", 1)
			}
			if p != nil || err != nil || res == nil {
				fail("C08/doacquire/batched/request-failed", fmt.Sprintf("DoAcquire of a request with %d items failed as a whole: panic=%v err=%v", len(asked), p, err))
				return
			}
			rec["results"] = res.Status.Results
			if len(res.Status.Results) != len(asked) {
				fail("C08/doacquire/batched/result-count", fmt.Sprintf("%d items asked, %d results answered", len(asked), len(res.Status.Results)))
				return
			}
			for k, it := range asked {
				rs := res.Status.Results[k]
				if rs.FlowControl != it.FlowControl {
					fail("C08/doacquire/batched/result-order", fmt.Sprintf("result %d is for schema %q, item %d asked for %q", k, rs.FlowControl, k, it.FlowControl))
					return
				}
				m, isMIF := models[it.FlowControl]
				isTB := it.FlowControl == "tb0" || it.FlowControl == "tb1"
				switch {
				case !isMIF && !isTB:
					r.Count("batched_items_unknown_schema", 1)
					if rs.Accept || rs.Error == "" {
						fail("C08/doacquire/batched/unknown-schema-not-refused", fmt.Sprintf("item %d names schema %q which the upstream does not have: accept=%v limit=%d error=%q", k, it.FlowControl, rs.Accept, rs.Limit, rs.Error))
						return
					}
				case it.Tokens < 0:
					r.Count("batched_items_negative", 1)
					if rs.Accept || rs.Error == "" {
						fail("C08/doacquire/batched/negative-ask-not-refused", fmt.Sprintf("item %d asks %d of %s: accept=%v limit=%d error=%q", k, it.Tokens, it.FlowControl, rs.Accept, rs.Limit, rs.Error))
						return
					}
				case isTB:
					r.Count("batched_items_token_bucket", 1)
					granted := int32(0)
					if rs.Accept {
						granted = rs.Limit
					}
					legal := granted == 0
					for h, v := 0, it.Tokens; h < 4 && v > 0; h, v = h+1, v/2 {
						if granted == v {
							legal = true
						}
					}
					if !legal || rs.Error != "" {
						fail("C08/doacquire/batched/token-grant", fmt.Sprintf("item %d asks %d of %s: accept=%v limit=%d error=%q (not one of n, n/2, n/4, n/8, 0)", k, it.Tokens, it.FlowControl, rs.Accept, rs.Limit, rs.Error))
						return
					}
				default:
					r.Count("batched_items_max_inflight", 1)
					in := In{Instance: inst, ID: id, Count: it.Tokens}
					out := Out{Accept: rs.Accept, Latest: rs.Limit}
					switch {
					case rs.Error == flowcontrol.RequestIDTooOld.Error():
						out = Out{TooOld: true, Latest: rs.Limit}
						r.Count("batched_items_refused_as_too_old", 1)
					case rs.Error != "":
						out = Out{Err: rs.Error}
					}
					next := m.Step(in, out)
					if len(next) == 0 {
						cur := m.Inst[inst]
						fail("C08/doacquire/batched/"+classify(m, in, out),
							fmt.Sprintf("item %d (%s, id=%d, count=%d) answered accept=%v limit=%d error=%q; on record before: count=%d lastID=%d, total=%d, limit=%d", k, it.FlowControl, id, it.Tokens, rs.Accept, rs.Limit, rs.Error, cur.Count, cur.LastID, m.Total(), m.Max))
						return
					}
					models[it.FlowControl] = next[0]
				}
			}
			names := make([]string, 0, len(models))
			for name := range models {
				names = append(names, name)
			}
			sort.Strings(names)
			for _, name := range names {
				fc, e := st.GetFlowControl(up, name)
				if e != nil {
					fail("C08/doacquire/batched/flow-control-missing", "flow control "+name+" not found")
					return
				}
				d, ok := parseDebug(fc.DebugInfo())
				if !ok {
					r.Inconclusive("DebugInfo() does not parse")
					return
				}
				if msg := compareDebug(models[name], d); msg != "" {
					fail("C08/doacquire/batched/accounting", fmt.Sprintf("schema %s after the request: %s; DebugInfo: max=%d count=%d total=%d %v", name, msg, d.Max, d.Count, d.Total, d.Per))
					return
				}
			}
		}
		r.Eval(1)
		r.Distinct(vkit.Hash64(fmt.Sprintf("%v", trace)))
		if i < 1 {
			t := trace
			if len(t) > 4 {
				t = t[:4]
			}
			r.Sample(map[string]interface{}{"kind": "batched acquire", "head": t})
		}
	})
	r.Require(r.Counter("batched_requests_with_several_items") >= 2000 && r.Counter("batched_duplicate_items") >= 500 && r.Counter("batched_items_unknown_schema") >= 500 &&
		r.Counter("batched_items_negative") >= 500 && r.Counter("batched_items_token_bucket") >= 1000 && r.Counter("batched_items_max_inflight") >= 3000 &&
		r.Counter("batched_items_refused_as_too_old") >= 300, "batched acquire requests observed too little")
}

// tokenBucketReconfigured: ONE caller (so the bound is exact, see tokenBucket) asks through two or three phases between which
// the bucket is re-configured at quiescence: other qps/burst, the schema removed and re-added, or the type toggled and back.
// Each phase is judged on its own with the parameters in force, over windows that start after the change had returned (a
// fresh bucket holds at most `burst` tokens, which is what the bound allows a window to start with). Limits include the
// smallest ones (qps 1, burst 1) and asks the largest (MaxInt32).
func tokenBucketReconfigured(r *vkit.R) {
	phaseTag = "R"
	n := r.N(60, 600)
	cfgs := [][2]int32{{1, 1}, {1, 100}, {100, 1}, {1000, 50}, {5000, 500}, {200, 200}, {20000, 3}, {1, math.MaxInt32}, {math.MaxInt32, math.MaxInt32}, {math.MaxInt32, 1}}
	r.Parallel(n, 8, func(i int, g *vkit.Rand) {
		cfg := cfgs[g.Intn(len(cfgs))]
		t, err := newTBServer(i, tbSchema("tb", cfg[0], cfg[1]))
		if err != nil {
			r.Inconclusive("ApplyUpstream failed: " + err.Error())
			return
		}
		phases := g.Range(2, 3)
		for ph := 0; ph < phases; ph++ {
			qps, burst := cfg[0], cfg[1]
			if ph > 0 {
				how := []string{"resized", "recreated", "type-toggled"}[g.Intn(3)]
				cfg = cfgs[g.Intn(len(cfgs))]
				qps, burst = cfg[0], cfg[1]
				set := func(s ...proxyv1alpha1.FlowControlSchema) {
					c := t.cluster.DeepCopy()
					c.Spec.FlowControl.Schemas = s
					_ = t.srv.ApplyUpstream(c)
				}
				switch how {
				case "recreated":
					set(mifSchema("other", 5))
				case "type-toggled":
					set(mifSchema("tb", 7))
				}
				set(tbSchema("tb", qps, burst))
				r.Count("tbre_"+how, 1)
			}
			asks := []int32{1, 1, 2, 3, 8, burst, c32(int64(burst) + 1), c32(2 * int64(burst)), math.MaxInt32, 0}
			if burst == math.MaxInt32 || qps == math.MaxInt32 {
				r.Count("tbre_phases_with_qps_or_burst_maxint32", 1)
			}
			var grants []grant
			m := g.Range(150, 400)
			for q := 0; q < m; q++ {
				ask := asks[g.Intn(len(asks))]
				if g.Chance(0.03) {
					time.Sleep(time.Duration(g.Range(100, 1500)) * time.Microsecond)
				}
				t0 := bed.Now()
				rs, err := t.acquire(fmt.Sprintf("gw%d", q%3), "tb", int64(q+1), ask)
				t1 := bed.Now()
				if err != nil {
					viol(r, t.srv, "C08/tokenbucket/reconfigured/acquire-failed", fmt.Sprintf("phase %d (qps=%d burst=%d): DoAcquire(%d) failed: %v", ph, qps, burst, ask, err), nil)
					return
				}
				gr := grant{Asked: ask, Call: t0, Return: t1}
				if rs.Accept {
					gr.Granted = rs.Limit
				}
				legal := gr.Granted == 0
				for h, v := 0, ask; h < 4 && v > 0; h, v = h+1, v/2 {
					if gr.Granted == v {
						legal = true
					}
				}
				if !legal || rs.Error != "" {
					viol(r, t.srv, "C08/tokenbucket/reconfigured/grant-not-in-halving-series", fmt.Sprintf("phase %d (qps=%d burst=%d): asked %d, granted %d accept=%v error=%q", ph, qps, burst, ask, gr.Granted, rs.Accept, rs.Error), gr)
					return
				}
				if gr.Granted != ask {
					r.Count("tbre_refused_or_partial", 1)
				}
				if gr.Granted > 0 {
					grants = append(grants, gr)
				}
			}
			r.Count("tbre_phases", 1)
			r.Count("tbre_grants", len(grants))
			for a := 0; a < len(grants); a++ {
				var sum int64
				for b := a; b < len(grants); b++ { // one caller: grants are ordered by call and by return
					sum += int64(grants[b].Granted)
					T := float64(grants[b].Return-grants[a].Call) / 1e9
					if allowed := float64(burst) + float64(qps)*T + 1; float64(sum) > allowed {
						viol(r, t.srv, "C08/tokenbucket/reconfigured/window-bound",
							fmt.Sprintf("phase %d after re-configuration to qps=%d burst=%d: %d tokens granted inside a window of %.3f ms, more than burst+qps*T = %.1f", ph, qps, burst, sum, T*1e3, allowed-1),
							map[string]interface{}{"qps": qps, "burst": burst, "phase": ph, "grants_in_phase": len(grants), "window": []grant{grants[a], grants[b]}})
						return
					}
				}
			}
		}
		r.Eval(1)
		r.Distinct(vkit.Hash64(fmt.Sprintf("tbre/%d/%v", i, cfg)))
	})
	r.Require(r.Counter("tbre_phases") >= 100 && r.Counter("tbre_grants") >= 300 && r.Counter("tbre_refused_or_partial") >= 1000 &&
		r.Counter("tbre_phases_with_qps_or_burst_maxint32") >= 20 && r.Counter("tbre_resized") >= 10 && r.Counter("tbre_recreated") >= 10 && r.Counter("tbre_type-toggled") >= 10, "re-configured token-bucket runs observed too little")
}

var _ = strings.Repeat

// tokenBucketReconfiguredWhileAsked: the bucket is re-configured (other qps / burst) WHILE instances are asking. The bound is
// defined for the grants of each configuration: grants whose call had RETURNED before the change was delivered are judged
// with the old parameters, grants whose call STARTED after the delivery had returned with the new ones (a fresh bucket holds
// at most its burst, which is what the bound allows a window to start with); grants of calls that overlap the delivery belong
// to neither and are only counted. The k caller goroutines take turns under a harness mutex (see tokenBucket), so within a
// group the timestamps the bucket sees are non-decreasing and the bound is exact; the delivery runs in a goroutine of its own,
// outside that mutex, and really races with a call.
func tokenBucketReconfiguredWhileAsked(r *vkit.R) {
	phaseTag = "W"
	n := r.N(60, 600)
	cfgs := [][2]int32{{1, 1}, {100, 5}, {1000, 50}, {5000, 500}, {200, 200}, {20000, 3}}
	r.Parallel(n, 8, func(i int, g *vkit.Rand) {
		oldC, newC := cfgs[g.Intn(len(cfgs))], cfgs[g.Intn(len(cfgs))]
		t, err := newTBServer(i, tbSchema("tb", oldC[0], oldC[1]))
		if err != nil {
			r.Inconclusive("ApplyUpstream failed: " + err.Error())
			return
		}
		k := g.Range(2, 5)
		per := g.Range(150, 300)
		var turn, mu sync.Mutex
		var grants []grant
		var ta, tb int64
		var wg sync.WaitGroup
		seeds := make([]*vkit.Rand, k)
		for w := range seeds {
			seeds[w] = g.Sub(w)
		}
		started := make(chan struct{})
		var once sync.Once
		for w := 0; w < k; w++ {
			wg.Add(1)
			go func(w int, g *vkit.Rand) {
				defer wg.Done()
				var mine []grant
				for q := 0; q < per; q++ {
					if q == per/3 {
						once.Do(func() { close(started) })
					}
					ask := []int32{1, 1, 2, 3, 8, 16, 50, 0}[g.Intn(8)]
					turn.Lock()
					t0 := bed.Now()
					rs, err := t.acquire(fmt.Sprintf("gw%d", w), "tb", int64(q+1), ask)
					t1 := bed.Now()
					turn.Unlock()
					if err != nil {
						viol(r, t.srv, "C08/tokenbucket/reconfigured-while-asked/acquire-failed", fmt.Sprintf("DoAcquire(%d) failed while the bucket was being re-configured: %v", ask, err), nil)
						return
					}
					gr := grant{Inst: w, Asked: ask, Call: t0, Return: t1}
					if rs.Accept {
						gr.Granted = rs.Limit
					}
					legal := gr.Granted == 0
					for h, v := 0, ask; h < 4 && v > 0; h, v = h+1, v/2 {
						if gr.Granted == v {
							legal = true
						}
					}
					if !legal || rs.Error != "" {
						viol(r, t.srv, "C08/tokenbucket/reconfigured-while-asked/grant-not-in-halving-series", fmt.Sprintf("asked %d, granted %d accept=%v error=%q", ask, gr.Granted, rs.Accept, rs.Error), gr)
						return
					}
					if gr.Granted > 0 {
						mine = append(mine, gr)
					}
				}
				mu.Lock()
				grants = append(grants, mine...)
				mu.Unlock()
			}(w, seeds[w])
		}
		wg.Add(1)
		go func() {
			defer wg.Done()
			<-started
			c := t.cluster.DeepCopy()
			c.Spec.FlowControl.Schemas = []proxyv1alpha1.FlowControlSchema{tbSchema("tb", newC[0], newC[1])}
			ta = bed.Now()
			_ = t.srv.ApplyUpstream(c)
			tb = bed.Now()
		}()
		wg.Wait()
		r.Eval(1)
		r.Count("tbrace_runs", 1)
		sort.Slice(grants, func(a, b int) bool { return grants[a].Call < grants[b].Call })
		var before, after []grant
		for _, gr := range grants {
			switch {
			case gr.Return < ta:
				before = append(before, gr)
			case gr.Call > tb:
				after = append(after, gr)
			default:
				r.Count("tbrace_grants_overlapping_the_change_unjudged", 1)
			}
		}
		r.Count("tbrace_grants_before_the_change", len(before))
		r.Count("tbrace_grants_after_the_change", len(after))
		if len(before) > 0 && len(after) > 0 {
			r.Count("tbrace_runs_with_grants_on_both_sides", 1)
		}
		judge := func(gs []grant, qps, burst int32, side string) bool {
			for a := 0; a < len(gs); a++ {
				var sum int64
				for b := a; b < len(gs); b++ {
					sum += int64(gs[b].Granted)
					T := float64(gs[b].Return-gs[a].Call) / 1e9
					if allowed := float64(burst) + float64(qps)*T + 1; float64(sum) > allowed {
						viol(r, t.srv, "C08/tokenbucket/reconfigured-while-asked/window-bound/"+side,
							fmt.Sprintf("re-configuration qps/burst %v -> %v delivered while %d instances were asking: the grants wholly %s the change (judged with qps=%d burst=%d) hold a window of %.3f ms with %d tokens, more than burst+qps*T = %.1f",
								oldC, newC, k, side, qps, burst, T*1e3, sum, allowed-1),
							map[string]interface{}{"old": oldC, "new": newC, "change_ns": []int64{ta, tb}, "window": []grant{gs[a], gs[b]}, "grants_on_this_side": len(gs)})
						return false
					}
				}
			}
			return true
		}
		if judge(before, oldC[0], oldC[1], "before") {
			judge(after, newC[0], newC[1], "after")
		}
	})
	r.Require(r.Counter("tbrace_runs") >= 50 && r.Counter("tbrace_runs_with_grants_on_both_sides") >= 30 && r.Counter("tbrace_grants_after_the_change") >= 300, "re-configuration racing with asks observed too little")
}
