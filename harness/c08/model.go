// Package c08 checks property C08 (global count: the server never grants beyond the global limit; accounting is exact).
//
// What the statement lets the oracle demand of a max-in-flight flow control (SetState(instance, requestID, count)):
//
//	(A) exact accounting: the running total equals the sum of the per-instance counts on record, whatever raced;
//	(B) safety: an increase is put on record only if the sum of the counts on record stays <= the limit;
//	(C) a report that does not raise the instance's count (count <= what is on record) with a fresh request id is ALWAYS applied;
//	(D) a report whose request id (> 0) is not newer than one already processed for the instance is refused (RequestIDTooOld)
//	    and changes nothing; a processed id counts as processed also when the increase it carried was refused;
//	(E) a negative count removes the instance: its count leaves the total exactly once.
//
// "The count on record" after a call is the `latest` value the call returns (asked value when applied, previous value when an
// increase is refused). Widenings (correct code legitimately does this):
//   - an increase that would fit MAY be refused (concurrent optimistic adds refuse each other; the statement only forbids granting);
//   - the `accept` flag is not judged beyond "accept=true means applied": the code answers accept=false,latest=asked when the
//     total lands exactly on the limit, and the statement says nothing about the flag;
//   - after a removal the instance's request-id memory is gone (the code forgets it; the statement speaks of ids "already
//     processed for that instance", and the workloads here never reuse ids across a removal anyway);
//   - request id 0 is "no id" (the API field is omitempty) and not subject to (D); every other id, negative ones included, is
//     (the removal path passes -1 together with a negative count and is a removal, not a report).
package c08

import (
	"fmt"
	"sort"
	"strings"

	"github.com/anishathalye/porcupine"
)

type ist struct {
	Count  int32
	LastID int64
	HasID  bool // an id has been processed for the instance (LastID is meaningful)
}

// Model is the sequential reference state of one max-in-flight global flow control.
type Model struct {
	Max  int32
	Inst map[string]ist
}

func NewModel(max int32) *Model { return &Model{Max: max, Inst: map[string]ist{}} }

func (m *Model) Total() int64 {
	var t int64
	for _, s := range m.Inst {
		t += int64(s.Count)
	}
	return t
}

func (m *Model) clone() *Model {
	c := &Model{Max: m.Max, Inst: make(map[string]ist, len(m.Inst))}
	for k, v := range m.Inst {
		c.Inst[k] = v
	}
	return c
}

func (m *Model) key() string {
	ks := make([]string, 0, len(m.Inst))
	for k := range m.Inst {
		ks = append(ks, k)
	}
	sort.Strings(ks)
	var b strings.Builder
	fmt.Fprintf(&b, "%d", m.Max)
	for _, k := range ks {
		fmt.Fprintf(&b, "|%s:%d:%d:%v", k, m.Inst[k].Count, m.Inst[k].LastID, m.Inst[k].HasID)
	}
	return b.String()
}

// In / Out of one SetState call.
type In struct {
	Instance string `json:"instance"`
	ID       int64  `json:"requestID"`
	Count    int32  `json:"count"` // < 0 = removal
}

type Out struct {
	Accept bool   `json:"accept"`
	Latest int32  `json:"latest"`
	TooOld bool   `json:"tooOld,omitempty"`
	Err    string `json:"err,omitempty"` // any other error
}

// Step returns every state the model may be in after the call answered `out` from state m (none = impossible answer).
func (m *Model) Step(in In, out Out) []*Model {
	if out.Err != "" {
		return nil // no other error exists in the contract
	}
	if in.Count < 0 { // (E)
		if out.TooOld {
			return nil
		}
		n := m.clone()
		delete(n.Inst, in.Instance)
		return []*Model{n}
	}
	cur, exists := m.Inst[in.Instance]
	if in.ID != 0 && exists && cur.HasID && in.ID <= cur.LastID { // (D)
		if !out.TooOld {
			return nil
		}
		return []*Model{m}
	}
	if out.TooOld {
		return nil // a fresh id must not be refused as too old
	}
	n := m.clone()
	ns := cur
	if in.ID != 0 {
		ns.LastID, ns.HasID = in.ID, true
	}
	if in.Count <= cur.Count { // (C) always applied
		if out.Latest != in.Count {
			return nil
		}
		ns.Count = in.Count
		n.Inst[in.Instance] = ns
		return []*Model{n}
	}
	// an increase: applied only within the limit (B), or refused (widening)
	switch {
	case out.Latest == in.Count:
		if m.Total()-int64(cur.Count)+int64(in.Count) > int64(m.Max) {
			return nil
		}
		ns.Count = in.Count
		n.Inst[in.Instance] = ns
		return []*Model{n}
	case out.Latest == cur.Count && !out.Accept:
		n.Inst[in.Instance] = ns // refused; the id is processed, the instance is known with its old count
		return []*Model{n}
	}
	return nil
}

// PorcupineModel wraps Model for porcupine. The model is non-deterministic in the sense that an increase has two legal
// outcomes (applied / refused); since the answer tells which one was taken, each (state, call, answer) has at most one successor.
func PorcupineModel(max int32) porcupine.Model {
	return porcupine.Model{
		Init: func() interface{} { return NewModel(max) },
		Step: func(state, input, output interface{}) (bool, interface{}) {
			next := state.(*Model).Step(input.(In), output.(Out))
			if len(next) == 0 {
				return false, state
			}
			return true, next[0]
		},
		Equal: func(a, b interface{}) bool { return a.(*Model).key() == b.(*Model).key() },
		DescribeOperation: func(input, output interface{}) string {
			return fmt.Sprintf("%+v -> %+v", input, output)
		},
	}
}
