// Package c18 checks property C18: the quota and the in-flight counts of a gateway instance that stopped sending
// heartbeats are forgotten within the cleanup period, the freed capacity is available to the others, and the recorded
// state of an instance that keeps sending heartbeats is never removed.
//
// Reading of "within the cleanup period": the server has two periodic passes, cleanupTimeoutClient (every 1 s; forgets
// instances whose last heartbeat is older than 3 s and removes, from a goroutine, their flow-control counts and the
// conditions carrying their instance label) and cleanupUnknownCondition (every 30 s; removes conditions of instances it does
// not know). The first report of an instance stores its condition with an empty instance label, so that condition is only
// found by the second kind of pass. The oracle therefore demands the state of a dead instance to be gone only once, while it
// stayed silent, a timeout pass has run (and its goroutine's effects were awaited) AND an unknown-condition pass has run
// after it. Nothing is demanded while only one kind of pass has run, nor for an instance that heartbeats again in between.
package c18

import (
	"bytes"
	"context"
	"fmt"
	"regexp"
	"runtime"
	"strconv"
	"strings"
	"sync"
	"sync/atomic"
	"testing"
	"time"

	metav1 "k8s.io/apimachinery/pkg/apis/meta/v1"
	"k8s.io/apimachinery/pkg/labels"
	"k8s.io/apimachinery/pkg/util/validation"

	proxyv1alpha1 "github.com/kubewharf/kubegateway/pkg/apis/proxy/v1alpha1"
	"github.com/kubewharf/kubegateway/pkg/ratelimiter/util"

	apierrors "k8s.io/apimachinery/pkg/api/errors"
	k8sruntime "k8s.io/apimachinery/pkg/runtime"
	clienttesting "k8s.io/client-go/testing"

	gatewayfake "github.com/kubewharf/kubegateway/pkg/client/kubernetes/fake"

	"verifharness/bed"
	"verifharness/vkit"
)

func TestCheck(t *testing.T) {
	vkit.Run(t, "C18", "exploration", func(r *vkit.R) {
		r.Rule("histories on the real rate-limiter server (scripted leader of all of 1-3 shards, or - every 4th history - of only some of 2-4 shards with the rest led by another server and condition names hashing to any shard; local store, 1-2 upstreams each with a globalAllocate and a globalCount max-in-flight schema): " +
			"2-7 instances (identities gw-N, or in every 3rd history ip:port / IPv6 / dotted / upper-case ones and pairs differing only by ':' vs '-') join (heartbeat), report (allocate), acquire (count, via DoAcquire), go silent (last heartbeat set 4 s back; timeout 3 s), come back with the same or a new identity; " +
			"the two periodic cleanup passes are stepped by hand in any order and number (the asynchronous part of the timeout pass is awaited by polling). " +
			"Oracle: dead = silent through a timeout pass and a later unknown-condition pass => no condition, no flow-control count, totals exact, a survivor can take the freed count, " +
			"recorded allocated sum = sum of survivors; live (fresh heartbeat at every pass) => conditions and counts untouched by every pass. " +
			"Non-trivial = at least one instance with recorded state was reclaimed while another live one held state; distinct = hash of the history trace.")
		r.Assume("leadership does not change during a generated history; cleanup passes racing with leadership changes, upstream registrations and reports are driven by the separate churn scenarios (mapstress_test.go)")
		n := r.N(2000, 40000)
		r.Parallel(n, 16, func(i int, g *vkit.Rand) {
			h := newHistory(r, g, i)
			if h == nil {
				return
			}
			h.run()
			r.Eval(1)
			r.Count("histories", 1)
			if h.nontrivial {
				r.Distinct(vkit.Hash64(strings.Join(h.trace, "\n")))
			}
			if i < 2 {
				tr := h.trace
				if len(tr) > 30 {
					tr = tr[:30]
				}
				r.Sample(map[string]interface{}{"kind": "history", "trace_head": tr})
			}
		})
		if !r.Quick() {
			// real-time variant: the same histories with real silences (few, they cost > 3 s each)
			phaseTag = "rt"
			r.Parallel(96, 32, func(i int, g *vkit.Rand) {
				h := newHistory(r, g, i)
				if h == nil {
					return
				}
				h.realtime = true
				h.run()
				r.Eval(1)
				r.Count("histories_realtime", 1)
			})
			r.Require(r.Counter("realtime_silences_slept") >= 50, "the real-time variant did not sleep through real silences")
		}
		returnDuringCleanup(r)
		joinDuringUnknownPass(r)
		cleanupUnderLeadershipChurn(r)
		r.Require(r.Counter("return_overlaps_achieved") >= int64(r.N(50, 500)) && r.Counter("return_overlaps_confirmed_by_goroutine_dump") >= 10, "too few returns actually overlapped the clean-up goroutine")
		r.Require(r.Counter("histories_leading_some_shards_only") >= 100 && r.Counter("reclaimed_conditions_whose_name_hashes_to_a_shard_not_led") >= 50,
			"too few dead instances reclaimed on a server that leads only some shards, with condition names hashing to the other shards")
		r.Require(r.Counter("histories_with_realistic_identities") >= 100 && r.Counter("instances_with_colon_in_identity") >= 300 && r.Counter("identity_pairs_differing_by_colon_vs_dash") >= 50,
			"too few instances with realistic identities (ip:port, IPv6, pairs differing by ':' vs '-')")
		r.Require(r.Counter("passes_with_live_traffic") >= 500 && r.Counter("live_checks_of_instances_with_traffic_during_the_pass") >= 800, "too few cleanup passes with live instances reporting meanwhile")
		r.Require(r.Counter("histories_with_api_backed_store") >= 100 && r.Counter("reclaimed_checked_in_the_api") >= 200 && r.Counter("api_store_leader_restarts") >= 100, "the API-backed store variant observed too little")
		r.Require(r.Counter("api_store_moves_to_a_new_server") >= 100 && r.Counter("silent_instances_with_conditions_at_a_move") >= 40 && r.Counter("reclaimed_on_a_server_that_never_heard_from_the_instance") >= 40,
			"too few moves of the shards to a new server with an instance that went silent before the move")
		r.Require(r.Counter("unknown_passes_with_refused_api_deletes")+r.Counter("timeout_passes_with_refused_api_deletes") >= 40, "too few cleanup passes during which the API refused a delete")
		r.Require(r.Counter("upstreams_deleted_and_recreated") >= 50 && r.Counter("instances_with_identity_longer_than_63") >= 50, "too few upstream deletions / long identities")
		r.Require(r.Counter("reinit_premise_not_met") == 0 && !bed.PremiseBroken(),
			"a server's store held state that did not come through that server (stores shared between servers / surviving a loss of leadership: C13's clause): no verdict")
		r.Require(r.Counter("histories") >= 100, "too few histories")
		r.Require(r.Counter("reclaimed_with_conditions") >= 100 && r.Counter("reclaimed_with_counts") >= 100, "too few dead instances with recorded state were reclaimed")
		r.Require(r.Counter("reclaimed_first_report_only") >= 20, "the empty-label (first report only) case was not exercised")
		r.Require(r.Counter("live_checks_with_state") >= 500, "too few live-instance checks")
		r.Require(r.Counter("returns_same_identity") >= 30 && r.Counter("returns_new_identity") >= 30, "too few returning instances")
		r.Require(r.Counter("freed_capacity_probes") >= 100, "too few freed-capacity probes")
	})
}

const allocSchema = "alloc"

// A "count key" is upstream + "/" + name of a globalCount max-in-flight schema. Every upstream carries 1-3 of those next to
// 0-4 globalCount token-bucket schemas (which keep no per-instance state but sit in the same flow-control map the server
// walks when it releases an instance's counts) and the globalAllocate schema.
func keyUp(key string) string     { return key[:strings.LastIndex(key, "/")] }
func keySchema(key string) string { return key[strings.LastIndex(key, "/")+1:] }

type inst struct {
	id          string
	live        bool             // sends heartbeats
	expired     bool             // silent through a timeout pass
	quota       map[string]int32 // upstream -> last allocate answer
	reports     map[string]int   // upstream -> number of reports since its record was (re)created
	count       map[string]int32 // upstream -> last accepted in-flight count
	reqID       int64
	neverSeen   bool      // went silent before the shards moved to the current server: that server never got a heartbeat from it
	acquireOnly bool      // second of an identity pair that differs only by ':' vs '-' (see identity)
	silentAt    time.Time // real-time variant: when it stopped heartbeating
}

type history struct {
	r          *vkit.R
	g          *vkit.Rand
	srv        *bed.LimiterServer
	ups        []string
	allocMax   map[string]int32
	countMax   map[string]int32    // count key -> limit
	cnts       map[string][]string // upstream -> its count keys
	tbs        map[string]int      // upstream -> number of token-bucket count schemas
	insts      []*inst
	nextID     int
	trace      []string
	dead       bool
	nontrivial bool
	led        map[int]bool // shards this server leads (all of them unless partial)
	partial    bool         // the other shards are led by "other-server"
	mu         sync.Mutex   // trace (live instances report while a pass runs)
	k8s        bool         // API-backed store (write-through) over a fake clientset
	api        *gatewayfake.Clientset
	gen        int    // number of times the shards moved to a new server process
	faultArm   int32  // API-backed store: number of condition deletes the API will refuse next (fault injection)
	faultHits  int32  // ... and how many it has refused so far
	noFaults   bool   // closing the history: no more faults
	realIDs    bool   // realistic identities (see identity)
	twin       string // identity the next joining instance takes
	realtime   bool   // silences are real (no heartbeat for > 3 s of wall time) instead of a back-dated heartbeat
}

var watchdogFired int32

func (h *history) logf(f string, a ...interface{}) {
	h.mu.Lock()
	h.trace = append(h.trace, fmt.Sprintf(f, a...))
	h.mu.Unlock()
}

func (h *history) witness() map[string]interface{} {
	tr := h.trace
	if len(tr) > 80 {
		tr = append([]string{fmt.Sprintf("... %d earlier steps omitted", len(tr)-80)}, tr[len(tr)-80:]...)
	}
	return map[string]interface{}{"upstreams": h.ups, "allocLimit": h.allocMax, "countLimit": h.countMax, "shards": h.srv.Shards, "trace": tr,
		"how": "bed.NewLimiterServer(LeadAll); ApplyUpstream; Heartbeat / UpdateRateLimitConditionStatus / DoAcquire per trace line; silent = Handle.SetHeartbeat(id, now-4s); passes = Handle.CleanupTimeoutClient() (await) / Handle.CleanupUnknownCondition()"}
}

func (h *history) violate(sig, what string) {
	h.dead = true
	// no verdict from a history whose premise is broken: the server's stores hold only what came through this server
	// (bed.StoreHasForeignUpstreams; that a server shares no state with another and keeps none across a loss of leadership
	// is C13's statement)
	if bed.StoreHasForeignUpstreams(h.srv) {
		h.r.Count("reinit_premise_not_met", 1)
		return
	}
	h.r.Violation(sig, what, h.witness())
}

// phaseTag: see newHistory - every server gets upstream names of its own (bed.StoreHasForeignUpstreams relies on it).
var phaseTag string

func newHistory(r *vkit.R, g *vkit.Rand, i int) *history {
	h := &history{r: r, g: g, allocMax: map[string]int32{}, countMax: map[string]int32{}, cnts: map[string][]string{}, tbs: map[string]int{}}
	h.led = map[int]bool{}
	h.realIDs = i%3 == 1
	if h.realIDs {
		r.Count("histories_with_realistic_identities", 1)
	}
	if i%4 == 3 {
		// several limiter servers: this one leads only some of the shards, "other-server" the rest. The upstreams used are of
		// led shards; the NAMES of the instances' conditions (<upstream>.<instance>) hash to any shard, led or not.
		h.partial = true
		shards := g.Range(2, 4)
		h.srv = bed.NewLimiterServer(bed.LimiterOptions{Shards: shards})
		p := g.Perm(shards)
		nLed := g.Range(1, shards-1)
		for k, sh := range p {
			if k < nLed {
				h.led[sh] = true
				h.srv.Elector.Gain(sh)
			} else {
				h.srv.Elector.SetLeader(sh, "other-server")
			}
		}
		r.Count("histories_leading_some_shards_only", 1)
	} else {
		o := bed.LimiterOptions{LeadAll: true, Shards: 1 + i%3}
		if i%5 == 2 { // the API-backed store (every save and delete goes to the API first), over a fake clientset
			h.k8s, h.api = true, gatewayfake.NewSimpleClientset()
			// fault injection: the API refuses a condition delete now and then (the store does not retry such an error; the
			// next unknown-condition pass does)
			h.api.PrependReactor("delete", "ratelimitconditions", func(clienttesting.Action) (bool, k8sruntime.Object, error) {
				if atomic.AddInt32(&h.faultArm, -1) >= 0 {
					atomic.AddInt32(&h.faultHits, 1)
					return true, nil, apierrors.NewServiceUnavailable("injected fault")
				}
				return false, nil, nil
			})
			o.Store, o.GatewayClient = "k8s", h.api
			r.Count("histories_with_api_backed_store", 1)
		}
		h.srv = bed.NewLimiterServer(o)
		for sh := 0; sh < h.srv.Shards; sh++ {
			h.led[sh] = true
		}
	}
	nu := 1 + g.Intn(2)
	for u := 0; u < nu; u++ {
		name := fmt.Sprintf("up%s%d-%d", phaseTag, i, u)
		for k := 0; !h.led[util.GetShardID(name, h.srv.Shards)]; k++ { // an upstream of a shard this server leads
			name = fmt.Sprintf("up%s%d-%d-%d", phaseTag, i, u, k)
		}
		h.ups = append(h.ups, name)
		h.allocMax[name] = g.PickI32([]int32{20, 100, 1000, 10000})
		c := &proxyv1alpha1.UpstreamCluster{ObjectMeta: metav1.ObjectMeta{Name: name}}
		c.Spec.FlowControl.Schemas = []proxyv1alpha1.FlowControlSchema{
			{Name: allocSchema, Strategy: proxyv1alpha1.GlobalAllocateLimit, FlowControlSchemaConfiguration: proxyv1alpha1.FlowControlSchemaConfiguration{
				GlobalMaxRequestsInflight: &proxyv1alpha1.MaxRequestsInflightFlowControlSchema{Max: h.allocMax[name]}}},
		}
		for k, nm := 0, g.Range(1, 3); k < nm; k++ {
			key := fmt.Sprintf("%s/cnt%d", name, k)
			h.cnts[name] = append(h.cnts[name], key)
			h.countMax[key] = g.PickI32([]int32{5, 20, 100})
			c.Spec.FlowControl.Schemas = append(c.Spec.FlowControl.Schemas, proxyv1alpha1.FlowControlSchema{Name: keySchema(key), Strategy: proxyv1alpha1.GlobalCountLimit,
				FlowControlSchemaConfiguration: proxyv1alpha1.FlowControlSchemaConfiguration{GlobalMaxRequestsInflight: &proxyv1alpha1.MaxRequestsInflightFlowControlSchema{Max: h.countMax[key]}}})
		}
		nt := g.Range(2, 4)
		if g.Chance(0.25) {
			nt = g.Range(0, 1)
		}
		h.tbs[name] = nt
		for k := 0; k < nt; k++ {
			c.Spec.FlowControl.Schemas = append(c.Spec.FlowControl.Schemas, proxyv1alpha1.FlowControlSchema{Name: fmt.Sprintf("tb%d", k), Strategy: proxyv1alpha1.GlobalCountLimit,
				FlowControlSchemaConfiguration: proxyv1alpha1.FlowControlSchemaConfiguration{GlobalTokenBucket: &proxyv1alpha1.TokenBucketFlowControlSchema{QPS: 100, Burst: 100}}})
		}
		if nt > 0 {
			r.Count("upstreams_with_token_bucket_next_to_max_inflight", 1)
		}
		sh := make([]proxyv1alpha1.FlowControlSchema, 0, len(c.Spec.FlowControl.Schemas))
		for _, idx := range g.Perm(len(c.Spec.FlowControl.Schemas)) {
			sh = append(sh, c.Spec.FlowControl.Schemas[idx])
		}
		c.Spec.FlowControl.Schemas = sh
		// upstreams are registered before anything else happens (rateLimiter.upstreamLock is an unsynchronised map)
		if err := h.srv.ApplyUpstream(c); err != nil {
			r.Inconclusive("ApplyUpstream failed: " + err.Error())
			return nil
		}
	}
	if h.partial {
		h.logf("this server leads shards %v of %d, the others are led by other-server", h.led, h.srv.Shards)
	}
	h.logf("server with %d shard(s); upstreams %v alloc limits %v; globalCount max-in-flight limits %v; globalCount token-bucket schemas per upstream %v", h.srv.Shards, h.ups, h.allocMax, h.countMax, h.tbs)
	return h
}

// ---- observing the server

type snapshot struct {
	cond  map[string]map[string]int32 // instance -> upstream -> quota on record (allocate condition)
	count map[string]map[string]int64 // instance -> upstream -> count in the flow control's DebugInfo
	bad   string                      // count != total somewhere
	state map[string]int64            // upstream -> allocated sum recorded in <upstream>.state
}

var (
	debugRe = regexp.MustCompile(`^name=(\S*) max=(-?\d+) count=(-?\d+) total=(-?\d+) details=(.*)$`)
)

// parseDetails reads "[<instance>: <count>],[<instance>: <count>]" where the instance may itself contain ':', '[' and ']'
// (ip:port and IPv6 identities): entries are separated by "],[", the count follows the LAST ": " of an entry.
func parseDetails(d string) map[string]int64 {
	out := map[string]int64{}
	if len(d) < 2 {
		return out
	}
	for _, e := range strings.Split(d[1:len(d)-1], "],[") {
		if k := strings.LastIndex(e, ": "); k > 0 {
			v, _ := strconv.ParseInt(e[k+2:], 10, 64)
			out[e[:k]] = v
		}
	}
	return out
}

func (h *history) snap() snapshot {
	s := snapshot{cond: map[string]map[string]int32{}, count: map[string]map[string]int64{}, state: map[string]int64{}}
	for _, up := range h.ups {
		st := h.srv.Handle.Store(util.GetShardID(up, h.srv.Shards))
		if st == nil {
			continue
		}
		for _, c := range st.ListUpstream(up) {
			if c.Name == up+".state" {
				for _, it := range c.Status.LimitItemStatuses {
					if it.Name == allocSchema && it.MaxRequestsInflight != nil {
						s.state[up] = int64(it.MaxRequestsInflight.Max)
					}
				}
				continue
			}
			id := c.Spec.Instance
			if s.cond[id] == nil {
				s.cond[id] = map[string]int32{}
			}
			q := int32(0)
			for _, it := range c.Spec.LimitItemConfigurations {
				if it.Name == allocSchema && it.MaxRequestsInflight != nil {
					q = it.MaxRequestsInflight.Max
				}
			}
			s.cond[id][up] = q
		}
		for _, key := range h.cnts[up] { // EVERY max-in-flight count flow control of the upstream
			fc, err := st.GetFlowControl(up, keySchema(key))
			if err != nil {
				s.bad = "flow control " + key + " not found"
				continue
			}
			m := debugRe.FindStringSubmatch(fc.DebugInfo())
			if m == nil {
				s.bad = "DebugInfo does not parse: " + fc.DebugInfo()
				continue
			}
			cnt, _ := strconv.ParseInt(m[3], 10, 64)
			tot, _ := strconv.ParseInt(m[4], 10, 64)
			if cnt != tot {
				s.bad = fmt.Sprintf("%s: running total %d but per-instance counts sum to %d (%s)", key, cnt, tot, m[5])
			}
			for id, v := range parseDetails(m[5]) {
				if s.count[id] == nil {
					s.count[id] = map[string]int64{}
				}
				s.count[id][key] = v
			}
		}
	}
	return s
}

// labelled reports whether the server's selector for the instance label finds a condition of the instance.
func (h *history) labelled(id string) bool {
	for _, sh := range h.srv.Handle.Shards() {
		st := h.srv.Handle.Store(sh)
		if st == nil {
			continue
		}
		// exact match on the label (Set.AsSelector would turn an identity that is not a valid label value into "everything")
		if len(st.List(labels.SelectorFromValidatedSet(labels.Set{"proxy.kubegateway.io/ratelimitcondition.instance": id}))) > 0 {
			return true
		}
	}
	return false
}

var stackBuf = sync.Pool{New: func() interface{} { b := make([]byte, 1<<20); return &b }}

// noCleanupGoroutine reports whether no goroutine started by rateLimiter.cleanupTimeoutClient exists right now.
func noCleanupGoroutine() bool {
	bp := stackBuf.Get().(*[]byte)
	defer stackBuf.Put(bp)
	for {
		n := runtime.Stack(*bp, true)
		if n < len(*bp) {
			return !bytes.Contains((*bp)[:n], []byte("cleanupTimeoutClient.func"))
		}
		*bp = make([]byte, 2*len(*bp))
	}
}

// foreignName: the upstream is of a led shard but the condition NAME of (upstream, instance) hashes to a shard led elsewhere.
func (h *history) foreignName(up, id string) bool {
	return h.partial && !h.led[util.GetShardID(util.GenerateRateLimitConditionName(up, id), h.srv.Shards)]
}

// touched: what a live instance reported on while a pass ran.
type touched struct {
	ups  map[string]bool
	keys map[string]bool
}

// withTraffic runs a cleanup pass; in a third of the cases up to three LIVE instances (already heartbeating before the pass,
// heartbeat fresh) keep reporting and acquiring while it runs - each from its own goroutine, its operations drawn beforehand.
func (h *history) withTraffic(pass func()) map[string]*touched {
	var live []*inst
	for _, w := range h.insts {
		if w.live {
			live = append(live, w)
		}
	}
	if len(live) == 0 || !h.g.Chance(0.33) {
		pass()
		return nil
	}
	busy := map[string]*touched{}
	var jobs [][]func()
	for _, idx := range h.g.Perm(len(live)) {
		if len(jobs) == 3 {
			break
		}
		w := live[idx]
		t := &touched{ups: map[string]bool{}, keys: map[string]bool{}}
		busy[w.id] = t
		var ops []func()
		for k, n := 0, h.g.Range(2, 4); k < n; k++ {
			up := h.ups[h.g.Intn(len(h.ups))]
			if w.acquireOnly || h.g.Bool() {
				key := h.cnts[up][h.g.Intn(len(h.cnts[up]))]
				cnt := int32(h.g.Range(0, int(h.countMax[key])/2+1))
				t.keys[key] = true
				ops = append(ops, func() { h.acquire(w, key, cnt) })
			} else {
				frac := h.g.Float()
				t.ups[up] = true
				ops = append(ops, func() { h.reportU(w, up, frac) })
			}
		}
		jobs = append(jobs, ops)
	}
	h.logf("the next pass runs while %d live instance(s) keep reporting", len(jobs))
	h.r.Count("passes_with_live_traffic", 1)
	start := make(chan struct{})
	var wg sync.WaitGroup
	for _, ops := range jobs {
		wg.Add(1)
		go func(ops []func()) {
			defer wg.Done()
			<-start
			for _, op := range ops {
				op()
			}
		}(ops)
	}
	wg.Add(1)
	go func() {
		defer wg.Done()
		<-start
		pass()
	}()
	close(start)
	wg.Wait()
	return busy
}

// moveToNewServer (API-backed store): every shard moves to ANOTHER limiter server process - a new rateLimiter with its own,
// empty heartbeat table - which loads the conditions the API holds. The live instances find it and heartbeat to it; an
// instance that went silent before the move never does, so the new leader knows it only from the condition it loaded. The
// in-flight counts are not persisted (they start from zero for everybody). For the oracle a silent instance is, on the new
// server, in the very state a timeout pass establishes (not in the heartbeat table): it is dead once an unknown-condition
// pass has run there.
func (h *history) moveToNewServer() {
	if !h.k8s {
		return
	}
	var objs []*proxyv1alpha1.UpstreamCluster
	for _, up := range h.ups {
		if o, ok := h.srv.Upstream.Get(up); ok {
			objs = append(objs, o)
		}
	}
	h.gen++
	next := fmt.Sprintf("limiter-%d", h.gen)
	for sh := range h.led {
		h.srv.Elector.Lose(sh, next) // stops and flushes the old leader's store
	}
	srv := bed.NewLimiterServer(bed.LimiterOptions{Identity: next, LeadAll: true, Shards: h.srv.Shards, Store: "k8s", GatewayClient: h.api})
	for _, o := range objs {
		if err := srv.ApplyUpstream(o); err != nil {
			h.r.Count("call_errors", 1)
		}
	}
	h.srv = srv
	h.r.Count("api_store_moves_to_a_new_server", 1)
	silent := 0
	for _, w := range h.insts {
		w.count = map[string]int32{}
		if w.live {
			_ = h.srv.Limiter.Heartbeat(w.id)
			continue
		}
		silent++
		w.expired, w.neverSeen = true, true
		if len(w.quota) > 0 {
			h.r.Count("silent_instances_with_conditions_at_a_move", 1)
		}
	}
	h.logf("all shards move to the new server %s (loads the conditions from the API); %d silent instance(s) never heartbeat to it", next, silent)
}

// arm lets the API refuse the next one or two condition deletes (API-backed store, 15 % of the passes, never while the history
// is being closed); disarm stops that and tells how many deletes were refused since arm.
func (h *history) arm() int32 {
	hits := atomic.LoadInt32(&h.faultHits)
	if h.k8s && !h.noFaults && h.g.Chance(0.25) {
		atomic.StoreInt32(&h.faultArm, int32(h.g.Range(1, 2)))
	}
	return hits
}

func (h *history) disarm(hits0 int32) int32 {
	atomic.StoreInt32(&h.faultArm, 0)
	return atomic.LoadInt32(&h.faultHits) - hits0
}

// apiLeftovers: with the API-backed store, the condition objects of the instance that are still in the API.
func (h *history) apiLeftovers(id string) []string {
	if !h.k8s {
		return nil
	}
	l, err := h.api.ProxyV1alpha1().RateLimitConditions().List(context.Background(), metav1.ListOptions{})
	if err != nil {
		return nil
	}
	var out []string
	for _, c := range l.Items {
		if c.Spec.Instance == id {
			out = append(out, c.Name)
		}
	}
	return out
}

// removeAndRecreateUpstream: an upstream cluster is deleted (with everything recorded for it), the cleanup passes run, and the
// cluster comes back under the same name: it starts empty, and the live instances' state for the OTHER upstreams is untouched
// (the passes check that).
func (h *history) removeAndRecreateUpstream() {
	if len(h.ups) < 2 {
		return
	}
	k := h.g.Intn(len(h.ups))
	up := h.ups[k]
	o, ok := h.srv.Upstream.Get(up)
	if !ok {
		return
	}
	if err := h.srv.DeleteUpstream(up); err != nil {
		h.r.Count("call_errors", 1)
	}
	h.ups = append(h.ups[:k:k], h.ups[k+1:]...)
	for _, w := range h.insts {
		delete(w.quota, up)
		delete(w.reports, up)
		for _, key := range h.cnts[up] {
			delete(w.count, key)
		}
	}
	h.logf("upstream %s deleted", up)
	h.r.Count("upstreams_deleted_and_recreated", 1)
	h.passTimeout()
	if !h.dead {
		h.passUnknown()
	}
	if h.dead {
		return
	}
	if err := h.srv.ApplyUpstream(o); err != nil {
		h.r.Count("call_errors", 1)
	}
	h.ups = append(h.ups, up)
	s := h.snap()
	for id, m := range s.cond {
		if _, ok := m[up]; ok {
			h.violate("C18/upstream-recreated/condition-survived", fmt.Sprintf("upstream %s was deleted and created again; a condition of instance %s recorded before the deletion is on record again", up, id))
			return
		}
	}
	for id, m := range s.count {
		for _, key := range h.cnts[up] {
			if c := m[key]; c != 0 {
				h.violate("C18/upstream-recreated/count-survived", fmt.Sprintf("upstream %s was deleted and created again; instance %s is listed with %d in flight on %s from before the deletion", up, id, c, key))
				return
			}
		}
	}
	h.logf("upstream %s created again (empty)", up)
}

// ---- operations

// identity: plain gw-N, or (realIDs histories) what gateways really look like: ip:port and IPv6 prefixes, dots, dashes, upper
// case; and pairs of DIFFERENT instances whose identities only differ by ':' vs '-' (the replacement the condition names
// use). util.GenerateRateLimitConditionName maps both of such a pair to ONE condition name, so the second of a pair only
// acquires (in-flight state is keyed by the raw identity) and does not send allocate reports - two instances overwriting
// each other's condition is not what this check is about.
func (h *history) identity() (id string, acquireOnly bool) {
	n := h.nextID
	h.nextID++
	if !h.realIDs {
		return fmt.Sprintf("gw-%d", n), false
	}
	if h.twin != "" {
		id, h.twin = h.twin, ""
		h.r.Count("identity_pairs_differing_by_colon_vs_dash", 1)
		return id, true
	}
	switch h.g.Intn(10) {
	case 8:
		h.r.Count("instances_with_identity_longer_than_63", 1)
		return fmt.Sprintf("%s-%d", strings.Repeat("very-long-prefix.", 5), n), false // > 63 characters: not a label value either
	case 9:
		return fmt.Sprintf("gw-é中-%d", n), false
	case 0:
		return fmt.Sprintf("10.0.%d.7:6443-ab%d", n, n), false
	case 1:
		return fmt.Sprintf("[::1]:6443-x%d", n), false
	case 2:
		return fmt.Sprintf("[fd00::%x]:6443-k8s", n+10), false
	case 3:
		return fmt.Sprintf("GW-Node.%d.Example", n), false
	case 4:
		return fmt.Sprintf("gw.%d-a_b", n), false
	case 5, 6:
		h.twin = fmt.Sprintf("node-%d-6443-r", n) // the next instance to join is its twin under ':' -> '-'
		return fmt.Sprintf("node-%d:6443-r", n), false
	}
	return fmt.Sprintf("gw-%d", n), false
}

func (h *history) join() *inst {
	id, acquireOnly := h.identity()
	w := &inst{id: id, acquireOnly: acquireOnly, live: true, quota: map[string]int32{}, reports: map[string]int{}, count: map[string]int32{}}
	if strings.Contains(id, ":") {
		h.r.Count("instances_with_colon_in_identity", 1)
	}
	_ = h.srv.Limiter.Heartbeat(w.id)
	h.insts = append(h.insts, w)
	h.logf("join %s", w.id)
	return w
}

func (h *history) report(w *inst, up string) {
	if w.acquireOnly {
		key := h.cnts[up][h.g.Intn(len(h.cnts[up]))]
		h.acquire(w, key, int32(h.g.Range(0, int(h.countMax[key])/2+1)))
		return
	}
	h.reportU(w, up, h.g.Float())
}

// reportU is report with the random choice made by the caller (so that it can run in a goroutine of its own).
func (h *history) reportU(w *inst, up string, frac float64) {
	cond := &proxyv1alpha1.RateLimitCondition{
		ObjectMeta: metav1.ObjectMeta{Name: util.GenerateRateLimitConditionName(up, w.id)},
		Spec:       proxyv1alpha1.RateLimitSpec{UpstreamCluster: up, Instance: w.id},
	}
	cfg := proxyv1alpha1.RateLimitItemConfiguration{Name: allocSchema, Strategy: proxyv1alpha1.GlobalAllocateLimit}
	st := proxyv1alpha1.RateLimitItemStatus{Name: allocSchema}
	used := int32(0)
	if q, ok := w.quota[up]; ok && q > 0 {
		cfg.MaxRequestsInflight = &proxyv1alpha1.MaxRequestsInflightFlowControlSchema{Max: q}
		used = int32(frac * float64(q))
		st.RequestLevel = int32(float64(used) / float64(q) * 100)
	}
	st.MaxRequestsInflight = &proxyv1alpha1.MaxRequestsInflightFlowControlSchema{Max: used}
	cond.Spec.LimitItemConfigurations = []proxyv1alpha1.RateLimitItemConfiguration{cfg}
	cond.Status.LimitItemStatuses = []proxyv1alpha1.RateLimitItemStatus{st}
	var ans *proxyv1alpha1.RateLimitCondition
	var err error
	if p := vkit.Safely(func() { ans, err = h.srv.Limiter.UpdateRateLimitConditionStatus(up, cond) }); p != nil || err != nil || ans == nil {
		h.r.Count("call_errors", 1)
		h.logf("report %s %s failed: %v %v", w.id, up, p, err)
		return
	}
	for _, it := range ans.Spec.LimitItemConfigurations {
		if it.Name == allocSchema && it.MaxRequestsInflight != nil {
			w.quota[up] = it.MaxRequestsInflight.Max
		}
	}
	w.reports[up]++
	h.r.Count("reports", 1)
	if h.foreignName(up, w.id) {
		h.r.Count("reports_whose_condition_name_hashes_to_a_shard_not_led", 1)
	}
	h.logf("report %s %s used=%d -> quota %d", w.id, up, used, w.quota[up])
}

func (h *history) acquire(w *inst, key string, n int32) (applied bool) {
	up := keyUp(key)
	w.reqID++
	req := &proxyv1alpha1.RateLimitAcquire{ObjectMeta: metav1.ObjectMeta{Name: up},
		Spec: proxyv1alpha1.RateLimitAcquireSpec{Instance: w.id, RequestID: w.reqID,
			Requests: []proxyv1alpha1.RateLimitAcquireRequest{{FlowControl: keySchema(key), Tokens: n}}}}
	var res *proxyv1alpha1.RateLimitAcquire
	var err error
	if p := vkit.Safely(func() { res, err = h.srv.Limiter.DoAcquire(up, req) }); p != nil || err != nil || res == nil || len(res.Status.Results) != 1 || res.Status.Results[0].Error != "" {
		h.r.Count("call_errors", 1)
		h.logf("acquire %s %s %d failed: %v %v", w.id, key, n, p, err)
		return false
	}
	rs := res.Status.Results[0]
	w.count[key] = rs.Limit // the count on record after the call (asked when applied, previous when refused)
	h.r.Count("acquires", 1)
	h.logf("acquire %s %s count=%d -> accept=%v on record %d", w.id, key, n, rs.Accept, rs.Limit)
	return rs.Limit == n
}

func (h *history) silence(w *inst) {
	w.live = false
	if h.realtime {
		w.silentAt = time.Now()
		h.logf("silent %s (really: no more heartbeats)", w.id)
		return
	}
	h.srv.Handle.SetHeartbeat(w.id, time.Now().Add(-4*time.Second))
	h.logf("silent %s (last heartbeat set 4 s back)", w.id)
}

func (h *history) comeBack(w *inst) {
	w.live, w.expired, w.neverSeen = true, false, false
	_ = h.srv.Limiter.Heartbeat(w.id)
	h.r.Count("returns_same_identity", 1)
	// what the server still has on record for it is the starting point of its new life (a pass may have removed part of it)
	s := h.snap()
	for _, up := range h.ups {
		if q, ok := s.cond[w.id][up]; ok {
			w.quota[up] = q
		} else {
			delete(w.quota, up)
			delete(w.reports, up)
		}
		for _, key := range h.cnts[up] {
			w.count[key] = int32(s.count[w.id][key])
		}
	}
	h.logf("back %s (same identity); on record: conditions %v counts %v", w.id, s.cond[w.id], s.count[w.id])
}

func (h *history) heartbeatLive() {
	for _, w := range h.insts {
		if w.live {
			_ = h.srv.Limiter.Heartbeat(w.id)
		}
	}
}

// checkLive: the recorded state of every live instance is what it was before the pass.
func (h *history) checkLive(pass string, before, after snapshot, busy map[string]*touched) {
	for _, w := range h.insts {
		if !w.live {
			continue
		}
		if t := busy[w.id]; t != nil {
			// the instance reported / acquired WHILE the pass ran: what it was last answered is what must be on record
			h.r.Count("live_checks_of_instances_with_traffic_during_the_pass", 1)
			for up := range t.ups {
				if got, ok := after.cond[w.id][up]; !ok || got != w.quota[up] {
					h.violate("C18/live-instance/condition-removed/"+pass+"/traffic-during-pass",
						fmt.Sprintf("instance %s heartbeats and reported to %s while the %s pass ran (answered quota %d); after the pass the record is %v (present=%v)", w.id, up, pass, w.quota[up], got, ok))
					return
				}
			}
			for key := range t.keys {
				if got, ok := after.count[w.id][key]; (!ok && w.count[key] != 0) || (ok && got != int64(w.count[key])) {
					h.violate("C18/live-instance/count-removed/"+pass+"/traffic-during-pass",
						fmt.Sprintf("instance %s heartbeats and reported %d in flight on %s while the %s pass ran; after the pass it is %d (present=%v)", w.id, w.count[key], key, pass, got, ok))
					return
				}
			}
			continue
		}
		if len(before.cond[w.id]) > 0 || len(before.count[w.id]) > 0 {
			h.r.Count("live_checks_with_state", 1)
		}
		for up, q := range before.cond[w.id] {
			if got, ok := after.cond[w.id][up]; !ok || got != q {
				h.violate("C18/live-instance/condition-removed/"+pass,
					fmt.Sprintf("instance %s heartbeats (fresh at every pass) and had quota %d on record for %s; after the %s pass the record is %v (present=%v)", w.id, q, up, pass, got, ok))
				return
			}
		}
		for up, c := range before.count[w.id] {
			if got, ok := after.count[w.id][up]; (!ok && c != 0) || (ok && got != c) {
				h.violate("C18/live-instance/count-removed/"+pass,
					fmt.Sprintf("instance %s heartbeats (fresh at every pass) and had an in-flight count of %d for %s; after the %s pass it is %d (present=%v)", w.id, c, up, pass, got, ok))
				return
			}
		}
	}
}

// passTimeout runs cleanupTimeoutClient and awaits what its goroutine does for the instances that just expired.
func (h *history) passTimeout() {
	if h.realtime {
		// let every silent instance's last heartbeat become older than the 3 s timeout (its last heartbeat is not later
		// than silentAt, and Sleep sleeps at least as long as asked: the instance IS expired afterwards, no timing verdict)
		for _, w := range h.insts {
			if !w.live && !w.expired {
				if rest := 3200*time.Millisecond - time.Since(w.silentAt); rest > 0 {
					time.Sleep(rest)
					h.r.Count("realtime_silences_slept", 1)
				}
			}
		}
	}
	h.heartbeatLive()
	before := h.snap()
	var expiring []*inst
	for _, w := range h.insts {
		if !w.live && !w.expired {
			expiring = append(expiring, w)
		}
	}
	hitsT := h.arm()
	busy := h.withTraffic(func() { h.srv.Handle.CleanupTimeoutClient() })
	h.r.Count("timeout_passes", 1)
	// the deletion goroutine has nothing to wait for; poll for its effects (labelled conditions and counts of the expiring
	// instances gone). A watchdog expiry is not a verdict here: what is still there after BOTH kinds of pass is judged.
	d := 3 * time.Second
	if atomic.LoadInt32(&watchdogFired) > 0 {
		d = 100 * time.Millisecond // one slow wait per run is enough; do not multiply it by the number of histories
	}
	// First: no deletion goroutine of ANY timeout pass is left in the process (they are anonymous, so they are found by
	// their function name in the goroutine dump). Without this a goroutine that is scheduled late would remove, by name, the
	// fresh condition of an instance that has meanwhile come back and reported - a window of microseconds that the
	// property (quantified over histories, not schedules) does not speak about.
	if !vkit.WaitFor(30*time.Second, noCleanupGoroutine) {
		h.dead = true
		h.r.Inconclusive("a cleanupTimeoutClient goroutine was still present 30 s after the pass")
		return
	}
	nT := h.disarm(hitsT) // the pass and its goroutine are over
	if nT == 0 {
		ok := vkit.WaitFor(d, func() bool {
			s := h.snap()
			for _, w := range expiring {
				if len(s.count[w.id]) > 0 || h.labelled(w.id) {
					return false
				}
			}
			return true
		})
		if !ok {
			atomic.AddInt32(&watchdogFired, 1)
			h.r.Count("timeout_pass_effects_not_seen_within_watchdog", 1)
		}
	}
	for _, w := range expiring {
		w.expired = true
	}
	if nT > 0 {
		h.r.Count("timeout_passes_with_refused_api_deletes", 1)
		h.logf("  the API refused %d condition delete(s) of the timeout pass", nT)
	}
	h.logf("timeout pass (expired now: %d)", len(expiring))
	pass := "timeout"
	for _, w := range expiring {
		if len(validation.IsValidLabelValue(w.id)) > 0 {
			// the identity of an instance found dead by this pass cannot be a label value (':' of ip:port, '[' of IPv6, ...)
			pass = "timeout/dead-identity-not-a-label-value"
			h.r.Count("timeout_passes_expiring_an_identity_that_is_not_a_label_value", 1)
			break
		}
	}
	h.checkLive(pass, before, h.snap(), busy)
}

// passUnknown runs cleanupUnknownCondition (synchronous) and judges the instances that are dead by now.
func (h *history) passUnknown() {
	h.heartbeatLive()
	before := h.snap()
	hits0 := h.arm()
	busy := h.withTraffic(func() { h.srv.Handle.CleanupUnknownCondition() })
	faulted := h.disarm(hits0)
	h.r.Count("unknown_passes", 1)
	after := h.snap()
	h.logf("unknown-condition pass")
	if got := h.srv.Handle.Shards(); len(got) != len(h.led) {
		h.violate("C18/shards/store-set-changed-by-cleanup", fmt.Sprintf("the server leads shards %v but has stores for shards %v after the cleanup passes", h.led, got))
		return
	}
	h.checkLive("unknown-condition", before, after, busy)
	if h.dead {
		return
	}
	if after.bad != "" {
		h.violate("C18/dead-instance/total-not-exact", "after the cleanup passes "+after.bad)
		return
	}
	if faulted > 0 {
		// The API refused deletes during this pass: what it could not delete is retried by the next unknown-condition pass. The
		// dead instances are judged after a pass the API did not disturb ("within the cleanup period" counts working passes).
		h.r.Count("unknown_passes_with_refused_api_deletes", 1)
		h.logf("  the API refused %d condition delete(s) during the pass; the dead instances are judged after the next undisturbed pass", faulted)
		return
	}
	var reclaimed []*inst
	keep := h.insts[:0]
	liveWithState := false
	for _, w := range h.insts {
		if w.live && (len(before.cond[w.id]) > 0 || len(before.count[w.id]) > 0) {
			liveWithState = true
		}
	}
	for _, w := range h.insts {
		if w.live || !w.expired {
			keep = append(keep, w)
			continue
		}
		// dead: silent through a timeout pass and this later unknown-condition pass
		hadCond, hadCount, firstOnly := false, false, false
		for up := range w.quota {
			hadCond = true
			if w.reports[up] == 1 {
				firstOnly = true
			}
		}
		for _, c := range w.count {
			if c > 0 {
				hadCount = true
			}
		}
		if hadCond {
			h.r.Count("reclaimed_with_conditions", 1)
		}
		if hadCount {
			h.r.Count("reclaimed_with_counts", 1)
		}
		if firstOnly {
			h.r.Count("reclaimed_first_report_only", 1)
		}
		if (hadCond || hadCount) && liveWithState {
			h.nontrivial = true
		}
		if m := after.cond[w.id]; len(m) > 0 {
			cls := "labelled"
			if firstOnly {
				cls = "first-report-only"
			}
			if w.neverSeen {
				cls = "loaded-by-a-new-leader-that-never-heard-from-it"
			}
			note := ""
			for up := range m {
				if h.foreignName(up, w.id) {
					cls = "name-hashes-to-shard-led-elsewhere"
					note = fmt.Sprintf("; this server leads shards %v of %d, upstream %s is of shard %d (led here) while the condition name %s hashes to shard %d (led by other-server)", h.led, h.srv.Shards,
						up, util.GetShardID(up, h.srv.Shards), util.GenerateRateLimitConditionName(up, w.id), util.GetShardID(util.GenerateRateLimitConditionName(up, w.id), h.srv.Shards))
					break
				}
			}
			h.violate("C18/dead-instance/condition-kept/"+cls,
				fmt.Sprintf("instance %s stayed silent through a timeout pass and a later unknown-condition pass, its allocate condition(s) are still on record: %v%s", w.id, m, note))
			return
		}
		for up, c := range after.count[w.id] {
			withCond := "acquire-only"
			if hadCond {
				withCond = "also-reporting"
			}
			h.violate("C18/dead-instance/count-kept/"+withCond,
				fmt.Sprintf("instance %s stayed silent through a timeout pass and a later unknown-condition pass, the max-in-flight flow control %s still lists it with count %d (the upstream also has %d globalCount token-bucket schemas)", w.id, up, c, h.tbs[keyUp(up)]))
			return
		}
		for up := range w.quota {
			if h.foreignName(up, w.id) {
				h.r.Count("reclaimed_conditions_whose_name_hashes_to_a_shard_not_led", 1)
			}
		}
		if left := h.apiLeftovers(w.id); len(left) > 0 {
			h.violate("C18/dead-instance/condition-kept/in-the-api", fmt.Sprintf("instance %s is dead and gone from the server's store, but the API-backed store left its condition object(s) %v in the API (they are loaded again by the next leader of the shard)", w.id, left))
			return
		}
		if h.k8s {
			h.r.Count("reclaimed_checked_in_the_api", 1)
		}
		if w.neverSeen {
			h.r.Count("reclaimed_on_a_server_that_never_heard_from_the_instance", 1)
		}
		h.r.Count("reclaimed", 1)
		h.logf("  %s is dead and fully reclaimed", w.id)
		reclaimed = append(reclaimed, w)
	}
	h.insts = keep
	if len(reclaimed) > 0 {
		h.freedCapacity()
	}
}

// freedCapacity: the capacity of the reclaimed instances is available to the remaining ones.
func (h *history) freedCapacity() {
	// count strategy: one survivor asks for everything that is not held by the other KNOWN instances; nothing races here, so
	// the ask fits and must be put on record (it would be refused if a dead instance's count were still in the total)
	var live []*inst
	for _, w := range h.insts {
		if w.live {
			live = append(live, w)
		}
	}
	if len(live) == 0 {
		return
	}
	w := live[h.g.Intn(len(live))]
	up := h.ups[h.g.Intn(len(h.ups))]
	_ = h.srv.Limiter.Heartbeat(w.id)
	for _, key := range h.cnts[up] {
		var others int64
		for _, o := range h.insts { // silent-but-not-yet-dead instances legitimately still hold their counts
			if o != w {
				others += int64(o.count[key])
			}
		}
		free := int64(h.countMax[key]) - others
		if free > int64(w.count[key]) {
			prev := w.count[key]
			h.r.Count("freed_capacity_probes", 1)
			if !h.acquire(w, key, int32(free)) {
				h.violate("C18/freed-capacity/count-not-available",
					fmt.Sprintf("after the dead instances were reclaimed the known instances hold %d of %d on %s, yet %s asking for the remaining %d was refused (on record: %d)", others+int64(prev), h.countMax[key], key, w.id, free, w.count[key]))
				return
			}
			h.acquire(w, key, prev)
		}
	}
	// allocate strategy: once every remaining instance has reported again the recorded allocated sum is the sum of THEIR quotas
	for _, o := range h.insts {
		if _, ok := o.quota[up]; ok && o.live {
			h.report(o, up)
		}
	}
	s := h.snap()
	var sum int64
	reported := false
	for _, o := range h.insts {
		if _, ok := o.quota[up]; ok && o.live {
			reported = true
		}
	}
	for _, m := range s.cond { // conditions of dead instances are gone (checked above); what is on record belongs to the others
		sum += int64(m[up])
	}
	if reported && s.state[up] != sum {
		h.violate("C18/freed-capacity/allocated-sum-stale",
			fmt.Sprintf("after the dead instances were reclaimed and every live instance reported again, %s.state records an allocated sum of %d; the remaining instances hold %d", up, s.state[up], sum))
	}
}

func (h *history) run() {
	n0 := h.g.Range(2, 5)
	for k := 0; k < n0; k++ {
		h.join()
	}
	nOps := h.g.Range(20, 45)
	if h.realtime {
		nOps = h.g.Range(12, 20)
	}
	for op := 0; op < nOps && !h.dead; op++ {
		var live, silent []*inst
		for _, w := range h.insts {
			if w.live {
				live = append(live, w)
			} else {
				silent = append(silent, w)
			}
		}
		up := h.ups[h.g.Intn(len(h.ups))]
		switch x := h.g.Intn(100); {
		case x < 30 && len(live) > 0:
			h.report(live[h.g.Intn(len(live))], up)
		case x < 52 && len(live) > 0:
			w := live[h.g.Intn(len(live))]
			key := h.cnts[up][h.g.Intn(len(h.cnts[up]))]
			h.acquire(w, key, int32(h.g.Range(0, int(h.countMax[key])/2+1)))
		case x < 64 && len(live) > 0:
			h.silence(live[h.g.Intn(len(live))])
		case x < 76:
			h.passTimeout()
		case x < 86:
			h.passUnknown()
		case x < 89 && h.k8s:
			h.moveToNewServer()
		case x < 91 && len(silent) > 0:
			h.comeBack(silent[h.g.Intn(len(silent))])
		case x < 93 && len(h.ups) > 1 && !h.realtime:
			h.removeAndRecreateUpstream()
		case x < 96 && len(h.insts) < 7:
			w := h.join()
			if len(h.trace) > 0 && h.g.Bool() {
				h.r.Count("returns_new_identity", 1) // a restarted gateway: fresh identity
				h.logf("  (%s is a restarted gateway with a new identity)", w.id)
			}
		default:
			if len(live) > 0 {
				w := live[h.g.Intn(len(live))]
				h.report(w, up)
				h.report(w, up)
			}
		}
	}
	// close the history: everything silent goes through both kinds of pass
	h.noFaults = true
	if !h.dead {
		h.passTimeout()
	}
	if !h.dead {
		h.passUnknown()
	}
	if !h.dead && h.k8s {
		// the shard changes hands and comes back: the new store loads what the API holds - nothing of a reclaimed instance
		known := map[string]bool{}
		for _, w := range h.insts {
			known[w.id] = true
		}
		for sh := range h.led {
			h.srv.Elector.Lose(sh, "")
			h.srv.Elector.Gain(sh)
		}
		h.r.Count("api_store_leader_restarts", 1)
		s := h.snap()
		for id := range s.cond {
			if !known[id] && id != "" {
				h.violate("C18/dead-instance/condition-kept/reloaded-after-leader-restart", fmt.Sprintf("after the shard changed hands and came back, the store loaded from the API holds a condition of instance %s, which had been reclaimed", id))
				return
			}
		}
		h.logf("leadership lost and regained; the store re-loaded from the API holds no reclaimed instance")
	}
}

// returnDuringCleanup: an instance that was found dead comes back with its old identity WHILE the goroutine of the timeout
// pass is still releasing its state (the heartbeat is sent right after CleanupTimeoutClient() returns; the instance holds
// labelled conditions and counts on several upstreams so that the goroutine has work to do). Whether the overlap really
// happened is read off the goroutine count / dump taken AFTER the heartbeat (goroutine still there => the heartbeat preceded
// its end) and counted. The attempts run one at a time, after all other histories, so the dump is unambiguous.
//
// What is judged is only what must hold however the two interleave (the line drawn for the window itself is in the comment
// on noCleanupGoroutine's use in passTimeout): from its return on the instance "keeps sending heartbeats", so
//   - its heartbeat record (time >= the return) is still there once the goroutine has finished, and
//   - what it reports AFTER the goroutine has finished survives an unknown-condition pass (no further heartbeat is sent in
//     between; the one from its return is microseconds old).
//
// State the instance reports while the goroutine is still running is not judged: the server is in the middle of reclaiming
// that identity (first sentence of the statement) and cannot tell the two apart.
func returnDuringCleanup(r *vkit.R) {
	n := r.N(250, 2500)
	r.Parallel(n, 1, func(i int, g *vkit.Rand) {
		if !vkit.WaitFor(30*time.Second, noCleanupGoroutine) {
			r.Inconclusive("a cleanupTimeoutClient goroutine of an earlier history never finished")
			return
		}
		h := &history{r: r, g: g, allocMax: map[string]int32{}, countMax: map[string]int32{}, cnts: map[string][]string{}, tbs: map[string]int{}}
		h.srv = bed.NewLimiterServer(bed.LimiterOptions{LeadAll: true, Shards: 1 + i%3})
		nu := g.Range(8, 16)
		for u := 0; u < nu; u++ {
			name := fmt.Sprintf("ov%d-%d", i, u)
			h.ups = append(h.ups, name)
			h.allocMax[name] = 1000
			c := &proxyv1alpha1.UpstreamCluster{ObjectMeta: metav1.ObjectMeta{Name: name}}
			c.Spec.FlowControl.Schemas = []proxyv1alpha1.FlowControlSchema{
				{Name: allocSchema, Strategy: proxyv1alpha1.GlobalAllocateLimit, FlowControlSchemaConfiguration: proxyv1alpha1.FlowControlSchemaConfiguration{
					GlobalMaxRequestsInflight: &proxyv1alpha1.MaxRequestsInflightFlowControlSchema{Max: 1000}}},
			}
			for k := 0; k < 2; k++ {
				key := fmt.Sprintf("%s/cnt%d", name, k)
				h.cnts[name] = append(h.cnts[name], key)
				h.countMax[key] = 50
				c.Spec.FlowControl.Schemas = append(c.Spec.FlowControl.Schemas, proxyv1alpha1.FlowControlSchema{Name: keySchema(key), Strategy: proxyv1alpha1.GlobalCountLimit,
					FlowControlSchemaConfiguration: proxyv1alpha1.FlowControlSchemaConfiguration{GlobalMaxRequestsInflight: &proxyv1alpha1.MaxRequestsInflightFlowControlSchema{Max: 50}}})
			}
			if err := h.srv.ApplyUpstream(c); err != nil {
				r.Inconclusive("ApplyUpstream failed: " + err.Error())
				return
			}
		}
		h.logf("server with %d shard(s); upstreams %v (alloc 1000, two globalCount max-in-flight schemas of 50 each)", h.srv.Shards, h.ups)
		a, b := h.join(), h.join()
		for _, w := range []*inst{a, b} {
			for _, up := range h.ups {
				h.report(w, up)
				h.report(w, up) // the second report carries the instance label the timeout pass selects by
				for _, key := range h.cnts[up] {
					h.acquire(w, key, int32(g.Range(1, 10)))
				}
			}
		}
		h.silence(a)
		_ = h.srv.Limiter.Heartbeat(b.id)
		// Nothing else starts or ends goroutines in this phase (one attempt at a time, no clean-up goroutine left, see above), so
		// "more goroutines than just before the pass" right after the heartbeat means the pass's goroutine has not ended yet;
		// the (slower) goroutine dump confirms it by name when it is still there a little later.
		n0 := runtime.NumGoroutine()
		h.srv.Handle.CleanupTimeoutClient()
		t1 := time.Now()
		_ = h.srv.Limiter.Heartbeat(a.id) // gw comes back, old identity
		overlapped := runtime.NumGoroutine() > n0
		if overlapped && !noCleanupGoroutine() {
			r.Count("return_overlaps_confirmed_by_goroutine_dump", 1)
		}
		h.logf("timeout pass; %s heartbeats again right after it returned (clean-up goroutine still running: %v)", a.id, overlapped)
		r.Count("return_attempts", 1)
		if overlapped {
			r.Count("return_overlaps_achieved", 1)
		}
		if !vkit.WaitFor(30*time.Second, noCleanupGoroutine) {
			r.Inconclusive("a cleanupTimeoutClient goroutine was still present 30 s after the pass")
			return
		}
		r.Eval(1)
		cls := "overlap-not-observed"
		if overlapped {
			cls = "returned-during-cleanup"
		}
		hb, ok := h.srv.Handle.Heartbeats()[a.id]
		if !ok || hb.Before(t1) {
			h.violate("C18/live-instance/heartbeat-forgotten/"+cls,
				fmt.Sprintf("instance %s was found dead by a timeout pass and sent a heartbeat again right after the pass returned; once the pass's goroutine had finished, the server's heartbeat record for it is present=%v (time before the return: %v) - the instance keeps heartbeating but is no longer known as a client", a.id, ok, ok && hb.Before(t1)))
		}
		// a new life: what it reports from now on is the recorded state of an instance that keeps sending heartbeats
		a.live, a.expired = true, false
		a.quota, a.reports, a.count = map[string]int32{}, map[string]int{}, map[string]int32{}
		for _, up := range h.ups {
			h.report(a, up)
			if g.Bool() {
				h.report(a, up)
			}
			h.acquire(a, h.cnts[up][g.Intn(2)], int32(g.Range(1, 10)))
		}
		before := h.snap()
		h.srv.Handle.CleanupUnknownCondition() // deliberately no heartbeat in between: the one from the return is fresh
		after := h.snap()
		h.logf("unknown-condition pass (no further heartbeat; the last one of %s is %v old)", a.id, time.Since(t1))
		for up, q := range before.cond[a.id] {
			if got, ok := after.cond[a.id][up]; !ok || got != q {
				h.violate("C18/live-instance/condition-removed/"+cls,
					fmt.Sprintf("instance %s came back (heartbeat %v ago) and, after the clean-up of its dead period had finished, reported to %s (quota %d); the unknown-condition pass removed that condition (present=%v)", a.id, time.Since(t1), up, q, ok))
				break
			}
		}
		for key, c := range before.count[a.id] {
			if got, ok := after.count[a.id][key]; c != 0 && (!ok || got != c) {
				h.violate("C18/live-instance/count-removed/"+cls,
					fmt.Sprintf("instance %s came back (heartbeat %v ago) and, after the clean-up of its dead period had finished, reported %d in flight on %s; the unknown-condition pass removed that count (present=%v)", a.id, time.Since(t1), c, key, ok))
				break
			}
		}
		// the bystander never lapsed
		for up, q := range before.cond[b.id] {
			if got, ok := after.cond[b.id][up]; !ok || got != q {
				h.violate("C18/live-instance/condition-removed/bystander", fmt.Sprintf("instance %s never stopped heartbeating; its condition for %s (quota %d) is gone after the passes", b.id, up, q))
				break
			}
		}
		if i < 1 {
			r.Sample(map[string]interface{}{"kind": "return during clean-up", "trace_tail": h.trace[len(h.trace)-4:]})
		}
	})
}
