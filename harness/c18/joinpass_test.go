package c18

import (
	"fmt"

	"verifharness/vkit"
)

// joinDuringUnknownPass: "under any timing of the periodic cleanups" - a NEW instance joins (first heartbeat, then two
// reports and an acquire, as a gateway does) exactly inside the unknown-condition pass's window between its snapshot of the
// known clients and its listing of the stored conditions. The window is hit deterministically: the pass lists the upstream
// clusters in between, and the stub lister runs a one-shot callback inside that List() (bed.OnNextList). Judged with the
// unchanged live-instance oracle right after the pass: the instance heartbeated microseconds ago, so its condition, its quota
// and its in-flight counts must still be on record, and the allocated sum must still cover the conditions on record, its quota included.
func joinDuringUnknownPass(r *vkit.R) {
	n := r.N(300, 3000)
	phaseTag = "j"
	r.Parallel(n, 8, func(i int, g *vkit.Rand) {
		h := newHistory(r, g, 4*i) // i%4 != 3: leads all shards; every 5th on the API-backed store
		if h == nil {
			return
		}
		h.srv.Upstream.InstallListHook()
		// some life before: live instances with state, one of them silent and expired (so that the pass has work to do)
		for k, n0 := 0, g.Range(1, 3); k < n0; k++ {
			w := h.join()
			for _, up := range h.ups {
				h.report(w, up)
				h.report(w, up)
				h.acquire(w, h.cnts[up][g.Intn(len(h.cnts[up]))], int32(g.Range(1, 3)))
			}
		}
		if g.Bool() {
			d := h.join()
			h.report(d, h.ups[0])
			h.report(d, h.ups[0])
			h.silence(d)
			h.passTimeout()
			if h.dead {
				return
			}
		}
		var j *inst
		ups := append([]string(nil), h.ups...)
		picks := make([]int, len(ups))
		fracs := make([]float64, 2*len(ups))
		for k := range ups {
			picks[k] = g.Intn(len(h.cnts[ups[k]]))
			fracs[2*k], fracs[2*k+1] = g.Float(), g.Float()
		}
		ran := false
		h.srv.Upstream.OnNextList(func() {
			ran = true
			j = h.join() // first heartbeat
			h.logf("  ^ %s joins INSIDE the unknown-condition pass, after its snapshot of the known clients", j.id)
			for k, up := range ups {
				if j.acquireOnly { // second of an identity pair (see identity): no allocate reports
					h.acquire(j, h.cnts[up][picks[k]], int32(1+k))
					continue
				}
				h.reportU(j, up, fracs[2*k])
				h.reportU(j, up, fracs[2*k+1])
				h.acquire(j, h.cnts[up][picks[k]], int32(2+k))
			}
		})
		h.heartbeatLive()
		h.srv.Handle.CleanupUnknownCondition()
		h.srv.Upstream.OnNextList(nil)
		h.logf("unknown-condition pass")
		r.Eval(1)
		if !ran || j == nil {
			r.Count("join_during_pass_window_not_hit", 1)
			return
		}
		r.Count("joins_during_unknown_condition_pass", 1)
		s := h.snap()
		const cls = "joined-during-unknown-condition-pass"
		for _, up := range ups {
			if j.acquireOnly {
				break
			}
			got, ok := s.cond[j.id][up]
			if !ok || got != j.quota[up] {
				h.violate("C18/live-instance/condition-removed/"+cls,
					fmt.Sprintf("instance %s sent its first heartbeat and two reports to %s (answered quota %d) while the unknown-condition pass was between its client snapshot and its condition listing; right after the pass the record is %v (present=%v) although the instance is alive", j.id, up, j.quota[up], got, ok))
				return
			}
			var sum int64
			for _, m := range s.cond {
				sum += int64(m[up])
			}
			// the pass does not recompute the sum (it is stale-high after a dead instance was removed, which only makes the server
			// stricter); what must hold is that it is not LOWER than what is on record, the new instance's quota included
			if s.state[up] < sum {
				h.violate("C18/live-instance/allocated-sum-too-low/"+cls,
					fmt.Sprintf("after the pass %s.state records an allocated sum of %d, the conditions on record (incl. %s with %d) sum to %d", up, s.state[up], j.id, got, sum))
				return
			}
		}
		for key, c := range j.count {
			if got, ok := s.count[j.id][key]; c != 0 && (!ok || got != int64(c)) {
				h.violate("C18/live-instance/count-removed/"+cls,
					fmt.Sprintf("instance %s sent its first heartbeat and reported %d in flight on %s while the unknown-condition pass was between its client snapshot and its condition listing; right after the pass the count is %d (present=%v) although the instance is alive", j.id, c, key, got, ok))
				return
			}
		}
		if _, ok := h.srv.Handle.Heartbeats()[j.id]; !ok {
			h.violate("C18/live-instance/heartbeat-forgotten/"+cls, fmt.Sprintf("instance %s joined during the pass and is not on record as a client after it", j.id))
		}
	})
	r.Require(r.Counter("joins_during_unknown_condition_pass") >= int64(r.N(250, 2500)), "too few instances joined inside the unknown-condition pass's window")
}
