package c18

import (
	"fmt"
	"sync"
	"sync/atomic"
	"time"

	metav1 "k8s.io/apimachinery/pkg/apis/meta/v1"

	proxyv1alpha1 "github.com/kubewharf/kubegateway/pkg/apis/proxy/v1alpha1"
	"github.com/kubewharf/kubegateway/pkg/ratelimiter/util"

	"verifharness/bed"
	"verifharness/vkit"
)

// cleanupUnderLeadershipChurn: the two periodic cleanup passes ("under any timing of the periodic cleanups") run back to
// back while (a) leadership of shards is gained and lost, (b) new upstream clusters are registered and (c) instances keep
// reporting, heartbeating and going silent. On the unrepaired tree the cleanups ranged over the store map, and every report
// read the per-upstream lock map, without the lock the writers use: the server died with "fatal error: concurrent map
// iteration and map write" / "concurrent map read and map write" (first seen when a real 60-shard election started up
// next to the 30 s cleanup). A fatal error cannot be recovered: the driver reports it through ANCHOR_RE.
// What is judged besides the crash: a live instance (fresh heartbeat before every pass, reporting to an upstream of a
// shard that is never lost) keeps its condition through all the churn.
func cleanupUnderLeadershipChurn(r *vkit.R) {
	scen := r.N(4, 24)
	iters := r.N(400, 1500)
	const maxNew = 400 // new upstream names per scenario (every cleanup pass lists all of them)
	r.Parallel(scen, 4, func(i int, g *vkit.Rand) {
		const shards = 8
		srv := bed.NewLimiterServer(bed.LimiterOptions{Shards: shards, Identity: "srv"})
		// shard 0 is led for the whole scenario; shards 1..7 are churned
		srv.Elector.Gain(0)
		nameIn := func(shard int, tag string) string {
			for k := 0; ; k++ {
				n := fmt.Sprintf("%s-%d-%d.example", tag, i, k)
				if util.GetShardID(n, shards) == shard {
					return n
				}
			}
		}
		mk := func(name string) *proxyv1alpha1.UpstreamCluster {
			c := &proxyv1alpha1.UpstreamCluster{ObjectMeta: metav1.ObjectMeta{Name: name}}
			c.Spec.FlowControl.Schemas = []proxyv1alpha1.FlowControlSchema{{
				Name: "fs", Strategy: proxyv1alpha1.GlobalAllocateLimit,
				FlowControlSchemaConfiguration: proxyv1alpha1.FlowControlSchemaConfiguration{
					MaxRequestsInflight:       &proxyv1alpha1.MaxRequestsInflightFlowControlSchema{Max: 10},
					GlobalMaxRequestsInflight: &proxyv1alpha1.MaxRequestsInflightFlowControlSchema{Max: 1000},
				}}}
			return c
		}
		stable := nameIn(0, "stable")
		if err := srv.ApplyUpstream(mk(stable)); err != nil {
			r.Inconclusive("map stress: cannot register the stable upstream: " + err.Error())
			return
		}
		report := func(upstream, instance string, quota int32) error {
			cond := &proxyv1alpha1.RateLimitCondition{
				ObjectMeta: metav1.ObjectMeta{Name: util.GenerateRateLimitConditionName(upstream, instance)},
				Spec: proxyv1alpha1.RateLimitSpec{UpstreamCluster: upstream, Instance: instance,
					LimitItemConfigurations: []proxyv1alpha1.RateLimitItemConfiguration{{Name: "fs", Strategy: proxyv1alpha1.GlobalAllocateLimit,
						LimitItemDetail: proxyv1alpha1.LimitItemDetail{MaxRequestsInflight: &proxyv1alpha1.MaxRequestsInflightFlowControlSchema{Max: quota}}}}},
				Status: proxyv1alpha1.RateLimitStatus{LimitItemStatuses: []proxyv1alpha1.RateLimitItemStatus{{Name: "fs",
					LimitItemDetail: proxyv1alpha1.LimitItemDetail{MaxRequestsInflight: &proxyv1alpha1.MaxRequestsInflightFlowControlSchema{Max: quota / 2}}, RequestLevel: 50}}},
			}
			_, err := srv.Limiter.UpdateRateLimitConditionStatus(upstream, cond)
			return err
		}
		live := "live-gw"
		_ = srv.Limiter.Heartbeat(live)
		_ = report(stable, live, 0)
		_ = report(stable, live, 5)

		var stop int32
		var wg sync.WaitGroup
		var passes, leaderChanges, registrations, reports int64
		run := func(fn func(k int)) {
			wg.Add(1)
			go func() {
				defer wg.Done()
				for k := 0; atomic.LoadInt32(&stop) == 0; k++ {
					fn(k)
				}
			}()
		}
		// (a) leadership churn on shards 1..7
		run(func(k int) {
			s := 1 + k%(shards-1)
			if (k/(shards-1))%2 == 0 {
				srv.Elector.Gain(s)
			} else {
				srv.Elector.Lose(s, "other")
			}
			atomic.AddInt64(&leaderChanges, 1)
			time.Sleep(20 * time.Microsecond)
		})
		// (b) new upstreams keep being registered (cluster handler writes the per-upstream lock map)
		run(func(k int) {
			_ = srv.ApplyUpstream(mk(fmt.Sprintf("new-%d-%d.example", i, k%maxNew)))
			atomic.AddInt64(&registrations, 1)
			time.Sleep(50 * time.Microsecond)
		})
		// (c) the live instance and short-lived ones report; short-lived ones go silent
		run(func(k int) {
			_ = srv.Limiter.Heartbeat(live)
			_ = report(stable, live, 5)
			dead := fmt.Sprintf("dead-%d", k%50)
			_ = srv.Limiter.Heartbeat(dead)
			_ = report(stable, dead, 0)
			srv.Handle.SetHeartbeat(dead, time.Now().Add(-4*time.Second))
			atomic.AddInt64(&reports, 1)
			time.Sleep(20 * time.Microsecond)
		})
		// (d) the cleanup passes, back to back, on this goroutine
		// passes continue until every concurrent actor has done its share (bounded by maxPasses, a logical cap)
		const maxPasses = 400000
		enough := func() bool {
			return atomic.LoadInt64(&leaderChanges) >= int64(iters) && atomic.LoadInt64(&registrations) >= 2*maxNew && atomic.LoadInt64(&reports) >= int64(iters)
		}
		for n := 0; n < maxPasses && !enough(); n++ {
			_ = srv.Limiter.Heartbeat(live)
			srv.Handle.CleanupTimeoutClient()
			if n%4 == 0 {
				_ = srv.Limiter.Heartbeat(live)
				srv.Handle.CleanupUnknownCondition()
			}
			atomic.AddInt64(&passes, 1)
		}
		atomic.StoreInt32(&stop, 1)
		wg.Wait()
		vkit.WaitFor(30*time.Second, noCleanupGoroutine)
		_ = srv.Limiter.Heartbeat(live)
		if err := report(stable, live, 5); err != nil {
			violUnlessPremiseBroken(r, "C18/churn/live-instance-refused-on-led-shard", "after the churn the live instance's report to an upstream of the never-lost shard was refused: "+err.Error(), nil)
		}
		if st := srv.Handle.Store(0); st == nil {
			violUnlessPremiseBroken(r, "C18/churn/store-of-never-lost-shard-gone", "the store of shard 0, whose leadership never changed, is gone after cleanup passes raced with leadership changes of other shards", nil)
		} else if _, err := st.Get(stable, util.GenerateRateLimitConditionName(stable, live)); err != nil {
			violUnlessPremiseBroken(r, "C18/churn/live-instance-condition-removed", "the live instance (fresh heartbeat before every pass) lost its condition while cleanup passes raced with leadership changes / registrations: "+err.Error(), nil)
		}
		r.Eval(1)
		r.Count("churn_scenarios", 1)
		r.Count("churn_cleanup_passes", int(passes))
		r.Count("churn_leadership_changes_concurrent", int(leaderChanges))
		r.Count("churn_upstream_registrations_concurrent", int(registrations))
		r.Count("churn_reports_concurrent", int(reports))
	})
	r.Require(r.Counter("churn_leadership_changes_concurrent") >= int64(scen*iters) && r.Counter("churn_upstream_registrations_concurrent") >= int64(scen*maxNew) && r.Counter("churn_reports_concurrent") >= int64(scen*iters) && r.Counter("churn_cleanup_passes") >= int64(scen*100),
		"too little activity concurrent with the cleanup passes in the churn scenarios")
}

// violUnlessPremiseBroken: see history.violate.
func violUnlessPremiseBroken(r *vkit.R, sig, what string, witness interface{}) {
	if bed.PremiseBroken() {
		r.Count("reinit_premise_not_met", 1)
		return
	}
	r.Violation(sig, what, witness)
}
