package c15

import (
	"fmt"
	"net"
	"net/http"
	"net/http/httptest"
	"os"
	"sync"
	"sync/atomic"
	"syscall"
	"time"

	proxyv1alpha1 "github.com/kubewharf/kubegateway/pkg/apis/proxy/v1alpha1"

	"verifharness/bed"
	"verifharness/vkit"
)

// "Connecting" phase of a request's life: the TCP dial to the target is still pending when the removal happens.
// The target is a real listener with an accept backlog of 1 whose accept loop can be paused: once the harness has filled
// the backlog with a few connections of its own, further SYNs are dropped by the kernel and a dial hangs (this is what a
// frozen or overloaded API server looks like). Also covered here: a cluster whose server list becomes EMPTY.

func backlog1Listener() (net.Listener, error) {
	fd, err := syscall.Socket(syscall.AF_INET, syscall.SOCK_STREAM, 0)
	if err != nil {
		return nil, err
	}
	syscall.SetsockoptInt(fd, syscall.SOL_SOCKET, syscall.SO_REUSEADDR, 1) //nolint
	if err := syscall.Bind(fd, &syscall.SockaddrInet4{Port: 0, Addr: [4]byte{127, 0, 0, 1}}); err != nil {
		syscall.Close(fd)
		return nil, err
	}
	if err := syscall.Listen(fd, 1); err != nil {
		syscall.Close(fd)
		return nil, err
	}
	f := os.NewFile(uintptr(fd), "backlog1")
	defer f.Close()
	return net.FileListener(f)
}

type pausableListener struct {
	net.Listener
	paused int32
	closed int32
}

func (p *pausableListener) Accept() (net.Conn, error) {
	for atomic.LoadInt32(&p.paused) != 0 && atomic.LoadInt32(&p.closed) == 0 {
		time.Sleep(time.Millisecond)
	}
	return p.Listener.Accept()
}

type blackhole struct {
	srv *httptest.Server
	l   *pausableListener
	mu  sync.Mutex
	ids map[string]int
}

func newBlackhole() (*blackhole, error) {
	l, err := backlog1Listener()
	if err != nil {
		return nil, err
	}
	b := &blackhole{l: &pausableListener{Listener: l}, ids: map[string]int{}}
	b.srv = httptest.NewUnstartedServer(http.HandlerFunc(func(w http.ResponseWriter, r *http.Request) {
		if id := r.Header.Get(bed.IDHeader); id != "" {
			b.mu.Lock()
			b.ids[id]++
			b.mu.Unlock()
		}
		w.Write([]byte("ok")) //nolint
	}))
	b.srv.Listener.Close()
	b.srv.Listener = b.l
	b.srv.Config.ErrorLog = nil
	// no keep-alive: every request of the gateway (and every probe) needs a new connection
	b.srv.Config.SetKeepAlivesEnabled(false)
	b.srv.Start()
	return b, nil
}

func (b *blackhole) saw(id string) bool {
	b.mu.Lock()
	defer b.mu.Unlock()
	return b.ids[id] > 0
}

func (b *blackhole) close() {
	atomic.StoreInt32(&b.l.closed, 1)
	atomic.StoreInt32(&b.l.paused, 0)
	b.srv.CloseClientConnections()
	b.srv.Close()
}

func dialPendingScenario(r *vkit.R, id int, g *vkit.Rand) {
	bh, err := newBlackhole()
	if err != nil {
		r.Count("dial_pending_scenarios_without_a_backlog_listener", 1)
		return
	}
	defer bh.close()
	h := newHist(r, id, 1, 1, false)
	defer h.close()
	kind := []string{"endpoint-remove", "cluster-delete", "all-endpoints-removed"}[id%3]
	nameA, nameB := fmt.Sprintf("a%d.c15.test", id), fmt.Sprintf("b%d.c15.test", id)
	h.clusterNames = []string{nameA, nameB}
	e2, eb := h.aStubs[0], h.bStubs[0]
	bhPolicy := proxyv1alpha1.DispatchPolicy{Strategy: proxyv1alpha1.RoundRobin, UpstreamSubset: []string{bh.srv.URL}, Rules: userRule("a-bh")}
	objA := h.clusterObjectWithPolicies(nameA, "a", h.aStubs, []string{bh.srv.URL, h.stubs[e2].URL}, []proxyv1alpha1.DispatchPolicy{bhPolicy})
	objB := h.clusterObject(nameB, "b", h.bStubs)
	for _, o := range []*proxyv1alpha1.UpstreamCluster{objA, objB} {
		if sr := h.applyObj(o); sr.Err != nil || sr.Panic != nil || sr.Requeue {
			h.fail(fmt.Sprintf("controller did not apply a generated cluster: %+v", sr))
			return
		}
		if !h.waitAllReady(o, watchdog) {
			h.fail("endpoints did not become ready within the watchdog")
			return
		}
	}
	// the target serves while it accepts
	if status, _ := h.shortRequest(nameA, "a-bh", fmt.Sprintf("c15-%d-warm", id)); status != 200 || !bh.saw(fmt.Sprintf("c15-%d-warm", id)) {
		h.fail(fmt.Sprintf("warm-up request to the backlog-1 target got status %d", status))
		return
	}
	// long-running streams: to the other endpoint of A (control for an endpoint removal, target otherwise) and to B (control)
	sA := &stream{Cluster: nameA, User: fmt.Sprintf("a-e%d", e2), Stub: e2, Mode: "watch", Role: "same-cluster-other-endpoint", Phase: "streaming"}
	sB := &stream{Cluster: nameB, User: fmt.Sprintf("b-e%d", eb), Stub: eb, Mode: "follow", Role: "other-cluster", Phase: "streaming"}
	h.open(sA)
	h.open(sB)
	if !vkit.WaitFor(watchdog, func() bool { return h.established(sA) && h.established(sB) }) {
		h.fail("streams were not established within the watchdog")
		return
	}
	// freeze the target: stop accepting, fill the backlog until a dial of our own hangs
	atomic.StoreInt32(&bh.l.paused, 1)
	time.Sleep(3 * time.Millisecond)
	var fillers []net.Conn
	defer func() {
		for _, c := range fillers {
			c.Close()
		}
	}()
	hangs := false
	for i := 0; i < 64; i++ {
		c, err := net.DialTimeout("tcp", bh.l.Addr().String(), 250*time.Millisecond)
		if err != nil {
			hangs = true
			break
		}
		fillers = append(fillers, c)
	}
	if !hangs {
		r.Count("dial_pending_scenarios_where_dials_did_not_hang", 1)
		return
	}
	// requests for the frozen target: their dial is pending
	type pend struct {
		id     string
		done   int64
		status int
	}
	n := g.Range(1, 4)
	pends := make([]*pend, n)
	var wg sync.WaitGroup
	for i := range pends {
		p := &pend{id: fmt.Sprintf("c15-%d-dial%d", id, i)}
		pends[i] = p
		wg.Add(1)
		go func() {
			defer wg.Done()
			req := bed.NewRequest("GET", nameA, "/api/v1/namespaces/ns/pods/x", h.token("a-bh"), p.id, nil)
			req.URL.Host, req.URL.Scheme = h.gw.Addr(), "http"
			resp, err := h.client.Do(req)
			if err == nil {
				p.status = resp.StatusCode
				resp.Body.Close()
			}
			atomic.StoreInt64(&p.done, bed.Now())
		}()
	}
	time.Sleep(time.Duration(g.Range(20, 150)) * time.Millisecond)
	pending := 0
	for _, p := range pends {
		if atomic.LoadInt64(&p.done) == 0 && !bh.saw(p.id) {
			pending++
		}
	}
	// ---- the removal ----
	var sr bed.SyncResult
	switch kind {
	case "cluster-delete":
		sr = h.deleteCluster(nameA)
	case "all-endpoints-removed":
		sr = h.applyObj(h.clusterObjectWithPolicies(nameA, "a", h.aStubs, nil, []proxyv1alpha1.DispatchPolicy{bhPolicy}))
	default:
		sr = h.applyObj(h.clusterObjectWithPolicies(nameA, "a", h.aStubs, []string{h.stubs[e2].URL}, []proxyv1alpha1.DispatchPolicy{bhPolicy}))
	}
	tRemoved := bed.Now()
	if sr.Err != nil || sr.Panic != nil || sr.Requeue {
		h.fail(fmt.Sprintf("controller did not apply the removal (%s): %+v", kind, sr))
		return
	}
	r.Eval(1)
	r.Count("dial_pending_scenarios", 1)
	r.Count("dial_pending_"+kind, 1)
	r.Count("requests_with_the_dial_pending_at_removal", pending)
	r.Distinct(vkit.Hash64("dial", kind, fmt.Sprint(n, len(fillers))))
	wit := map[string]interface{}{"history": id, "removal": kind, "requests_for_the_frozen_target": n, "pending_at_removal": pending, "filler_connections": len(fillers)}
	// targets: the pending requests; for a deletion / an emptied list also the stream to the other endpoint
	var targets []*stream
	controls := []*stream{sB}
	if kind == "endpoint-remove" {
		controls = append(controls, sA)
	} else {
		targets = append(targets, sA)
	}
	allDone := func() bool {
		for _, p := range pends {
			if atomic.LoadInt64(&p.done) == 0 {
				return false
			}
		}
		for _, st := range targets {
			_, _, _, ended, _ := st.snap()
			up, seen := h.slog.get(st.ID)
			if ended == 0 || (seen && up.disc == 0) {
				return false
			}
		}
		return true
	}
	for deadline := tRemoved + int64(promptD); !allDone() && bed.Now() < deadline; {
		time.Sleep(200 * time.Microsecond)
	}
	// controls must still deliver data
	alive := true
	for _, st := range controls {
		_, mark, _, _, _ := st.snap()
		ok := vkit.WaitFor(10*time.Second, func() bool {
			_, c, _, ended, _ := st.snap()
			return c > mark || ended != 0
		})
		_, _, _, ended, endErr := st.snap()
		switch {
		case ended != 0:
			alive = false
			r.Violation("C15/"+kind+"/unaffected-stream-cut/"+st.Role,
				fmt.Sprintf("%s while requests for a frozen target were pending: an established stream on %s (user %s) that is not involved ended (client: %s)", kind, st.Cluster, st.User, endErr), wit)
		case !ok:
			alive = false
			h.fail("a control stream delivered no data for 10 s (environment too slow to judge promptness)")
		}
	}
	if h.bad {
		return
	}
	for _, p := range pends {
		if bh.saw(p.id) {
			r.Count("dial_pending_requests_that_reached_the_target_after_all", 1)
		}
		if atomic.LoadInt64(&p.done) == 0 && alive {
			r.Violation("C15/"+kind+"/in-flight-not-cancelled/dial-pending/client-left-hanging",
				fmt.Sprintf("%s: request %s for a target whose TCP dial was still pending (frozen listener, full backlog) was not ended %v after the removing sync returned, while %d control stream(s) kept delivering data", kind, p.id, promptD, len(controls)), wit)
		} else if d := atomic.LoadInt64(&p.done); d != 0 {
			r.Count("dial_pending_requests_ended", 1)
			if d-tRemoved < int64(time.Second) {
				// the gateway gives up a dial after 5 s on its own, so a request in this phase is never left hanging for
				// longer than the promptness bound; that it ended within a second of the removal is recorded, not demanded
				r.Count("dial_pending_requests_ended_within_1s_of_the_removal", 1)
			}
		}
	}
	for _, st := range targets {
		_, chunks, _, ended, _ := st.snap()
		up, seen := h.slog.get(st.ID)
		if (ended == 0 || (seen && up.disc == 0)) && alive {
			r.Violation(fmt.Sprintf("C15/%s/in-flight-not-cancelled/streaming/both-sides-left-open", kind),
				fmt.Sprintf("%s: the watch being proxied to the cluster's other endpoint was not ended %v after the removing sync returned (client open=%v, chunks %d)", kind, promptD, ended == 0, chunks), wit)
		} else {
			r.Count("streams_cut_when_the_server_list_became_empty_or_the_cluster_was_deleted", 1)
		}
	}
	// new requests after the removal: nothing of cluster A's removed targets may receive them
	for i := 0; i < 3; i++ {
		rid := fmt.Sprintf("c15-%d-after%d", id, i)
		u := []string{"a-bh", "a-any", fmt.Sprintf("a-e%d", e2)}[i]
		status, got := h.shortRequest(nameA, u, rid)
		r.Count("new_requests_after_removal", 1)
		d := map[string]interface{}{"request": rid, "user": u, "status": status, "received_by_stub": got, "removal": kind}
		switch {
		case bh.saw(rid):
			r.Violation("C15/"+kind+"/new-request-forwarded-to-removed-endpoint/frozen-target", fmt.Sprintf("request %s sent after the removing sync returned reached the removed (frozen) target", rid), d)
		case kind != "endpoint-remove" && got >= 0:
			r.Violation("C15/"+kind+"/new-request-forwarded", fmt.Sprintf("request %s (user %s) sent after the removing sync returned (%s) was forwarded to stub %d (status %d)", rid, u, kind, got, status), d)
		case kind == "cluster-delete" && status != 503:
			r.Violation(fmt.Sprintf("C15/cluster-delete/new-request-status-%d", status), fmt.Sprintf("request %s to the deleted cluster got status %d instead of 503", rid, status), d)
		case kind == "all-endpoints-removed":
			r.Count("new_requests_to_a_cluster_with_an_empty_server_list", 1)
			r.Count(fmt.Sprintf("new_requests_to_a_cluster_with_an_empty_server_list_status_%d", status), 1)
		case kind == "endpoint-remove" && u != "a-bh" && (status != 200 || got != e2):
			r.Violation("C15/endpoint-remove/unaffected-target-refused/same-cluster-other-endpoint", fmt.Sprintf("request %s (user %s) for the remaining endpoint got status %d, received by stub %d", rid, u, status, got), d)
		}
	}
	if status, got := h.shortRequest(nameB, "b-any", fmt.Sprintf("c15-%d-final", id)); status != 200 || got < 0 {
		r.Violation("C15/"+kind+"/unaffected-target-refused/other-cluster", fmt.Sprintf("request to the other cluster got status %d, received by stub %d", status, got), wit)
	}
	wg.Wait()
}
