// Package c15 checks property C15 (removal: a deleted cluster / an endpoint removed from the server list gets no new
// traffic at once, requests being proxied to it are cancelled promptly, health probing of it stops, everything else is
// unaffected) by opening long-running streams through the real gateway (real controller, health checker and handler
// chain) to stub upstreams, applying one removal at a seeded point in the streams' life, and judging the client-side
// outcomes and the stub logs.
package c15

import (
	"bufio"
	"context"
	"fmt"
	"io"
	"net"
	"net/http"
	"os"
	"reflect"
	"strings"
	"sync"
	"testing"
	"time"

	"k8s.io/apimachinery/pkg/types"
	"k8s.io/apiserver/pkg/authentication/user"

	proxyv1alpha1 "github.com/kubewharf/kubegateway/pkg/apis/proxy/v1alpha1"
	"github.com/kubewharf/kubegateway/pkg/clusters"

	"verifharness/bed"
	"verifharness/vkit"
)

const (
	// promptD is the promptness bound for "cancelled promptly" (observed on correct code: about a millisecond). It is
	// judged only while the control streams of the same history keep delivering data.
	promptD = 5 * time.Second
	// settle separates a probe that was on its way when the removing sync returned from a probe started afterwards.
	settle   = 500 * time.Millisecond
	watchdog = 30 * time.Second
	chunkGap = 15 * time.Millisecond
)

// racePass: the driver's auxiliary -race pass of the thorough tier (race reports are non-deciding, the monitors still
// decide). It runs the quick-sized workload and leaves the evidence file of the plain thorough pass in place.
var racePass = os.Getenv("VERIF_RACE_PASS") != ""

func tierN(r *vkit.R, quick, thorough int) int {
	if racePass {
		return quick
	}
	return r.N(quick, thorough)
}

// ---- stub side: streaming responders that log when the peer goes away ----

type upRec struct {
	stub   int
	start  int64
	disc   int64 // 0 = handler has not seen the peer go away
	reason string
}

type stubLog struct {
	mu      sync.Mutex
	m       map[string]*upRec
	release chan struct{}
}

func (l *stubLog) get(id string) (upRec, bool) {
	l.mu.Lock()
	defer l.mu.Unlock()
	r, ok := l.m[id]
	if !ok {
		return upRec{}, false
	}
	return *r, true
}

func (l *stubLog) responder(stub int) bed.Responder {
	return func(w http.ResponseWriter, r *http.Request, s *bed.Seen) {
		mode := r.Header.Get("X-Verif-Mode")
		if mode == "" {
			w.Header().Set("Content-Type", "text/plain")
			w.WriteHeader(200)
			io.WriteString(w, "ok")
			return
		}
		rec := &upRec{stub: stub, start: bed.Now()}
		l.mu.Lock()
		l.m[s.ID] = rec
		l.mu.Unlock()
		gone := func(why string) {
			l.mu.Lock()
			rec.disc = bed.Now()
			rec.reason = why
			l.mu.Unlock()
		}
		if mode == "upgrade" {
			// an upgraded connection (what exec / attach / port-forward use): 101, then a raw byte stream both ways
			hj, ok := w.(http.Hijacker)
			if !ok {
				http.Error(w, "no hijacker", 500)
				return
			}
			conn, brw, err := hj.Hijack()
			if err != nil {
				return
			}
			defer conn.Close()
			brw.WriteString("HTTP/1.1 101 Switching Protocols\r\nConnection: Upgrade\r\nUpgrade: SPDY/3.1\r\n\r\n")
			brw.Flush()
			peerGone := make(chan struct{})
			go func() {
				buf := make([]byte, 256)
				for {
					if _, err := conn.Read(buf); err != nil {
						close(peerGone)
						return
					}
				}
			}()
			tick := time.NewTicker(chunkGap)
			defer tick.Stop()
			for n := 0; ; n++ {
				if _, err := fmt.Fprintf(conn, "frame %d\n", n); err != nil {
					gone("write error on the upgraded connection: " + err.Error())
					return
				}
				select {
				case <-peerGone:
					gone("peer closed the upgraded connection")
					return
				case <-l.release:
					return
				case <-tick.C:
				}
			}
		}
		if mode == "headwait" {
			// the response head is withheld until the peer goes away (or the harness ends the history)
			select {
			case <-r.Context().Done():
				gone("context done while withholding the response head")
			case <-l.release:
				w.WriteHeader(200)
			}
			return
		}
		w.Header().Set("Content-Type", "application/json")
		w.WriteHeader(200)
		fl, _ := w.(http.Flusher)
		tick := time.NewTicker(chunkGap)
		defer tick.Stop()
		n := 0
		for {
			if _, err := fmt.Fprintf(w, "{\"type\":\"ADDED\",\"object\":{\"n\":%d}}\n", n); err != nil {
				gone("write error: " + err.Error())
				return
			}
			n++
			if fl != nil {
				fl.Flush()
			}
			select {
			case <-r.Context().Done():
				gone("context done while streaming")
				return
			case <-l.release:
				return
			case <-tick.C:
			}
		}
	}
}

// ---- client side ----

type stream struct {
	ID      string `json:"id"`
	Cluster string `json:"cluster"`
	User    string `json:"user"` // selects the policy (= the endpoint)
	Stub    int    `json:"stub"` // intended stub, -1 = any
	Mode    string `json:"mode"` // watch | follow | headwait
	Role    string `json:"role"` // target | same-cluster-other-endpoint | other-cluster | other-cluster-same-upstream
	Phase   string `json:"phase"`

	cancel context.CancelFunc
	mu     sync.Mutex
	status int
	chunks int
	last   int64
	ended  int64
	endErr string
	closed bool // the harness itself ended it
}

func (s *stream) snap() (status, chunks int, last, ended int64, endErr string) {
	s.mu.Lock()
	defer s.mu.Unlock()
	return s.status, s.chunks, s.last, s.ended, s.endErr
}

type hist struct {
	r       *vkit.R
	id      int
	stubs   []*bed.Stub
	gw      *bed.Gateway
	client  *http.Client
	slog    *stubLog
	tokens  map[string]string
	streams []*stream
	nid     int
	wg      sync.WaitGroup
	aStubs  []int
	bStubs  []int
	shared  bool
	bad     bool
	// clusterNames: the clusters of this history (for the attribution of probes)
	clusterNames []string
	// slash[s]: the server URL of stub s is written with a trailing slash in the objects ("http://127.0.0.1:port/")
	slash map[int]bool
	// lastObj: the latest object of each cluster as the API holds it (for metadata.generation)
	lastObj map[string]*proxyv1alpha1.UpstreamCluster
}

// epURL is the spelling of stub s's URL in the cluster objects of this history.
func (h *hist) epURL(s int) string {
	if h.slash[s] {
		return h.stubs[s].URL + "/"
	}
	return h.stubs[s].URL
}

// subsetFor: the policy that routes to stub s names it as the server list spells it; for a server written with a
// trailing slash the subset also names the spelling without it (an entry that is not a server is ignored by the picker).
func (h *hist) subsetFor(s int) []string {
	if h.slash[s] {
		return []string{h.epURL(s), h.stubs[s].URL}
	}
	return []string{h.epURL(s)}
}

// stamp gives the object the metadata.generation the API would: 1 at creation, +1 whenever spec or annotations differ
// from the stored object, unchanged otherwise.
func (h *hist) stamp(o *proxyv1alpha1.UpstreamCluster) {
	last := h.lastObj[o.Name]
	switch {
	case last == nil:
		o.Generation = 1
		o.UID = types.UID(fmt.Sprintf("uid-%d-%s-%d", h.id, o.Name, bed.Now()))
	case !reflect.DeepEqual(last.Spec, o.Spec) || !reflect.DeepEqual(last.Annotations, o.Annotations):
		o.Generation = last.Generation + 1
		o.UID = last.UID
	default:
		o.Generation = last.Generation
		o.UID = last.UID
	}
	h.lastObj[o.Name] = o.DeepCopy()
}

// applyObj stores the object (with its generation) as the lister's latest version and delivers the event.
func (h *hist) applyObj(o *proxyv1alpha1.UpstreamCluster) bed.SyncResult {
	h.stamp(o)
	return h.gw.Apply(o)
}

func (h *hist) deleteCluster(name string) bed.SyncResult {
	delete(h.lastObj, name)
	return h.gw.Delete(name)
}

func (h *hist) gwToken(cluster string) string { return fmt.Sprintf("gwt-c15-%d-%s", h.id, cluster) }

// probesFrom returns the instants of the /healthz probes stub s received from this history's gateway for the cluster.
func (h *hist) probesFrom(s int, cluster string) []int64 { return h.stubs[s].ProbesFrom(h.gwToken(cluster)) }

// waitAllReady waits until every enabled server of the object reports ready. The endpoint is looked up under the spelling
// of the object and, failing that, without a trailing slash: how the gateway names an endpoint internally is not the
// harness's business (the verdicts are taken at the client and at the stubs).
func (h *hist) waitAllReady(o *proxyv1alpha1.UpstreamCluster, d time.Duration) bool {
	return vkit.WaitFor(d, func() bool {
		ci, ok := h.gw.Cluster(o.Name)
		if !ok {
			return false
		}
		for _, sv := range o.Spec.Servers {
			if sv.Disabled != nil && *sv.Disabled {
				continue
			}
			ep, ok := ci.Endpoints.Load(sv.Endpoint)
			if !ok {
				ep, ok = ci.Endpoints.Load(strings.TrimSuffix(sv.Endpoint, "/"))
			}
			if !ok || !ep.IsReady() {
				return false
			}
		}
		return true
	})
}

func (h *hist) fail(reason string) {
	h.bad = true
	h.r.Inconclusive(fmt.Sprintf("history %d: %s", h.id, reason))
}

func userRule(u string) []proxyv1alpha1.DispatchPolicyRule {
	return []proxyv1alpha1.DispatchPolicyRule{{Verbs: []string{"*"}, APIGroups: []string{"*"}, Resources: []string{"*"}, NonResourceURLs: []string{"*"}, Users: []string{u}}}
}

func (h *hist) token(u string) string {
	if t, ok := h.tokens[u]; ok {
		return t
	}
	t := h.gw.Tokens.Add(&user.DefaultInfo{Name: u, Groups: []string{"system:authenticated"}})
	h.tokens[u] = t
	return t
}

// clusterObject: one policy per endpoint (user "<c>-e<stub>" -> subset [that endpoint]) and a policy without subset
// (user "<c>-any").
func (h *hist) clusterObject(name, prefix string, stubs []int) *proxyv1alpha1.UpstreamCluster {
	var servers []string
	var ps []proxyv1alpha1.DispatchPolicy
	for _, s := range stubs {
		servers = append(servers, h.epURL(s))
	}
	return h.clusterObjectWithPolicies(name, prefix, stubs, servers, ps)
}

func (h *hist) clusterObjectWithPolicies(name, prefix string, policyStubs []int, servers []string, ps []proxyv1alpha1.DispatchPolicy) *proxyv1alpha1.UpstreamCluster {
	for _, s := range policyStubs {
		ps = append(ps, proxyv1alpha1.DispatchPolicy{Strategy: proxyv1alpha1.RoundRobin, UpstreamSubset: h.subsetFor(s), Rules: userRule(fmt.Sprintf("%s-e%d", prefix, s))})
	}
	ps = append(ps, proxyv1alpha1.DispatchPolicy{Strategy: proxyv1alpha1.RoundRobin, Rules: userRule(prefix + "-any")})
	// The gateway's credential for the cluster is unique in the whole run and constant across the history's updates:
	// /healthz probes are attributed by it (stub ports are ephemeral and may be re-bound by a stub of another history while
	// a checker of a closed gateway still probes the old address; two clusters of one history may list the same upstream).
	return bed.BuildCluster(bed.ClusterSpec{Name: name, Servers: servers, Policies: ps, Token: h.gwToken(name)})
}

// openUpgrade opens an upgrade request (as exec / attach / port-forward do) over a raw connection to the gateway.
func (h *hist) openUpgrade(st *stream) {
	h.nid++
	st.ID = fmt.Sprintf("c15-%d-%d", h.id, h.nid)
	h.streams = append(h.streams, st)
	tok := h.token(st.User)
	var cmu sync.Mutex
	var conn net.Conn
	cancelled := false
	st.cancel = func() {
		cmu.Lock()
		cancelled = true
		if conn != nil {
			conn.Close()
		}
		cmu.Unlock()
	}
	h.wg.Add(1)
	go func() {
		defer h.wg.Done()
		end := func(err string) {
			st.mu.Lock()
			st.ended = bed.Now()
			st.endErr = err
			st.mu.Unlock()
		}
		c, err := net.Dial("tcp", h.gw.Addr())
		if err != nil {
			end("dial error: " + err.Error())
			return
		}
		cmu.Lock()
		conn = c
		if cancelled {
			c.Close()
		}
		cmu.Unlock()
		defer c.Close()
		fmt.Fprintf(c, "POST /api/v1/namespaces/ns/pods/p1/exec?command=sh&stdin=true&stdout=true HTTP/1.1\r\nHost: %s\r\nAuthorization: Bearer %s\r\nConnection: Upgrade\r\nUpgrade: SPDY/3.1\r\nX-Stream-Protocol-Version: v4.channel.k8s.io\r\n%s: %s\r\nX-Verif-Mode: upgrade\r\nContent-Length: 0\r\n\r\n",
			st.Cluster, tok, bed.IDHeader, st.ID)
		rd := bufio.NewReader(c)
		line, err := rd.ReadString('\n')
		if err != nil {
			end("no response head: " + err.Error())
			return
		}
		code := 0
		fmt.Sscanf(line, "HTTP/1.1 %d", &code)
		st.mu.Lock()
		st.status = code
		st.mu.Unlock()
		for { // rest of the head
			l, err := rd.ReadString('\n')
			if err != nil {
				end("response head cut: " + err.Error())
				return
			}
			if l == "\r\n" {
				break
			}
		}
		if code != 101 {
			// an error answer instead of the upgrade: the request is over
			end(fmt.Sprintf("answered %d instead of 101", code))
			return
		}
		for {
			l, err := rd.ReadString('\n')
			if len(l) > 0 {
				st.mu.Lock()
				st.chunks++
				st.last = bed.Now()
				st.mu.Unlock()
			}
			if err != nil {
				end(err.Error())
				return
			}
		}
	}()
}

func (h *hist) open(st *stream) {
	if st.Mode == "upgrade" {
		h.openUpgrade(st)
		return
	}
	h.nid++
	st.ID = fmt.Sprintf("c15-%d-%d", h.id, h.nid)
	path := "/api/v1/namespaces/ns/pods?watch=true"
	if st.Mode == "follow" {
		path = "/api/v1/namespaces/ns/pods/p1/log?follow=true"
	}
	if st.Mode == "headwait" && h.nid%2 == 0 {
		path = "/api/v1/namespaces/ns/configmaps"
	}
	req := bed.NewRequest("GET", st.Cluster, path, h.token(st.User), st.ID, nil)
	req.URL.Host = h.gw.Addr()
	req.URL.Scheme = "http"
	m := "stream"
	if st.Mode == "headwait" {
		m = "headwait"
	}
	req.Header.Set("X-Verif-Mode", m)
	ctx, cancel := context.WithCancel(context.Background())
	st.cancel = cancel
	req = req.WithContext(ctx)
	h.streams = append(h.streams, st)
	h.wg.Add(1)
	go func() {
		defer h.wg.Done()
		end := func(err string) {
			st.mu.Lock()
			st.ended = bed.Now()
			st.endErr = err
			st.mu.Unlock()
		}
		resp, err := h.client.Do(req)
		if err != nil {
			end("request error: " + err.Error())
			return
		}
		defer resp.Body.Close()
		st.mu.Lock()
		st.status = resp.StatusCode
		st.mu.Unlock()
		rd := bufio.NewReader(resp.Body)
		for {
			line, err := rd.ReadString('\n')
			if len(line) > 0 {
				st.mu.Lock()
				st.chunks++
				st.last = bed.Now()
				st.mu.Unlock()
			}
			if err != nil {
				end(err.Error())
				return
			}
		}
	}()
}

// established: a streaming request has delivered a chunk to the client; a head-waiting one has reached its stub.
func (h *hist) established(st *stream) bool {
	if st.Mode == "headwait" {
		_, ok := h.slog.get(st.ID)
		return ok
	}
	_, c, _, _, _ := st.snap()
	return c > 0
}

func (h *hist) shortRequest(cluster, u, id string) (int, int) {
	req := bed.NewRequest("GET", cluster, "/api/v1/namespaces/ns/pods/x", h.token(u), id, nil)
	req.URL.Host = h.gw.Addr()
	req.URL.Scheme = "http"
	resp, err := h.client.Do(req)
	if err != nil {
		return -1, -1
	}
	io.Copy(io.Discard, resp.Body)
	resp.Body.Close()
	got := -1
	for i, s := range h.stubs {
		if s.CountID(id) > 0 {
			got = i
		}
	}
	return resp.StatusCode, got
}

func (h *hist) close() {
	for _, st := range h.streams {
		st.mu.Lock()
		st.closed = true
		st.mu.Unlock()
		if st.cancel != nil {
			st.cancel()
		}
	}
	close(h.slog.release)
	done := make(chan struct{})
	go func() { h.wg.Wait(); close(done) }()
	select {
	case <-done:
	case <-time.After(watchdog):
		h.r.Inconclusive(fmt.Sprintf("history %d: client streams did not end after the harness cancelled them", h.id))
	}
	for _, s := range h.stubs {
		own := 0
		for _, c := range h.clusterNames {
			own += len(s.ProbesFrom(h.gwToken(c)))
		}
		if n := s.ProbeCount() - own; n > 0 {
			h.r.Count("observation_stray_probes_from_other_histories", n)
		}
	}
	if tr, ok := h.client.Transport.(*http.Transport); ok {
		tr.CloseIdleConnections()
	}
	h.gw.Close()
	for _, s := range h.stubs {
		s.Close()
	}
}

// tlsA: the endpoints of cluster A are TLS servers that speak HTTP/2 (the production setting: all proxied requests to
// one endpoint are streams of one connection), otherwise plain HTTP/1.1.
func newHist(r *vkit.R, id, nA, nB int, tlsA bool) *hist {
	h := &hist{r: r, id: id, tokens: map[string]string{}, slash: map[int]bool{}, lastObj: map[string]*proxyv1alpha1.UpstreamCluster{}, slog: &stubLog{m: map[string]*upRec{}, release: make(chan struct{})}}
	for i := 0; i < nA+nB; i++ {
		var s *bed.Stub
		if tlsA { // every stub of the history: a cluster may not mix http and https servers, and B may list an upstream of A
			s = bed.NewTLSStub(fmt.Sprintf("h%d-s%d", id, i), true)
		} else {
			s = bed.NewStub(fmt.Sprintf("h%d-s%d", id, i))
		}
		s.SetResponder(h.slog.responder(i))
		h.stubs = append(h.stubs, s)
		if i < nA {
			h.aStubs = append(h.aStubs, i)
		} else {
			h.bStubs = append(h.bStubs, i)
		}
	}
	h.gw = bed.NewGateway(bed.GatewayOptions{}).Start()
	h.client = &http.Client{Transport: &http.Transport{
		MaxIdleConnsPerHost: 64, DisableCompression: true,
		DialContext: func(ctx context.Context, network, addr string) (net.Conn, error) {
			return (&net.Dialer{}).DialContext(ctx, network, h.gw.Addr())
		},
	}, CheckRedirect: func(*http.Request, []*http.Request) error { return http.ErrUseLastResponse }}
	return h
}

type witness struct {
	History  int         `json:"history"`
	Kind     string      `json:"removal"`
	Pre      string      `json:"prehistory_of_the_removed_endpoint"`
	A        []int       `json:"cluster_A_stubs"`
	B        []int       `json:"cluster_B_stubs"`
	Shared   bool        `json:"cluster_B_also_lists_the_removed_upstream"`
	Timing   string      `json:"timing"`
	Stream   *stream     `json:"stream,omitempty"`
	Detail   interface{} `json:"detail,omitempty"`
	Streams  int         `json:"streams"`
	RemoveMs float64     `json:"removing_sync_took_ms"`
}

// runHistory: clusters A (removed target: its first endpoint, or the whole cluster) and B (control).
func runHistory(r *vkit.R, id int, g *vkit.Rand, longWait bool, hungProbe bool) {
	nA, nB := g.Range(2, 3), g.Range(1, 2)
	// sel: which histories get a shape is decided by the history's index, not by the seed: the shapes whose minimum counts
	// are asserted are constructed in every run (the seed still varies everything else about them)
	sel := func(salt int, num, den uint64) bool {
		x := vkit.Hash64(fmt.Sprint(id), fmt.Sprint(salt)) * 0x9E3779B97F4A7C15 // spread the hash's weak low bits
		x ^= x >> 29
		return (x*0xBF58476D1CE4E5B9>>33)%den < num
	}
	tlsA := sel(1, 3, 10)
	h := newHist(r, id, nA, nB, tlsA)
	defer h.close()
	if tlsA {
		r.Count("histories_with_tls_http2_upstreams", 1)
	}
	kind := "endpoint-remove"
	if sel(2, 1, 2) {
		kind = "cluster-delete"
	}
	if hungProbe {
		h.shared = false
		// both removal kinds get the same number of hung-probe histories
		kind = []string{"endpoint-remove", "cluster-delete"}[id%2]
	} else {
		h.shared = g.Chance(0.3)
	}
	// every sixth ordinary history is an endpoint removal delivered as "deleted and re-created" on an object whose spec was
	// never changed since its creation (so that this shape is exercised in every run, whatever the seed)
	forceRecreate := !hungProbe && !longWait && id%6 == 0
	if forceRecreate {
		kind = "endpoint-remove"
	}
	nameA, nameB := fmt.Sprintf("a%d.c15.test", id), fmt.Sprintf("b%d.c15.test", id)
	h.clusterNames = []string{nameA, nameB}
	// In a third of the histories the endpoints of cluster A that are NOT removed are written with a trailing slash
	// (validation accepts "http://host:port/"): they are "the other endpoints of the same cluster" and must be unaffected.
	if sel(3, 35, 100) {
		for i, s := range h.aStubs[1:] {
			if i == 0 || g.Bool() {
				h.slash[s] = true
			}
		}
		r.Count("histories_with_trailing_slash_server_urls", 1)
	}
	e1 := h.aStubs[0]
	objA := h.clusterObject(nameA, "a", h.aStubs)
	// pre-history of the endpoint that will be removed: it was disabled at some point (created disabled, or disabled
	// later) and enabled again before anything else happens, i.e. its health checker was restarted by a spec update
	pre := "none"
	if !hungProbe && !forceRecreate && (longWait || sel(4, 45, 100)) {
		pre = []string{"created-disabled-then-enabled", "disabled-then-enabled"}[g.Intn(2)]
		if longWait {
			// the histories that wait > 5 s for a ticker probe cover both removal kinds with this pre-history
			kind = []string{"endpoint-remove", "cluster-delete"}[id%2]
		}
	}
	// Host names of cluster A. In half of the cluster deletions the object also lists alias names
	// (secureServing.serverNames; nothing validates that list): two aliases, possibly repeated, in other letter case, and
	// the cluster's own name. Every name the cluster was reachable under must answer 503 after the deletion.
	namesA := []string{nameA}
	if kind == "cluster-delete" && !hungProbe && sel(5, 1, 2) {
		a1, a2 := fmt.Sprintf("alias1-%d.c15.test", id), fmt.Sprintf("alias2-%d.c15.test", id)
		pool := []string{a1, a2, a1, nameA, strings.ToUpper(nameA), strings.ToUpper(a2), a2}
		perm := g.Perm(len(pool))
		var list []string
		for _, i := range perm[:g.Range(2, len(pool))] {
			list = append(list, pool[i])
		}
		// at least one real alias, whatever was drawn
		list = append(list[:1:1], append([]string{a1}, list[1:]...)...)
		objA.Spec.SecureServing.ServerNames = list
		seen := map[string]bool{nameA: true}
		for _, n := range list {
			if l := strings.ToLower(n); !seen[l] {
				seen[l] = true
				namesA = append(namesA, l)
			}
		}
		r.Count("cluster_deletions_with_alias_names", 1)
	}
	withE1Disabled := func() *proxyv1alpha1.UpstreamCluster {
		o := objA.DeepCopy()
		for i := range o.Spec.Servers {
			if o.Spec.Servers[i].Endpoint == h.stubs[e1].URL {
				t := true
				o.Spec.Servers[i].Disabled = &t
			}
		}
		return o
	}
	applyA := func(o *proxyv1alpha1.UpstreamCluster) bool {
		if sr := h.applyObj(o); sr.Err != nil || sr.Panic != nil || sr.Requeue {
			h.fail(fmt.Sprintf("controller did not apply a generated cluster: %+v", sr))
			return false
		}
		if !h.waitAllReady(o, watchdog) {
			h.fail(fmt.Sprintf("stub endpoints did not become ready within the watchdog (tls/h2 upstreams=%v, shared upstream=%v, trailing slash=%v, object %s)", tlsA, h.shared, h.slash, o.Name))
			return false
		}
		return true
	}
	// An earlier incarnation of cluster A (same name, other uid) existed and was deleted before this history's cluster is
	// created: nothing of it may survive (its endpoints' contexts are cancelled; the new one must be cut / probed on its own).
	if !hungProbe && sel(6, 1, 4) {
		first := objA.DeepCopy()
		if g.Bool() && len(first.Spec.Servers) > 1 {
			first.Spec.Servers = first.Spec.Servers[:1] // the earlier incarnation had only E1
		}
		if !applyA(first) {
			return
		}
		if sr := h.deleteCluster(nameA); sr.Err != nil || sr.Panic != nil || sr.Requeue {
			h.fail(fmt.Sprintf("controller did not delete the earlier incarnation: %+v", sr))
			return
		}
		r.Count("histories_whose_cluster_had_an_earlier_deleted_incarnation", 1)
	}
	switch pre {
	case "created-disabled-then-enabled":
		if !applyA(withE1Disabled()) {
			return
		}
		time.Sleep(time.Duration(g.Range(0, 20)) * time.Millisecond)
	case "disabled-then-enabled":
		if !applyA(objA) || !applyA(withE1Disabled()) {
			return
		}
		time.Sleep(time.Duration(g.Range(0, 20)) * time.Millisecond)
	}
	r.Count("prehistory_"+pre, 1)
	bPol := append([]int(nil), h.bStubs...)
	var bServers []string
	for _, s := range h.bStubs {
		bServers = append(bServers, h.stubs[s].URL)
	}
	if h.shared {
		// cluster B lists the upstream that is removed from / deleted with A as one of its own servers
		bPol = append(bPol, e1)
		bServers = append(bServers, h.stubs[e1].URL)
	}
	objB := h.clusterObjectWithPolicies(nameB, "b", bPol, bServers, nil)
	for _, o := range []*proxyv1alpha1.UpstreamCluster{objA, objB} {
		if sr := h.applyObj(o); sr.Err != nil || sr.Panic != nil || sr.Requeue {
			h.fail(fmt.Sprintf("controller did not apply a generated cluster: %+v", sr))
			return
		}
		if !h.waitAllReady(o, watchdog) {
			h.fail(fmt.Sprintf("stub endpoints did not become ready within the watchdog (tls/h2 upstreams=%v, shared upstream=%v, trailing slash=%v, object %s)", tlsA, h.shared, h.slash, o.Name))
			return
		}
	}
	ciA, _ := h.gw.Cluster(nameA)
	retained := map[int]*clusters.EndpointInfo{}
	for _, s := range h.aStubs {
		if ep, ok := ciA.Endpoints.Load(h.epURL(s)); ok {
			retained[s] = ep
		} else if ep, ok := ciA.Endpoints.Load(h.stubs[s].URL); ok {
			retained[s] = ep
		}
	}

	isTarget := func(stub int) bool {
		if kind == "cluster-delete" {
			return true
		}
		return stub == e1
	}
	// timing: settled = the removal hits established streams; early = target requests are launched and the removal is
	// applied a seeded 0..3 ms later without waiting (before pick / connecting / just streaming)
	timing := "settled"
	if !hungProbe && g.Chance(0.4) {
		timing = "early"
	}
	// request kinds: watch, log-follow style stream, withheld response head, upgraded connection (exec / attach / port-forward)
	ctlMode := func() string { return []string{"watch", "follow", "watch", "follow", "upgrade"}[g.Intn(5)] }
	tgtMode := func() string { return []string{"watch", "follow", "headwait", "upgrade"}[g.Intn(4)] }
	var targets, controls []*stream
	// control streams first (always established before the removal)
	for _, s := range h.bStubs {
		for i := g.Range(1, 2); i > 0; i-- {
			st := &stream{Cluster: nameB, User: fmt.Sprintf("b-e%d", s), Stub: s, Mode: ctlMode(), Role: "other-cluster", Phase: "streaming"}
			h.open(st)
			controls = append(controls, st)
		}
	}
	if h.shared {
		st := &stream{Cluster: nameB, User: fmt.Sprintf("b-e%d", e1), Stub: e1, Mode: ctlMode(), Role: "other-cluster-same-upstream", Phase: "streaming"}
		h.open(st)
		controls = append(controls, st)
	}
	if g.Chance(0.5) {
		st := &stream{Cluster: nameB, User: "b-any", Stub: -1, Mode: "watch", Role: "other-cluster", Phase: "streaming"}
		h.open(st)
		controls = append(controls, st)
	}
	for _, s := range h.aStubs {
		if !isTarget(s) {
			for i := g.Range(1, 2); i > 0; i-- {
				st := &stream{Cluster: nameA, User: fmt.Sprintf("a-e%d", s), Stub: s, Mode: ctlMode(), Role: "same-cluster-other-endpoint", Phase: "streaming"}
				h.open(st)
				controls = append(controls, st)
			}
		}
	}
	if !vkit.WaitFor(watchdog, func() bool {
		for _, st := range controls {
			if !h.established(st) {
				return false
			}
		}
		return true
	}) {
		h.fail("control streams were not established within the watchdog")
		return
	}
	// target streams
	for _, s := range h.aStubs {
		if !isTarget(s) {
			continue
		}
		for i := g.Range(1, 3); i > 0; i-- {
			mode := tgtMode()
			phase := "streaming"
			if mode == "headwait" {
				phase = "awaiting-head"
			}

			if timing == "early" {
				phase = "early"
			}
			if mode == "upgrade" {
				phase = "upgraded" // whatever the timing: the request kind is the discriminating feature
			}
			st := &stream{Cluster: namesA[g.Intn(len(namesA))], User: fmt.Sprintf("a-e%d", s), Stub: s, Mode: mode, Role: "target", Phase: phase}
			h.open(st)
			targets = append(targets, st)
		}
	}
	if timing == "settled" {
		if !vkit.WaitFor(watchdog, func() bool {
			for _, st := range targets {
				if !h.established(st) {
					return false
				}
			}
			return true
		}) {
			h.fail("target streams were not established within the watchdog")
			return
		}
	} else {
		time.Sleep(time.Duration(g.Range(0, 3000)) * time.Microsecond)
	}
	if hungProbe {
		// a probe of the endpoint that is about to be removed hangs (the real checker gives up after 5 s)
		n0 := len(h.probesFrom(e1, nameA))
		h.stubs[e1].SetHealth(bed.HealthHang)
		retained[e1].TriggerHealthCheck()
		if !vkit.WaitFor(watchdog, func() bool { return len(h.probesFrom(e1, nameA)) > n0 }) {
			h.fail("triggered probe did not reach the stub")
			return
		}
		time.Sleep(time.Duration(g.Range(0, 1200)) * time.Millisecond)
	}

	// "The normal way to retire a server": the endpoint is first marked disabled (no new picks, no probes; what happens to
	// the requests already being proxied to it at that moment is not judged - on this code they stay), and removed from
	// the server list by a later update. The statement's demand is about the REMOVAL: whatever is still being proxied to
	// the endpoint then must be cut.
	retire := ""
	if kind == "endpoint-remove" && !hungProbe && !forceRecreate && sel(7, 4, 10) {
		retire = "/disabled-before-removal"
		if !func() bool {
			if sr := h.applyObj(withE1Disabled()); sr.Err != nil || sr.Panic != nil || sr.Requeue {
				h.fail(fmt.Sprintf("controller did not apply the disabling update: %+v", sr))
				return false
			}
			return true
		}() {
			return
		}
		time.Sleep(time.Duration(g.Range(0, 30)) * time.Millisecond)
		stillOpen := 0
		for _, st := range targets {
			_, _, _, ended, _ := st.snap()
			up, seen := h.slog.get(st.ID)
			if ended == 0 && seen && up.disc == 0 {
				stillOpen++
			}
		}
		r.Count("retire_histories_disable_then_remove", 1)
		r.Count("streams_still_proxied_to_the_disabled_endpoint_at_removal", stillOpen)
	}

	// every alias routes before the deletion (otherwise the 503 afterwards would show nothing)
	for _, n := range namesA[1:] {
		if status, got := h.shortRequest(n, "a-any", fmt.Sprintf("c15-%d-alias-before-%s", id, n)); status == 200 && got >= 0 {
			r.Count("alias_requests_forwarded_before_the_deletion", 1)
		} else {
			h.fail(fmt.Sprintf("request to alias %s of the cluster got status %d before the deletion", n, status))
			return
		}
	}
	// In a third of the endpoint removals the removing update ALSO adds a server for which no client can be built: the sync
	// fails half-way and asks for a requeue (re-delivered up to 3 times, as the queue would). The object is the latest
	// one, E1 is not in its list: all clauses hold for E1 from the moment the first removing sync returned.
	// `failing` is the variant suffix of the removing update
	failing := ""
	if kind == "endpoint-remove" && !hungProbe && !forceRecreate && sel(8, 35, 100) {
		failing = "/with-failing-add"
	}
	// Another shape of the removing event: the object was DELETED AND RE-CREATED under the same name with a different
	// server list (E1 is not in it); the lister already holds the new object when the event is processed, so the controller
	// sees a single update whose metadata.generation is back at 1 (as it was when the old object was applied, if its spec
	// had not been changed since creation).
	recreated := false
	if kind == "endpoint-remove" && !hungProbe && failing == "" && pre == "none" && retire == "" && (forceRecreate || g.Chance(0.85)) {
		failing = "/deleted-and-recreated"
		recreated = true
		if last := h.lastObj[nameA]; last != nil && last.Generation == 1 {
			r.Count("endpoint_removals_by_recreation_with_equal_generation", 1)
		}
		delete(h.lastObj, nameA)
	}
	_ = recreated

	aliasEdit := ""
	// ---- the removal ----
	t0 := bed.Now()
	var sr bed.SyncResult
	if kind == "cluster-delete" && len(namesA) > 1 && sel(9, 1, 2) {
		// The alias names were edited (one alias replaced by a new one) and the object was deleted BEFORE the controller's
		// single worker handled the update event: the lister no longer has the object when that event is processed, so the
		// edit is never applied and the names that are registered are not the names in the last object. Every name the
		// cluster was (or would have been) reachable under must answer 503 afterwards.
		edited := h.lastObj[nameA].DeepCopy()
		newAlias := fmt.Sprintf("alias3-%d.c15.test", id)
		names := append([]string(nil), edited.Spec.SecureServing.ServerNames...)
		victim := strings.ToLower(names[g.Intn(len(names))])
		var kept []string
		for _, n := range names {
			if strings.ToLower(n) != victim || victim == nameA {
				kept = append(kept, n)
			}
		}
		edited.Spec.SecureServing.ServerNames = append(kept, newAlias)
		h.stamp(edited)
		stored := h.gw.SetLister(edited)
		removed := h.gw.RemoveFromLister(nameA)
		delete(h.lastObj, nameA)
		sr = h.gw.Deliver(stored) // the update event: the object is already gone from the lister
		if removed != nil && sr.Panic == nil {
			t := bed.Now()
			sr2 := h.gw.Deliver(removed) // the delete event
			_ = t
			if sr2.Panic != nil {
				sr = sr2
			}
		}
		namesA = append(namesA, newAlias)
		aliasEdit = "/after-unapplied-alias-edit"
		r.Count("cluster_deletions_after_an_unapplied_alias_edit", 1)
	} else if kind == "cluster-delete" {
		sr = h.deleteCluster(nameA)
	} else {
		servers := urls(h, h.aStubs[1:])
		if failing == "/with-failing-add" {
			servers = append(servers, []string{"http://[::1", "http://a b", "http://bad host:6443"}[g.Intn(3)])
		}
		sr = h.applyObj(h.clusterObjectWithPolicies(nameA, "a", h.aStubs, servers, nil))
	}
	tRemoved := bed.Now()
	if failing == "/with-failing-add" {
		requeues := 0
		for sr.Panic == nil && sr.Requeue && requeues < 3 {
			requeues++
			item, ok, _ := h.gw.Indexer.GetByKey(nameA)
			if !ok {
				break
			}
			sr = h.gw.Deliver(item.(*proxyv1alpha1.UpstreamCluster))
		}
		if sr.Panic != nil {
			h.fail(fmt.Sprintf("controller panicked on a removing update that also adds an unbuildable server: %v", sr.Panic))
			return
		}
		r.Count("endpoint_removals_with_failing_add", 1)
		r.Count("endpoint_removals_with_failing_add_redeliveries", requeues)
	} else if sr.Err != nil || sr.Panic != nil || sr.Requeue {
		h.fail(fmt.Sprintf("controller did not apply the removal: %+v", sr))
		return
	}
	wit := func(st *stream, detail interface{}) witness {
		return witness{History: id, Kind: kind + retire + failing, Pre: pre, A: h.aStubs, B: h.bStubs, Shared: h.shared, Timing: timing, Stream: st, Detail: detail, Streams: len(h.streams), RemoveMs: float64(tRemoved-t0) / 1e6}
	}
	r.Eval(1)
	r.Count("histories", 1)
	r.Count("removal_"+kind, 1)
	r.Count("timing_"+timing, 1)
	r.Distinct(vkit.Hash64(kind, timing, pre, retire, failing, fmt.Sprint(len(namesA)), fmt.Sprint(nA, nB, h.shared, hungProbe), streamShape(h.streams)))
	if pre != "none" && kind == "endpoint-remove" {
		r.Count("endpoint_removals_after_disable_enable", 1)
		if longWait {
			r.Count("endpoint_removals_after_disable_enable_with_long_wait", 1)
		}
	}

	// (a) + (d): new requests sent after the removing sync returned
	nNew := g.Range(4, 10)
	for i := 0; i < nNew; i++ {
		rid := fmt.Sprintf("c15-%d-new%d", id, i)
		var cluster, u string
		switch g.Intn(4) {
		case 0:
			cluster, u = nameA, fmt.Sprintf("a-e%d", e1)
		case 1:
			cluster, u = nameA, "a-any"
		case 2:
			cluster, u = nameA, fmt.Sprintf("a-e%d", h.aStubs[1])
		default:
			cluster, u = nameB, "b-any"
		}
		status, got := h.shortRequest(cluster, u, rid)
		r.Count("new_requests_after_removal", 1)
		d := map[string]interface{}{"request": rid, "host": cluster, "user": u, "status": status, "received_by_stub": got}
		switch {
		case status == -1:
			h.fail("client error on a short request to the in-process gateway")
			return
		case cluster == nameA && kind == "cluster-delete":
			r.Count("new_requests_to_deleted_cluster", 1)
			if got >= 0 {
				r.Violation("C15/cluster-delete/new-request-forwarded", fmt.Sprintf("request %s sent after the deleting sync returned was forwarded to stub %d (status %d)", rid, got, status), wit(nil, d))
			} else if status != 503 {
				r.Violation(fmt.Sprintf("C15/cluster-delete/new-request-status-%d", status), fmt.Sprintf("request %s to the deleted cluster got status %d instead of 503", rid, status), wit(nil, d))
			}
		case cluster == nameA && got == e1:
			r.Violation("C15/endpoint-remove/new-request-forwarded-to-removed-endpoint"+failing, fmt.Sprintf("request %s (user %s) sent after the removing sync returned was forwarded to the removed endpoint (stub %d)", rid, u, got), wit(nil, d))
		case cluster == nameA && u != fmt.Sprintf("a-e%d", e1):
			r.Count("new_requests_to_remaining_endpoints", 1)
			if status != 200 || got < 0 {
				r.Violation("C15/endpoint-remove/unaffected-target-refused/same-cluster-other-endpoint", fmt.Sprintf("request %s (user %s) for the remaining endpoints of the cluster got status %d, received by stub %d", rid, u, status, got), wit(nil, d))
			}
		case cluster == nameB:
			r.Count("new_requests_to_other_cluster", 1)
			if status != 200 || got < 0 {
				r.Violation("C15/"+kind+"/unaffected-target-refused/other-cluster", fmt.Sprintf("request %s to the other cluster got status %d, received by stub %d", rid, status, got), wit(nil, d))
			}
		}
	}

	// (a) for a deleted cluster: EVERY name it was reachable under (own name, each alias; other letter case, with a port)
	if kind == "cluster-delete" {
		for ni, n := range namesA {
			for vi, host := range []string{n, strings.ToUpper(n), n + ":6443"} {
				rid := fmt.Sprintf("c15-%d-name%d-%d", id, ni, vi)
				status, got := h.shortRequest(host, "a-any", rid)
				r.Count("new_requests_to_every_name_of_the_deleted_cluster", 1)
				d := map[string]interface{}{"request": rid, "host": host, "names_of_the_cluster": namesA, "server_names_in_object": objA.Spec.SecureServing.ServerNames, "status": status, "received_by_stub": got}
				which := "own-name"
				if ni > 0 {
					which = "alias" + aliasEdit
				}
				switch {
				case status == -1:
					h.fail("client error on a short request to the in-process gateway")
					return
				case got >= 0:
					r.Violation("C15/cluster-delete/new-request-forwarded/"+which, fmt.Sprintf("request %s for host %q (a name of the deleted cluster; serverNames %q) sent after the deleting sync returned was forwarded to stub %d (status %d)", rid, host, objA.Spec.SecureServing.ServerNames, got, status), wit(nil, d))
				case status != 503:
					r.Violation(fmt.Sprintf("C15/cluster-delete/new-request-status-%d/%s", status, which), fmt.Sprintf("request %s for host %q (a name of the deleted cluster; serverNames %q) got status %d instead of 503", rid, host, objA.Spec.SecureServing.ServerNames, status), wit(nil, d))
				}
			}
		}
	}

	// (b) every request that was being proxied to the removed target ends on both sides within promptD
	// elsewhere: the request was received by a stub that is NOT among the removed targets (the gateway routed it to another
	// endpoint than the per-endpoint policy names - that is C03's business). The removal clause says nothing about a request
	// that is being proxied to an endpoint which was not removed.
	elsewhere := func(st *stream) bool {
		up, ok := h.slog.get(st.ID)
		return ok && !isTarget(up.stub)
	}
	open := func(st *stream) (clientOpen, upstreamOpen bool) {
		if elsewhere(st) {
			return false, false
		}
		_, _, _, ended, _ := st.snap()
		clientOpen = ended == 0
		if up, ok := h.slog.get(st.ID); ok && up.disc == 0 {
			upstreamOpen = true
		}
		return
	}
	allEnded := func() bool {
		for _, st := range targets {
			if c, u := open(st); c || u {
				return false
			}
		}
		return true
	}
	deadline := tRemoved + int64(promptD)
	for !allEnded() && bed.Now() < deadline {
		time.Sleep(200 * time.Microsecond)
	}
	// control streams must still deliver data now (reference for the promptness verdict and oracle in its own right)
	controlsAlive := true
	marks := make([]int, len(controls))
	for i, st := range controls {
		_, marks[i], _, _, _ = st.snap()
	}
	for i, st := range controls {
		i, st := i, st
		ok := vkit.WaitFor(10*time.Second, func() bool {
			_, c, _, ended, _ := st.snap()
			return c > marks[i] || ended != 0
		})
		status, c, _, ended, endErr := st.snap()
		up, _ := h.slog.get(st.ID)
		switch {
		case ended != 0:
			controlsAlive = false
			r.Violation("C15/"+kind+"/unaffected-stream-cut/"+st.Role,
				fmt.Sprintf("%s of cluster A: an established stream (%s) on %s (user %s, stub %d) that is not involved ended %.1f ms after the removal (client: %s; stub: %s)",
					kind, st.Mode, st.Cluster, st.User, st.Stub, float64(ended-tRemoved)/1e6, endErr, up.reason),
				wit(st, map[string]interface{}{"status": status, "chunks": c, "client_end": endErr, "stub_disconnect_reason": up.reason}))
		case !ok:
			controlsAlive = false
			h.fail("a control stream delivered no data for 10 s (environment too slow to judge promptness)")
		default:
			r.Count("control_streams_alive_after_removal", 1)
		}
	}
	if h.bad {
		return
	}
	// a target request may have reached its stub only after the first look; give every target the full bound
	for !allEnded() && bed.Now() < deadline {
		time.Sleep(200 * time.Microsecond)
	}
	maxLat := int64(0)
	for _, st := range targets {
		status, chunks, _, ended, endErr := st.snap()
		up, seenUp := h.slog.get(st.ID)
		if elsewhere(st) {
			r.Count("target_requests_received_by_an_endpoint_that_was_not_removed_not_judged", 1)
			continue
		}
		cOpen, uOpen := open(st)
		r.Count("target_streams", 1)
		r.Count("target_streams_"+st.Phase, 1)
		if seenUp {
			r.Count("target_streams_that_reached_their_stub", 1)
		}
		if cOpen || uOpen {
			if !controlsAlive {
				continue
			}
			side := "client-left-hanging"
			if !cOpen {
				side = "upstream-request-left-open"
			} else if uOpen {
				side = "both-sides-left-open"
			}
			r.Violation(fmt.Sprintf("C15/%s/in-flight-not-cancelled/%s/%s%s%s", kind, st.Phase, side, retire, failing),
				fmt.Sprintf("%s: a request (%s, user %s, stub %d, phase %s) that was being proxied to the removed target was not ended %v after the removing sync returned (client side open=%v, chunks so far %d; upstream request open=%v) while %d control streams kept delivering data",
					kind, st.Mode, st.User, st.Stub, st.Phase, promptD, cOpen, chunks, uOpen, len(controls)),
				wit(st, map[string]interface{}{"status": status, "chunks": chunks, "client_open": cOpen, "upstream_open": uOpen}))
			continue
		}
		r.Count("target_streams_ended", 1)
		if up, ok := h.stubs[st.Stub].Get(st.ID); ok && up.Proto == "HTTP/2.0" {
			r.Count("target_streams_over_http2_ended", 1)
		}
		_ = endErr
		lat := ended - tRemoved
		if seenUp && up.disc-tRemoved > lat {
			lat = up.disc - tRemoved
		}
		if lat > maxLat {
			maxLat = lat
		}
	}
	latMu.Lock()
	if maxLat > latMax {
		latMax = maxLat
	}
	latMu.Unlock()

	// (c) no health probe of cluster A reaches the removed target (probes are attributed by the cluster's credential, so
	// this is also judged when cluster B lists the same upstream and keeps probing it)
	{
		if rest := tRemoved + int64(settle) + int64(10*time.Millisecond) - bed.Now(); rest > 0 {
			time.Sleep(time.Duration(rest))
		}
		var probed []int
		for _, s := range h.aStubs {
			if isTarget(s) {
				probed = append(probed, s)
				if ep := retained[s]; ep != nil {
					ep.TriggerHealthCheck()
					ep.TriggerHealthCheck()
					r.Count("triggers_on_removed_endpoints", 2)
				}
			}
		}
		if longWait || hungProbe {
			time.Sleep(6 * time.Second) // health ticker (5 s) and probe timeout (5 s)
			r.Count("long_waits_after_removal", 1)
		} else {
			time.Sleep(150 * time.Millisecond)
		}
		now := bed.Now()
		for _, s := range probed {
			var late []float64
			for _, t := range h.probesFrom(s, nameA) {
				if t > tRemoved+int64(settle) && t < now {
					late = append(late, float64(t-tRemoved)/1e6)
				}
			}
			// The first 500 ms are not exempt altogether: what the grace stands for is the probe that was on its way when the
			// sync returned, and an endpoint has ONE checker that probes sequentially (two while the checker of an earlier
			// disable/enable generation finishes its probe). More than two /healthz requests of this cluster in the grace
			// window cannot be in-flight probes (a stub that closes connections makes one probe call retry; not used here).
			early := 0
			for _, t := range h.probesFrom(s, nameA) {
				if t > tRemoved && t <= tRemoved+int64(settle) {
					early++
				}
			}
			r.Count("probes_within_the_grace_window_after_removal", early)
			if early > 2 && !(hungProbe && s == e1) {
				r.Violation(fmt.Sprintf("C15/%s/probe-after-removal/more-than-the-in-flight-ones-within-the-grace-window%s", kind, failing),
					fmt.Sprintf("%s: the stub of the removed target logged %d /healthz probes within %v after the removing sync returned; at most two can have been in flight when it returned", kind, early, settle),
					wit(nil, map[string]interface{}{"stub": s, "probes_in_grace_window": early}))
			}
			r.Count("removed_targets_probe_checked", 1)
			if len(late) > 0 {
				class := "idle-at-removal"
				if hungProbe && s == e1 {
					class = "hung-probe-at-removal"
				} else if pre != "none" && s == e1 {
					class = "idle-at-removal-after-disable-enable"
				}
				r.Violation(fmt.Sprintf("C15/%s/probe-after-removal/%s%s", kind, class, failing),
					fmt.Sprintf("%s: the stub of the removed target logged %d /healthz probe(s) %v ms after the removing sync returned (class %s; probes within the first %v are not counted)", kind, len(late), late, class, settle),
					wit(nil, map[string]interface{}{"stub": s, "probe_ms_after_removal": late, "class": class}))
			}
		}
	}

	// (d) once more at the end: what is not involved still answers and the control streams still run
	for _, st := range controls {
		if _, _, _, ended, endErr := st.snap(); ended != 0 {
			r.Violation("C15/"+kind+"/unaffected-stream-cut/"+st.Role,
				fmt.Sprintf("%s of cluster A: an established stream on %s (user %s) that is not involved ended later in the history (client: %s)", kind, st.Cluster, st.User, endErr), wit(st, nil))
		}
	}
	status, got := h.shortRequest(nameB, "b-any", fmt.Sprintf("c15-%d-final", id))
	if status != 200 || got < 0 {
		r.Violation("C15/"+kind+"/unaffected-target-refused/other-cluster", fmt.Sprintf("final request to the other cluster got status %d, received by stub %d", status, got), wit(nil, nil))
	}
	if r.WantSample() {
		r.Sample(map[string]interface{}{"kind": kind, "timing": timing, "cluster_A_stubs": nA, "cluster_B_stubs": nB, "shared_upstream": h.shared,
			"target_streams": len(targets), "control_streams": len(controls), "max_cancel_latency_ms": float64(maxLat) / 1e6, "removing_sync_ms": float64(tRemoved-t0) / 1e6})
	}
}

var (
	latMu  sync.Mutex
	latMax int64
)

func urls(h *hist, stubs []int) []string {
	var out []string
	for _, s := range stubs {
		out = append(out, h.epURL(s))
	}
	return out
}

func streamShape(ss []*stream) string {
	out := ""
	for _, s := range ss {
		out += s.Role + ":" + s.Mode + ":" + s.Phase + ";"
	}
	return out
}

func TestCheck(t *testing.T) {
	vkit.Run(t, "C15", "exploration", func(r *vkit.R) {
		r.Rule("Seeded histories on a real gateway: cluster A (2..3 stub endpoints) and control cluster B (1..2 endpoints, in 30% of the histories also listing A's first upstream); " +
			"one policy per endpoint plus one without subset. Long-running requests (watch, log-follow style chunked streams, requests whose response head is withheld) are opened to every " +
			"endpoint; then ONE removal: delete cluster A, or drop A's first endpoint from the server list, applied either to established streams (settled) or 0..3 ms after the target " +
			"requests were launched (early: before pick / connecting / just streaming). Oracle: (a) requests sent after the removing sync returned: deleted cluster -> 503 and no stub sees " +
			"them, removed endpoint -> never receives them; (b) every request that was being proxied to the removed target ends on the client side AND at the stub within 5 s while all control " +
			"streams keep delivering data; control streams (other cluster, other endpoints of A, B's stream to the same upstream) stay open and carry data; (c) no /healthz probe reaches the " +
			"removed target later than 500 ms after the sync although TriggerHealthCheck is called on the retained EndpointInfo (some histories wait 6 s: ticker and probe timeout; some remove " +
			"the target while its probe hangs; in 45% of the histories - and in all long-wait ones - the endpoint had been disabled (at creation or later) and enabled again before, so its checker was restarted by a spec update; in 40% of the endpoint removals the endpoint is first marked disabled by one update while the streams run and removed by the next); (d) the other cluster and the remaining endpoints answer new requests. A third of the endpoint removals also add a server for which no client can be built (sync fails half-way, re-delivered 3 times); half of the cluster deletions list alias names (repeated, other case, own name) and every name, in variants, must answer 503 afterwards. Every object carries the metadata.generation the API would give it (1 at creation, +1 per spec/annotation change); some endpoint removals are delivered as deleted-and-re-created-with-another-server-list (one update, generation back at 1). In a third of the histories the remaining endpoints of cluster A are spelled with a trailing slash. Extra histories with the production bearer-token wiring (token-review / access-review webhooks over the controller, cache TTL > 0): reviews before, removal of the endpoint that served the first review (or cluster delete), then requests with new tokens: no TokenReview / SubjectAccessReview / proxied request may reach the removed target. Distinct = hash(removal kind, timing, topology, stream shapes).")
		r.Assume("the 5 s promptness bound is judged only while the control streams of the same history deliver data (otherwise inconclusive)")
		r.Assume("a probe logged by a stub within 500 ms after the removing sync returned is taken as already in flight when the sync returned")
		r.Assume("the connecting phase (TCP dial pending at the removal) needs a listener whose full accept backlog makes a dial hang (Linux, backlog 1); where that does not work it is reported as not placed")

		if racePass {
			os.Setenv("VERIF_NO_EVIDENCE", "1")
		}
		n := tierN(r, 120, 1500)
		long := tierN(r, 6, 40)
		hung := tierN(r, 16, 40)
		vkit.Sched.Enable(uint64(r.Seed), 0.02, 0.01, 0.0005)
		wiredN := tierN(r, 40, 400)
		dialN := tierN(r, 24, 240)
		r.Parallel(n+long+hung+wiredN+dialN, 16, func(i int, g *vkit.Rand) {
			if p := vkit.Safely(func() {
				switch {
				case i >= n+long+hung+wiredN:
					dialPendingScenario(r, i, g)
				case i >= n+long+hung:
					wiredRemoval(r, i, g)
				case i < hung:
					runHistory(r, i, g, true, true)
					r.Count("hung_probe_histories", 1)
				case i < hung+long:
					runHistory(r, i, g, true, false)
				default:
					runHistory(r, i, g, false, false)
				}
			}); p != nil {
				r.Inconclusive(fmt.Sprintf("harness panic in history %d: %v", i, p))
			}
		})
		vkit.Sched.Disable()
		r.ReportSched()
		r.Set("max_observed_cancel_latency_ms", float64(latMax)/1e6)

		r.Require(r.Counter("histories") >= int64((n+long+hung)*9/10), "too few histories completed")
		if r.Counter("dial_pending_scenarios_without_a_backlog_listener")+r.Counter("dial_pending_scenarios_where_dials_did_not_hang") < int64(dialN)/2 {
			r.Require(r.Counter("requests_with_the_dial_pending_at_removal") >= int64(dialN/2) && r.Counter("dial_pending_all-endpoints-removed") >= int64(dialN/6), "too few requests whose dial was pending at the removal / too few emptied server lists")
		} else {
			r.Set("dial_pending_not_available", "this sandbox does not give a hanging dial with a backlog-1 listener; the connecting phase was not placed")
		}
		r.Require(r.Counter("wired_histories") >= int64(wiredN*9/10), "too few histories with the production token authenticator completed")
		r.Require(r.Counter("wired_reviews_after_removal_at_remaining_endpoints") >= int64(wiredN*3), "too few review requests were observed after an endpoint removal (production authenticator wiring)")
		r.Require(r.Counter("target_streams_ended") >= int64(tierN(r, 200, 2500)), "too few in-flight requests to removed targets were observed ending")
		r.Require(r.Counter("target_streams_that_reached_their_stub") >= int64(tierN(r, 150, 2000)), "too few target requests had reached their stub")
		r.Require(r.Counter("target_streams_streaming") > 0 && r.Counter("target_streams_awaiting-head") > 0 && r.Counter("target_streams_early") > 0 && r.Counter("target_streams_upgraded") >= int64(tierN(r, 20, 250)), "a request phase was not exercised")
		r.Require(r.Counter("control_streams_alive_after_removal") >= int64(tierN(r, 300, 4000)), "too few control streams")
		r.Require(r.Counter("new_requests_to_deleted_cluster") >= int64(tierN(r, 100, 1200)) && r.Counter("new_requests_to_remaining_endpoints") >= int64(tierN(r, 50, 600)), "too few new requests after removal")
		r.Require(r.Counter("removed_targets_probe_checked") >= int64(tierN(r, 100, 1200)), "too few removed targets checked for probes")
		r.Require(r.Counter("long_waits_after_removal") >= int64(long), "too few long waits after removal")
		r.Require(r.Counter("cluster_deletions_after_an_unapplied_alias_edit") >= int64(tierN(r, 6, 60)), "too few cluster deletions after an alias edit that was never applied")
		r.Require(r.Counter("endpoint_removals_by_recreation_with_equal_generation") >= int64(tierN(r, 6, 80)), "too few endpoint removals by delete-and-re-create with the generation back at the applied one")
		r.Require(r.Counter("histories_with_tls_http2_upstreams") >= int64(tierN(r, 25, 300)) && r.Counter("target_streams_over_http2_ended") >= int64(tierN(r, 40, 500)), "too few histories with TLS/HTTP2 upstreams")
		r.Require(r.Counter("histories_whose_cluster_had_an_earlier_deleted_incarnation") >= int64(tierN(r, 15, 200)), "too few histories with an earlier, deleted incarnation of the cluster")
		r.Require(r.Counter("histories_with_trailing_slash_server_urls") >= int64(tierN(r, 25, 300)), "too few histories with trailing-slash server URLs")
		r.Require(r.Counter("endpoint_removals_with_failing_add") >= int64(tierN(r, 6, 120)), "too few endpoint removals whose update also adds an unbuildable server")
		r.Require(r.Counter("cluster_deletions_with_alias_names") >= int64(tierN(r, 15, 150)) && r.Counter("alias_requests_forwarded_before_the_deletion") >= int64(tierN(r, 20, 200)), "too few cluster deletions with alias names")
		r.Require(r.Counter("streams_still_proxied_to_the_disabled_endpoint_at_removal") >= int64(tierN(r, 20, 250)), "too few streams were still being proxied to an endpoint that was disabled and then removed")
		r.Require(r.Counter("endpoint_removals_after_disable_enable") >= int64(tierN(r, 15, 200)), "too few endpoint removals whose endpoint had been disabled and enabled before")
		r.Require(r.Counter("endpoint_removals_after_disable_enable_with_long_wait") >= int64(tierN(r, 2, 10)), "too few endpoint removals after disable/enable followed by a > 5 s wait")
	})
}
