package c15

import (
	"context"
	"fmt"
	"io"
	"net/http"
	"strings"
	"sync"
	"time"

	"k8s.io/apiserver/pkg/authentication/authenticator"
	"k8s.io/apiserver/pkg/authorization/authorizer"

	proxyauthn "github.com/kubewharf/kubegateway/pkg/gateway/proxy/authenticator"
	proxyauthz "github.com/kubewharf/kubegateway/pkg/gateway/proxy/authorizer"

	"verifharness/bed"
	"verifharness/vkit"
)

// Removal histories with the PRODUCTION bearer-token wiring: the authenticator and authorizer are the ones the gateway
// builds (token-review / access-review webhooks over the controller as ClientProvider, caches with TTL > 0). The reviews
// the gateway sends on a cache miss are gateway traffic to an endpoint of the cluster, so after an endpoint was removed
// from the server list (or the cluster deleted) no TokenReview / SubjectAccessReview may reach it any more.

type lazyAuthn struct{ get func() authenticator.Request }

func (l lazyAuthn) AuthenticateRequest(req *http.Request) (*authenticator.Response, bool, error) {
	return l.get().AuthenticateRequest(req)
}

type lazyAuthz struct{ get func() authorizer.Authorizer }

func (l lazyAuthz) Authorize(ctx context.Context, a authorizer.Attributes) (authorizer.Decision, string, error) {
	return l.get().Authorize(ctx, a)
}

// reviewResponder answers the two review APIs like an API server that accepts every token as user "wired-user" and
// allows everything; everything else gets a plain 200. bed.Stub records every request (path, instant) before calling it.
func reviewResponder(w http.ResponseWriter, r *http.Request, s *bed.Seen) {
	switch {
	case r.Method == "POST" && strings.HasSuffix(r.URL.Path, "/tokenreviews"):
		w.Header().Set("Content-Type", "application/json")
		w.WriteHeader(201)
		io.WriteString(w, `{"apiVersion":"authentication.k8s.io/v1","kind":"TokenReview","status":{"authenticated":true,"user":{"username":"wired-user","uid":"u1","groups":["system:authenticated"]}}}`)
	case r.Method == "POST" && strings.HasSuffix(r.URL.Path, "/subjectaccessreviews"):
		w.Header().Set("Content-Type", "application/json")
		w.WriteHeader(201)
		io.WriteString(w, `{"apiVersion":"authorization.k8s.io/v1","kind":"SubjectAccessReview","status":{"allowed":true,"reason":"stub"}}`)
	default:
		w.Header().Set("Content-Type", "text/plain")
		w.WriteHeader(200)
		io.WriteString(w, "ok")
	}
}

func reviewKind(path string) string {
	switch {
	case strings.HasSuffix(path, "/tokenreviews"):
		return "tokenreview"
	case strings.HasSuffix(path, "/subjectaccessreviews"):
		return "subjectaccessreview"
	}
	return ""
}

func wiredRemoval(r *vkit.R, id int, g *vkit.Rand) {
	nA := g.Range(2, 4)
	var stubs []*bed.Stub
	var urlsA []string
	for i := 0; i < nA; i++ {
		s := bed.NewStub(fmt.Sprintf("w%d-s%d", id, i))
		s.SetResponder(reviewResponder)
		defer s.Close()
		stubs = append(stubs, s)
		urlsA = append(urlsA, s.URL)
	}
	var gw *bed.Gateway
	var once sync.Once
	var an authenticator.Request
	var az authorizer.Authorizer
	ttl := []time.Duration{10 * time.Second, time.Minute}[g.Intn(2)]
	build := func() {
		once.Do(func() {
			an, _, _ = proxyauthn.AuthenricatorConfig{
				TokenSuccessCacheTTL: ttl, TokenFailureCacheTTL: ttl,
				TokenRequest: &proxyauthn.TokenAuthenticationConfig{ClusterClientProvider: gw.Ctrl},
			}.New()
			az, _, _ = (&proxyauthz.AuthorizerConfig{CacheAuthorizedTTL: ttl, CacheUnauthorizedTTL: ttl, ClusterClientProvider: gw.Ctrl}).New()
		})
	}
	gw = bed.NewGateway(bed.GatewayOptions{
		Authn: lazyAuthn{func() authenticator.Request { build(); return an }},
		Authz: lazyAuthz{func() authorizer.Authorizer { build(); return az }},
	}).Start()
	defer gw.Close()
	name := fmt.Sprintf("w%d.c15.test", id)
	// the gateway's credential for this cluster, unique in the run: reviews carry it, so a review that another history's
	// gateway sends to a re-bound port of a closed stub is not counted here
	gwTok := fmt.Sprintf("gwt-c15w-%d-%s", id, name)
	mine := func(sn bed.Seen) bool {
		return sn.Header.Get("Authorization") == "Bearer "+gwTok || strings.HasPrefix(sn.ID, fmt.Sprintf("c15w-%d-", id))
	}
	obj := bed.BuildCluster(bed.ClusterSpec{Name: name, Servers: urlsA, Token: gwTok})
	if sr := gw.Apply(obj); sr.Err != nil || sr.Panic != nil || sr.Requeue {
		r.Inconclusive(fmt.Sprintf("wired history %d: controller did not apply the cluster: %+v", id, sr))
		return
	}
	if !gw.WaitAllReady(obj, watchdog) {
		r.Inconclusive(fmt.Sprintf("wired history %d: stub endpoints did not become ready within the watchdog", id))
		return
	}
	nreq := 0
	send := func(phase string) (int, string) {
		nreq++
		rid := fmt.Sprintf("c15w-%d-%d", id, nreq)
		// a NEW token and a new object name every time: token cache miss and access-review cache miss
		tok := fmt.Sprintf("tok-%d-%d-%s", id, nreq, phase)
		req := bed.NewRequest("GET", name, fmt.Sprintf("/api/v1/namespaces/ns/pods/p%d", nreq), tok, rid, nil)
		if nreq%2 == 0 {
			// impersonation is what makes the gateway ask the cluster for a SubjectAccessReview (new name = cache miss)
			req.Header.Set("Impersonate-User", fmt.Sprintf("someone-%d-%d", id, nreq))
		}
		resp := gw.Do(req)
		if resp.Err != nil {
			return -1, rid
		}
		return resp.Status, rid
	}
	// ---- before the removal: some reviews; the endpoint that served the FIRST token review is the one to be removed
	nBefore := g.Range(1, 4)
	first := -1
	for i := 0; i < nBefore; i++ {
		status, rid := send("before")
		if status != 200 {
			r.Inconclusive(fmt.Sprintf("wired history %d: request %s before the removal got status %d (production authenticator over stubs)", id, rid, status))
			return
		}
		if first < 0 {
			for si, s := range stubs {
				for _, sn := range s.SeenAll() {
					if mine(sn) && reviewKind(sn.Path) == "tokenreview" {
						first = si
					}
				}
			}
		}
	}
	if first < 0 {
		r.Inconclusive(fmt.Sprintf("wired history %d: no TokenReview reached any stub before the removal", id))
		return
	}
	kind := "endpoint-remove"
	if g.Chance(0.25) {
		kind = "cluster-delete"
	}
	var sr bed.SyncResult
	if kind == "cluster-delete" {
		sr = gw.Delete(name)
	} else {
		var rest []string
		for i, u := range urlsA {
			if i != first {
				rest = append(rest, u)
			}
		}
		sr = gw.Apply(bed.BuildCluster(bed.ClusterSpec{Name: name, Servers: rest, Token: gwTok}))
	}
	tRemoved := bed.Now()
	if sr.Err != nil || sr.Panic != nil || sr.Requeue {
		r.Inconclusive(fmt.Sprintf("wired history %d: controller did not apply the removal: %+v", id, sr))
		return
	}
	r.Eval(1)
	r.Count("wired_histories", 1)
	r.Count("wired_removal_"+kind, 1)
	r.Distinct(vkit.Hash64("wired", kind, fmt.Sprint(nA, first, nBefore, ttl)))
	// ---- after the removing sync returned: new tokens, sequentially
	nAfter := g.Range(5, 10)
	var statuses []int
	for i := 0; i < nAfter; i++ {
		status, _ := send("after")
		statuses = append(statuses, status)
	}
	wit := map[string]interface{}{"history": id, "removal": kind, "stubs": nA, "removed_stub": first, "requests_before": nBefore, "new_token_requests_after": nAfter, "statuses_after": statuses, "cache_ttl": ttl.String()}
	for si, s := range stubs {
		removed := kind == "cluster-delete" || si == first
		for _, sn := range s.SeenAll() {
			if !mine(sn) {
				r.Count("observation_stray_requests_from_other_histories", 1)
				continue
			}
			if sn.At <= tRemoved {
				continue
			}
			rk := reviewKind(sn.Path)
			if !removed {
				if rk != "" {
					r.Count("wired_reviews_after_removal_at_remaining_endpoints", 1)
					r.Count("wired_"+rk+"s_after_removal_at_remaining_endpoints", 1)
				} else {
					r.Count("wired_requests_forwarded_after_removal", 1)
				}
				continue
			}
			ms := float64(sn.At-tRemoved) / 1e6
			if rk != "" {
				r.Violation(fmt.Sprintf("C15/%s/review-sent-to-removed-target/%s", kind, rk),
					fmt.Sprintf("%s with bearer-token authentication through the production authenticator/authorizer: a %s (%s %s) reached the removed target (stub %d) %.1f ms after the removing sync returned; it was caused by a request with a new token sent after that sync",
						kind, rk, sn.Method, sn.Path, si, ms), wit)
			} else {
				r.Violation("C15/"+kind+"/new-request-forwarded-to-removed-target/wired",
					fmt.Sprintf("%s: request %s sent after the removing sync returned was forwarded to the removed target (stub %d)", kind, sn.ID, si), wit)
			}
		}
	}
	for _, st := range statuses {
		want := 200
		if kind == "cluster-delete" {
			want = 503
		}
		if st == want {
			r.Count("wired_requests_after_removal_answered_as_expected", 1)
		} else {
			r.Count(fmt.Sprintf("wired_requests_after_removal_status_%d", st), 1)
		}
	}
	if kind == "cluster-delete" {
		for _, st := range statuses {
			if st != 503 {
				r.Violation(fmt.Sprintf("C15/cluster-delete/new-request-status-%d", st), fmt.Sprintf("request to the deleted cluster (production authenticator wiring) got status %d instead of 503", st), wit)
				break
			}
		}
	}
}
