#!/bin/bash
# MANIFEST.setup_cmd: offline; generates the harness module files from /repo/go.mod and warms the Go build cache.
ROOT=$(cd "$(dirname "$0")" && pwd)
export GOFLAGS=-mod=mod GOPROXY=off GOSUMDB=off GOTOOLCHAIN=local
mkdir -p "$ROOT/out" "$ROOT/evidence" "$ROOT/replay"
"$ROOT/tools/gomodgen.sh" || exit 1
( cd "$ROOT/harness" && go test -tags verif -vet=off -count=1 -run '^$' ./... ) 2>&1 | tail -n 40
if [ -d "$ROOT/tools/schedinstr" ]; then ( cd "$ROOT/tools/schedinstr" && go build -o /dev/null . ) || exit 1; fi
exit 0
